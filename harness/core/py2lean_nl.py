"""Translator Python `ast` -> Lean 4 for the statement blocks of control/nlsys.py that carry property C08
(DESIGN §10.3, notes/NOTES-py2lean-nlsys.md).  On every run of `check.py C08` it rewrites
`lean/CtrlVerif/Generated/NL*.lean` from the source text of the tree under check; `Props/C08Gen*.lean` prove
the hand-written model (`Model/IOSys.lean`, `IOSysDyn.lean`, `IOSysHist.lean`) EQUAL to the generated
functions.  A semantic edit of a tied statement breaks a proof obligation; an edit that leaves the
supported subset makes the translation fail (the emitted definition is then `.error .notImplemented` /
a constant for every argument, which cannot equal the model) - reported the same way.

BLOCKS (located by structural AST patterns that must match exactly once, never by line number):
  in `input_output_response`
    nlUfun        the nested function that calls `np.searchsorted` (the input function `ufun`); its free
                  variables are the time vector (first argument of `searchsorted`) and the input array (the
                  array indexed with `...`)
    nlDiscGrid    the statements of the branch `elif isdtime(sys):` before `soln = ...OptimizeResult()`
                  (`t_eval is None` is False: an array; the spacing tests), once per kind of `sys.dt`
    nlDiscLoop    the statements of that branch after `soln = ...OptimizeResult()`: initialisation, the loop
                  `for t in t_eval: ... y.append(sys._out(...)); x = sys._rhs(...)`, the conversion of the
                  collected lists; returns the first four arguments of the final `return TimeResponseData(...)`
    nlBroadcast   the `for i, u in enumerate(U):` loop under `if isinstance(U, (tuple, list)) and len(U) !=
                  ntimepts` (broadcasting of mixed input lists), per element kind, and the `np.vstack`
  `_process_vector_argument` + `_find_size`   (whole bodies, per kind of argument) -> nlProcessVector
  in `NonlinearIOSystem.linearize`
    nlLinPoint    the `isinstance(x0, OperatingPoint)` / `u0 is None` resolution
    nlLinearize   from the two `_process_vector_argument` calls to the `StateSpace(A, B, C, D, ...)` call:
                  forward differences with `eps`; returns (A, B, C, D)
  in `find_operating_point`
    nlOpIndex     the `else:` branch of `if all([x is None for x in (iu, iy, ix, idx)])` up to `nstate_vars`:
                  the index lists
    nlRootfun     the nested `rootfun` of that branch, and nlOpUnpack the statements after the `root` call
  `NonlinearIOSystem._update_params`, `InterconnectedSystem._update_params` -> nlUpdateLeaf, nlUpdateNode

Value model: `lean/CtrlVerif/Model/PyNL.lean` (hand-written, trusted) + `Model/PyArith.lean`.  Subsystem
update / output functions (`sys._rhs`, `sys._out`), `scipy.optimize.root` are PARAMETERS; `solve_ivp` is not
translated.  `raise ValueError(msg)` is classified by the rule of harness/families/c08.py: classify_exc
("timebase" / "Time steps" / "equally spaced" -> timebase, "min()" -> badArg, else shape); `TypeError` ->
notImplemented.  Effectful sub-expressions (anything that can raise) are bound to temporaries left to
right in Python's order.  Output is deterministic, carries the sha256 of the translated text, and is
rewritten only when changed.
"""
import ast
import hashlib
import os
import re

from core.py2lean import Unsupported
from core.py2lean_ss import module_bindings, _ind

REL = "control/nlsys.py"

K, INT, BOOL, VEC, LVEC, SIG, CMAT, NONE, STR, EMPTY = "K", "INT", "BOOL", "VEC", "LVEC", "SIG", "CMAT", "NONE", "STR", "EMPTY"
FUN3, UFUN, SYS, OPTVEC, TUPLE, OBJ, ILIST, TRUE, FALSE = "FUN3", "UFUN", "SYS", "OPTVEC", "TUPLE", "OBJ", "ILIST", "TRUE", "FALSE"
ARG_LIST, ARG_SCALAR, ARG_ARRAY, ARG_NONE = "ARG_LIST", "ARG_SCALAR", "ARG_ARRAY", "ARG_NONE"
DICT, OPTDICT, ROWS, ARGV, XARG_OP, OBJLIST = "DICT", "OPTDICT", "ROWS", "ARGV", "XARG_OP", "OBJLIST"
RMAT, LRMAT, UELEM, ULIST = "RMAT", "LRMAT", "UELEM", "ULIST"
OPTILIST, NPINT = "OPTILIST", "NPINT"
SUBSYS, DICTLIST, LDICT = "SUBSYS", "DICTLIST", "LDICT"

LEAN_KEYWORDS = {"at", "from", "end", "open", "then", "do", "fun", "match", "with", "in", "if", "let", "have",
                 "show", "by", "local", "where", "def", "theorem", "else", "for", "return", "mut", "K", "Type",
                 "Prop", "Nat", "Int", "import", "namespace", "section", "variable", "instance", "class",
                 "structure", "inductive", "deriving", "using", "calc", "this", "nomatch", "try", "catch",
                 "finally", "unless", "break", "continue", "export", "private", "protected", "partial",
                 "macro", "syntax", "notation", "universe", "abbrev", "example", "opaque", "rhs", "out",
                 "root", "sysdt", "h", "size", "some", "none"}


def lean_name(py):
    py = py.replace(".", "_")
    if py in LEAN_KEYWORDS or re.fullmatch(r"t\d+", py) or not re.fullmatch(r"[A-Za-z_][A-Za-z0-9_]*", py):
        return py + "_py"
    return py


class V:
    def __init__(self, code, ty, lit=None, items=None, attrs=None):
        self.code, self.ty, self.lit, self.items, self.attrs = code, ty, lit, items, attrs


def classify_raise(node):
    """the rule of harness/families/c08.py: classify_exc applied to the raise statement"""
    exc = node.exc
    name, msg = None, ""
    if isinstance(exc, ast.Call):
        name = ast.unparse(exc.func)
        msg = " ".join(ast.unparse(a) for a in exc.args)
    elif exc is not None:
        name = ast.unparse(exc)
    if name == "ValueError":
        if "timebase" in msg or "Time steps" in msg or "equally spaced" in msg:
            return "timebase"
        if "min()" in msg:
            return "badArg"
        return "shape"
    if name == "TypeError":
        return "notImplemented"
    if name == "IndexError":
        return "indexRange"
    if name == "ZeroDivisionError":
        return "zeroDen"
    raise Unsupported("raise of %s" % name)


class Tr:
    """one block; `F` is the Lean name of the field (`K` or `ℚ`)"""

    def __init__(self, F, funcs=None, empties=None):
        self.F = F
        self.ntmp = 0
        self.notes = []
        self.funcs = funcs or {}          # python function name -> handler(self, node, args, env, pre) -> V
        self.empties = empties if empties is not None else {}
        self.order_hint = []              # python names in the order of the block's result (state tuples follow it)

    # ---- helpers ---------------------------------------------------------------------------------
    def lty(self, ty):
        F = self.F
        m = {K: F, INT: "Int", BOOL: "Bool", VEC: "List %s" % F, LVEC: "List (List %s)" % F,
             SIG: "List (List %s)" % F, ROWS: "List (List %s)" % F, CMAT: "PyNL.CMat %s" % F,
             OPTVEC: "Option (List %s)" % F, ILIST: "List Int", ARGV: "PyNL.Arg %s" % F,
             DICT: "PyNL.Dict κ ν", OPTDICT: "Option (PyNL.Dict κ ν)", RMAT: "PyNL.RMat %s" % F,
             OPTILIST: "Option (List Int)", SUBSYS: "PyNL.Dict κ ν", DICTLIST: "List (PyNL.Dict κ ν)",
             LDICT: "List (PyNL.Dict κ ν)", LRMAT: "List (PyNL.RMat %s)" % F, UELEM: "PyNL.UElem %s" % F, ULIST: "List (PyNL.UElem %s)" % F}
        if ty not in m:
            raise Unsupported("no Lean type for a value of kind %s" % ty)
        return m[ty]

    def tmp(self):
        self.ntmp += 1
        return "t%d" % self.ntmp

    def bind(self, pre, code, ty):
        t = self.tmp()
        pre.append("let %s ← %s" % (t, code))
        return V(t, ty)

    def note(self, s):
        if s not in self.notes:
            self.notes.append(s)

    def as_K(self, v):
        if v.ty == K:
            if v.lit is not None:
                return "(%s : %s)" % (self.num_lit(v.lit), self.F)
            return v.code
        if v.ty == INT:
            if v.lit is not None:
                return "(%s : %s)" % (self.num_lit(v.lit), self.F)
            return "((%s : Int) : %s)" % (v.code, self.F)
        raise Unsupported("a %s where a number is needed" % v.ty)

    def as_int(self, v):
        if v.ty == INT:
            if v.lit is not None:
                return "(%d : Int)" % v.lit
            return v.code
        raise Unsupported("a %s where an int is needed" % v.ty)

    @staticmethod
    def num_lit(x):
        if isinstance(x, bool):
            raise Unsupported("bool used as a number")
        if isinstance(x, int):
            return str(x) if x >= 0 else "(%d)" % x
        if isinstance(x, float):
            if x == int(x) and abs(x) < 2 ** 53:
                return str(int(x)) if x >= 0 else "(%d)" % int(x)
            # an exact decimal literal
            from fractions import Fraction
            fr = Fraction(repr(x))
            return "(%d / %d)" % (fr.numerator, fr.denominator)
        raise Unsupported("literal %r" % (x,))

    # ---- tests -----------------------------------------------------------------------------------
    def test(self, node, env, pre):
        """-> (static truth value or None, Lean Prop / Bool code)"""
        if isinstance(node, ast.UnaryOp) and isinstance(node.op, ast.Not):
            s, c = self.test(node.operand, env, pre)
            if s is not None:
                return (not s), None
            return None, "¬ (%s)" % c
        if isinstance(node, ast.BoolOp):
            # short-circuit: operands with effects after a dynamic operand are not supported
            is_and = isinstance(node.op, ast.And)
            parts = []
            for k, o in enumerate(node.values):
                sub = []
                s, c = self.test(o, env, sub)
                if s is not None:
                    if s != is_and:          # False in `and`, True in `or`: decides, later operands not evaluated
                        if not parts:
                            return s, None
                        # earlier dynamic operands decide whether this one is reached; value is fixed
                        parts.append("False" if is_and else "True")
                        break
                    continue
                if sub and parts:
                    raise _NeedDo()
                pre.extend(sub)
                parts.append("(%s)" % c)
            if not parts:
                return is_and, None
            return None, (" ∧ " if is_and else " ∨ ").join(parts)
        if isinstance(node, ast.Compare) and len(node.ops) == 1:
            op, l, r = node.ops[0], node.left, node.comparators[0]
            if isinstance(op, (ast.Is, ast.IsNot)):
                a, b = self.expr(l, env, pre), self.expr(r, env, pre)
                neg = isinstance(op, ast.IsNot)
                if b.ty == NONE:
                    if a.ty == OPTVEC:
                        return None, ("%s.isSome = true" if neg else "%s.isNone = true") % a.code
                    if a.ty == OPTDICT:
                        return None, ("%s.isSome = true" if neg else "%s.isNone = true") % a.code
                    return ((a.ty == NONE) != neg), None
                if b.ty in (TRUE, FALSE):
                    if a.ty in (TRUE, FALSE, NONE, K, INT, VEC):
                        return ((a.ty == b.ty) != neg), None
                raise Unsupported("`is` test %s" % ast.unparse(node))
            a, b = self.expr(l, env, pre), self.expr(r, env, pre)
            sym = {ast.Lt: "<", ast.LtE: "≤", ast.Gt: ">", ast.GtE: "≥", ast.Eq: "=", ast.NotEq: "≠"}.get(type(op))
            if sym is None:
                raise Unsupported("comparison %s" % ast.unparse(node))
            if a.ty == INT and b.ty == INT:
                if a.lit is not None and b.lit is not None:
                    return eval("%d %s %d" % (a.lit, {"=": "==", "≠": "!=", "≤": "<=", "≥": ">="}.get(sym, sym), b.lit)), None
                return None, "%s %s %s" % (self.as_int(a), sym, self.as_int(b))
            if a.ty in (K, INT) and b.ty in (K, INT):
                return None, "%s %s %s" % (self.as_K(a), sym, self.as_K(b))
            raise Unsupported("comparison of %s and %s" % (a.ty, b.ty))
        if isinstance(node, ast.Call):
            f = ast.unparse(node.func)
            if f == "isinstance" and len(node.args) == 2:
                a = self.expr(node.args[0], env, pre)
                cls = ast.unparse(node.args[1]).replace(" ", "")
                table = {"(tuple,list)": {ARG_LIST}, "(list,tuple)": {ARG_LIST}, "np.ndarray": {ARG_ARRAY, VEC, SIG},
                         "OperatingPoint": {XARG_OP}}
                if cls == "OperatingPoint":
                    return a.ty == XARG_OP, None
                if cls == "int":
                    if a.ty == NPINT:
                        self.note("the entries of an array made by np.unique are NumPy integers: `isinstance(x, int)` is False")
                        return False, None
                    if a.ty == INT:
                        return True, None
                if cls not in table:
                    raise Unsupported("isinstance(., %s)" % cls)
                if a.ty in (ARGV, OPTVEC):
                    raise Unsupported("isinstance on a value of undetermined kind")
                return a.ty in table[cls], None
            if f == "np.isscalar" and len(node.args) == 1:
                a = self.expr(node.args[0], env, pre)
                if a.ty in (ARGV, OPTVEC):
                    raise Unsupported("np.isscalar on a value of undetermined kind")
                return a.ty in (ARG_SCALAR, K, INT), None
            if f == "hasattr" and len(node.args) == 2 and ast.unparse(node.args[1]) in ("'__len__'", '"__len__"'):
                a = self.expr(node.args[0], env, pre)
                if a.ty in (VEC, LVEC, SIG, ILIST):
                    return True, None
                if a.ty in (NONE, K, INT):
                    return False, None
                raise Unsupported("hasattr(., '__len__') on %s" % a.ty)
            if f in ("np.allclose", "np.isclose") and len(node.args) == 2 and not node.keywords:
                if self.F != "ℚ":
                    raise Unsupported("%s outside the rational blocks" % f)
                a, b = self.expr(node.args[0], env, pre), self.expr(node.args[1], env, pre)
                if f == "np.allclose" and a.ty == VEC and b.ty in (K, INT):
                    return None, "PyNL.allcloseNum %s %s = true" % (a.code, self.as_K(b))
                if f == "np.isclose" and a.ty in (K, INT) and b.ty in (K, INT):
                    return None, "close %s %s = true" % (self.as_K(a), self.as_K(b))
                raise Unsupported("%s of %s and %s" % (f, a.ty, b.ty))
            if f == "len" and len(node.args) == 1:
                a = self.expr(node, env, pre)
                return None, "%s ≠ 0" % self.as_int(a)
            if f == "any" and len(node.args) == 1 and isinstance(node.args[0], ast.ListComp) \
                    and len(node.args[0].generators) == 1 and not node.args[0].generators[0].ifs \
                    and isinstance(node.args[0].generators[0].target, ast.Name):
                g = node.args[0].generators[0]
                L = self.expr(g.iter, env, pre)
                if L.ty != ILIST:
                    raise Unsupported("any over %s" % L.ty)
                e2 = dict(env)
                e2[g.target.id] = V(lean_name(g.target.id), NPINT if L.attrs == "npint" else INT)
                sub = []
                st, c = self.test(node.args[0].elt, e2, sub)
                if st is None or sub:
                    raise Unsupported("any([...]) with a dynamic element test")
                if st:
                    return None, "%s ≠ []" % L.code
                return False, None
        # truth value of a plain value
        v = self.expr(node, env, pre)
        if v.ty == NONE:
            return False, None
        if v.ty in (TRUE, FALSE):
            return v.ty == TRUE, None
        if v.ty == OPTDICT:
            return None, "PyNL.Dict.truthy %s = true" % v.code
        if v.ty == INT:
            return None, "%s ≠ 0" % self.as_int(v)
        raise Unsupported("truth value of %s (%s)" % (ast.unparse(node)[:50], v.ty))

    def option_test(self, node, env):
        """`name is None` / `name is not None` on an optional value -> (name, True when the test holds for `some`)"""
        if isinstance(node, ast.UnaryOp) and isinstance(node.op, ast.Not):
            r = self.option_test(node.operand, env)
            return None if r is None else (r[0], not r[1])
        if isinstance(node, ast.Compare) and len(node.ops) == 1 and isinstance(node.ops[0], (ast.Is, ast.IsNot)) \
                and isinstance(node.left, ast.Name) and isinstance(node.comparators[0], ast.Constant) \
                and node.comparators[0].value is None and node.left.id in env \
                and env[node.left.id].ty in (OPTVEC, OPTILIST):
            return node.left.id, isinstance(node.ops[0], ast.IsNot)
        return None

    def bool_do(self, node, env):
        """lines of a `do` block of type `Except Err Bool` that evaluates the test with Python's short-circuit"""
        if isinstance(node, ast.BoolOp):
            is_and = isinstance(node.op, ast.And)
            first, rest = node.values[0], node.values[1:]
            tail_node = rest[0] if len(rest) == 1 else ast.BoolOp(op=node.op, values=rest)
            pre = []
            st, c = self.test_or_do(first, env, pre)
            if st is not None:
                if st != is_and:
                    return pre + ["pure %s" % ("false" if is_and else "true")]
                return pre + self.bool_do(tail_node, env)
            more = self.bool_do(tail_node, env)
            if is_and:
                return pre + ["if %s then" % c] + _ind(more) + ["else", "  pure false"]
            return pre + ["if %s then" % c, "  pure true", "else"] + _ind(more)
        pre = []
        st, c = self.test_or_do(node, env, pre)
        if st is not None:
            return pre + ["pure %s" % ("true" if st else "false")]
        return pre + ["pure (decide (%s))" % c]

    def test_or_do(self, node, env, pre):
        try:
            sub = []
            r = self.test(node, env, sub)
            pre.extend(sub)
            return r
        except _NeedDo:
            t = self.tmp()
            pre.append("let %s ← (do" % t)
            pre.extend(_ind(self.bool_do(node, env), 4))
            pre.append("    : Except Err Bool)")
            return None, "%s = true" % t

    # ---- expressions -----------------------------------------------------------------------------
    def expr(self, node, env, pre):
        if isinstance(node, ast.Constant):
            c = node.value
            if c is None:
                return V(None, NONE)
            if c is True:
                return V("true", TRUE)
            if c is False:
                return V("false", FALSE)
            if isinstance(c, int):
                return V("(%d : Int)" % c, INT, lit=c)
            if isinstance(c, float):
                return V(None, K, lit=c)
            if isinstance(c, str):
                return V(repr(c), STR, lit=c)
            if c is Ellipsis:
                return V(None, "ELLIPSIS")
            raise Unsupported("constant %r" % (c,))
        if isinstance(node, ast.Name):
            if node.id not in env:
                raise Unsupported("unknown name `%s`" % node.id)
            return env[node.id]
        if isinstance(node, ast.Attribute):
            key = ast.unparse(node)
            if key in env:
                return env[key]
            base = self.expr(node.value, env, pre)
            if base.attrs is not None and node.attr in base.attrs:
                return base.attrs[node.attr]
            if node.attr == "params" and base.ty == SUBSYS:
                return V(base.code, DICT)
            if node.attr == "ndim" and base.ty in (K, VEC, RMAT):
                d = {K: 0, VEC: 1, RMAT: 2}[base.ty]
                return V("(%d : Int)" % d, INT, lit=d)
            if node.attr == "shape" and base.ty == RMAT:
                return V(None, TUPLE, items=[V("(%s.rows.length : Int)" % base.code, INT), V("(%s.c : Int)" % base.code, INT)])
            if node.attr == "size" and base.ty == VEC:
                return V("(%s.length : Int)" % base.code, INT)
            if node.attr == "shape" and base.ty == VEC:
                return V(None, TUPLE, items=[V("(%s.length : Int)" % base.code, INT)])
            raise Unsupported("attribute %s" % key)
        if isinstance(node, ast.UnaryOp) and isinstance(node.op, ast.USub):
            v = self.expr(node.operand, env, pre)
            if v.lit is not None and v.ty in (INT, K):
                return V("(%s : %s)" % (self.num_lit(-v.lit), "Int" if v.ty == INT else self.F), v.ty, lit=-v.lit)
            if v.ty == INT:
                return V("(-%s)" % v.code, INT)
            if v.ty == K:
                return V("(-%s)" % v.code, K)
            raise Unsupported("negation of %s" % v.ty)
        if isinstance(node, ast.BinOp):
            return self.binop(node, env, pre)
        if isinstance(node, ast.Subscript):
            return self.subscript(node, env, pre)
        if isinstance(node, ast.Call):
            return self.call(node, env, pre)
        if isinstance(node, ast.List) and not node.elts:
            return V("[]", EMPTY)
        if isinstance(node, (ast.Tuple, ast.List)):
            return V(None, TUPLE, items=[self.expr(e, env, pre) for e in node.elts])
        if isinstance(node, ast.IfExp):
            opt = self.option_test(node.test, env)
            if opt is not None:
                name, some_first = opt
                cur = env[name]
                inner = {OPTVEC: VEC, OPTILIST: ILIST}[cur.ty]
                e_some, e_none = dict(env), dict(env)
                e_some[name] = V(cur.code, inner)
                e_none[name] = V(None, NONE)
                sub1, sub2 = [], []
                a = self.expr(node.body if some_first else node.orelse, e_some, sub1)
                b = self.expr(node.orelse if some_first else node.body, e_none, sub2)
                if sub1 or sub2:
                    raise Unsupported("conditional expression on an optional value with effects")
                if a.ty != b.ty:
                    raise Unsupported("conditional expression of kinds %s / %s" % (a.ty, b.ty))
                return V("(match %s with | some %s => %s | none => %s)" % (cur.code, cur.code, a.code, b.code), a.ty)
            s, c = self.test(node.test, env, pre)
            if s is not None:
                return self.expr(node.body if s else node.orelse, env, pre)
            sub1, sub2 = [], []
            a, b = self.expr(node.body, env, sub1), self.expr(node.orelse, env, sub2)
            if a.ty != b.ty:
                if {a.ty, b.ty} <= {K, INT} and not (sub1 or sub2):
                    return V("(if %s then %s else %s)" % (c, self.as_K(a), self.as_K(b)), K)
                raise Unsupported("conditional expression of kinds %s / %s" % (a.ty, b.ty))
            if sub1 or sub2:
                t = self.tmp()
                pre.append("let %s ← (if %s then (do" % (t, c))
                pre.extend(_ind(sub1 + ["pure %s" % a.code], 4))
                pre.append("    : Except Err (%s)) else (do" % self.lty(a.ty))
                pre.extend(_ind(sub2 + ["pure %s" % b.code], 4))
                pre.append("    : Except Err (%s)))" % self.lty(a.ty))
                return V(t, a.ty)
            return V("(if %s then %s else %s)" % (c, a.code, b.code), a.ty)
        raise Unsupported("expression %s" % ast.unparse(node)[:60])

    def binop(self, node, env, pre):
        a = self.expr(node.left, env, pre)
        b = self.expr(node.right, env, pre)
        op = type(node.op)
        sym = {ast.Add: "+", ast.Sub: "-", ast.Mult: "*"}.get(op)
        if a.ty == INT and b.ty == INT and sym:
            if a.lit is not None and b.lit is not None:
                r = {"+": a.lit + b.lit, "-": a.lit - b.lit, "*": a.lit * b.lit}[sym]
                return V("(%d : Int)" % r, INT, lit=r)
            return V("(%s %s %s)" % (self.as_int(a), sym, self.as_int(b)), INT)
        if a.ty in (K, INT) and b.ty in (K, INT) and sym:
            return V("(%s %s %s)" % (self.as_K(a), sym, self.as_K(b)), K)
        if a.ty in (K, INT) and b.ty in (K, INT) and op is ast.Div:
            return self.bind(pre, "PyArith.div %s %s" % (self.as_K(a), self.as_K(b)), K)
        if a.ty == VEC and b.ty == VEC and op is ast.Add and a.attrs == "pylist":
            return V("(%s ++ %s)" % (a.code, b.code), VEC, attrs="pylist")
        if a.ty == VEC and b.ty == VEC and op is ast.Add:
            return self.bind(pre, "PyNL.vadd %s %s" % (a.code, b.code), VEC)
        if a.ty == VEC and b.ty == VEC and op is ast.Sub:
            return self.bind(pre, "PyNL.vsub %s %s" % (a.code, b.code), VEC)
        if a.ty == VEC and b.ty in (K, INT) and op is ast.Mult:
            return V("(PyNL.vscale %s %s)" % (a.code, self.as_K(b)), VEC)
        if a.ty in (K, INT) and b.ty == VEC and op is ast.Mult:
            self.note("`c * v` for a scalar and an array is written `v * c` (commutative field)")
            return V("(PyNL.vscale %s %s)" % (b.code, self.as_K(a)), VEC)
        if a.ty == VEC and b.ty in (K, INT) and op is ast.Div:
            return self.bind(pre, "PyNL.vdiv %s %s" % (a.code, self.as_K(b)), VEC)
        if a.ty == VEC and b.ty in (K, INT) and op is ast.Sub:
            return V("(%s.map (· - %s))" % (a.code, self.as_K(b)), VEC)
        raise Unsupported("%s of %s and %s" % (op.__name__, a.ty, b.ty))

    def slice_parts(self, sl):
        return sl.lower, sl.upper, sl.step

    def subscript(self, node, env, pre):
        base = self.expr(node.value, env, pre)
        sl = node.slice
        if base.ty == TUPLE and isinstance(sl, ast.Constant) and isinstance(sl.value, int):
            return base.items[sl.value]
        if isinstance(sl, ast.Tuple) and len(sl.elts) == 2 and base.ty == SIG:
            first = sl.elts[0]
            full = (isinstance(first, ast.Constant) and first.value is Ellipsis) or \
                   (isinstance(first, ast.Slice) and first.lower is None and first.upper is None and first.step is None)
            if not full:
                raise Unsupported("index %s" % ast.unparse(node))
            i = self.expr(sl.elts[1], env, pre)
            return self.bind(pre, "PyArith.getItem %s %s" % (base.code, self.as_int(i)), VEC)
        if isinstance(sl, ast.Slice):
            lo, up, st = self.slice_parts(sl)
            if st is not None:
                raise Unsupported("extended slice")
            if base.ty not in (VEC, LVEC, ILIST):
                raise Unsupported("slice of %s" % base.ty)
            code = base.code
            if up is not None:
                u = self.expr(up, env, pre)
                code = "(PyNL.sliceTo %s %s)" % (code, self.as_int(u))
                if lo is not None:
                    raise Unsupported("slice with both bounds")
            elif lo is not None:
                l = self.expr(lo, env, pre)
                code = "(PyNL.sliceFrom %s %s)" % (code, self.as_int(l))
            return V(code, base.ty)
        i = self.expr(sl, env, pre)
        if i.ty == INT:
            if base.ty == VEC:
                return self.bind(pre, "PyArith.getItem %s %s" % (base.code, self.as_int(i)), K)
            if base.ty == LVEC:
                return self.bind(pre, "PyArith.getItem %s %s" % (base.code, self.as_int(i)), VEC)
            if base.ty == ILIST:
                return self.bind(pre, "PyArith.getItem %s %s" % (base.code, self.as_int(i)), INT)
        if i.ty == ILIST and base.ty == VEC:
            return self.bind(pre, "PyNL.gather %s %s" % (base.code, i.code), VEC)
        raise Unsupported("index %s (%s[%s])" % (ast.unparse(node)[:50], base.ty, i.ty))

    def shape_arg(self, node, env, pre):
        """the argument of np.zeros / np.ones: an int, `(n,)` or `(r, c)` -> list of int codes"""
        v = self.expr(node, env, pre)
        if v.ty == INT:
            return [self.as_int(v)]
        if v.ty == TUPLE and all(x.ty == INT for x in v.items) and 1 <= len(v.items) <= 2:
            return [self.as_int(x) for x in v.items]
        raise Unsupported("shape %s" % ast.unparse(node))

    def call(self, node, env, pre):
        f = ast.unparse(node.func)
        args = node.args
        kw = {k.arg: k.value for k in node.keywords}
        if f in env and env[f].ty in (FUN3, UFUN):
            fn = env[f]
            vals = [self.expr(a, env, pre) for a in args]
            if kw:
                raise Unsupported("keyword arguments of %s" % f)
            want = [K, VEC, VEC] if fn.ty == FUN3 else [K]
            if len(vals) != len(want):
                raise Unsupported("call %s with %d arguments" % (f, len(vals)))
            codes = []
            for v, w in zip(vals, want):
                if w == K:
                    codes.append(self.as_K(v))
                elif v.ty == VEC:
                    codes.append(v.code)
                else:
                    raise Unsupported("argument of kind %s for %s" % (v.ty, f))
            return self.bind(pre, "%s %s" % (fn.code, " ".join(codes)), VEC)
        if f in self.funcs:
            return self.funcs[f](self, node, env, pre)
        if f == "len" and len(args) == 1:
            v = self.expr(args[0], env, pre)
            if v.ty in (VEC, LVEC, SIG, ILIST):
                return V("(%s.length : Int)" % v.code, INT)
            if v.ty == ARG_LIST:
                return V("(%s.length : Int)" % v.code, INT)
            raise Unsupported("len of %s" % v.ty)
        if f == "np.clip" and len(args) == 3 and not kw:
            a, lo, hi = [self.expr(x, env, pre) for x in args]
            return V("(PyNL.clip %s %s %s)" % (self.as_int(a), self.as_int(lo), self.as_int(hi)), INT)
        if f == "np.searchsorted" and len(args) == 2:
            side = kw.get("side")
            if set(kw) - {"side"} or side is None or not (isinstance(side, ast.Constant) and side.value == "left"):
                raise Unsupported("np.searchsorted without side='left'")
            a, t = self.expr(args[0], env, pre), self.expr(args[1], env, pre)
            if a.ty != VEC:
                raise Unsupported("searchsorted on %s" % a.ty)
            return V("(PyNL.searchsortedLeft %s %s)" % (a.code, self.as_K(t)), INT)
        if f == "np.array" and len(args) == 1 and (not kw or (set(kw) == {"dtype"} and ast.unparse(kw["dtype"]) == "float")):
            v = self.expr(args[0], env, pre)
            if v.ty == VEC:
                return V(v.code, VEC)
            if v.ty in (K, RMAT) and v.lit is None:
                return v
            if v.ty == LVEC:
                return V(v.code, ROWS)
            if v.ty == ILIST:
                return v
            if v.ty == TUPLE and len(v.items) == 1 and v.items[0].ty in (K, ARG_SCALAR):
                return V("[%s]" % v.items[0].code, VEC)
            raise Unsupported("np.array of %s" % v.ty)
        if f == "np.split" and len(args) == 2 and not kw:
            a, b = self.expr(args[0], env, pre), self.expr(args[1], env, pre)
            if a.ty == VEC and b.ty == TUPLE and len(b.items) == 1 and b.items[0].ty == INT:
                k = self.as_int(b.items[0])
                return V(None, TUPLE, items=[V("(PyNL.sliceTo %s %s)" % (a.code, k), VEC),
                                             V("(PyNL.sliceFrom %s %s)" % (a.code, k), VEC)])
            raise Unsupported("np.split of %s" % a.ty)
        if f == "np.unique" and len(args) == 1 and not kw:
            v = self.expr(args[0], env, pre)
            if v.ty != ILIST:
                raise Unsupported("np.unique of %s" % v.ty)
            return V("(PyNL.unique %s)" % v.code, ILIST, attrs="npint")
        if f in ("min", "max") and len(args) == 1 and not kw:
            v = self.expr(args[0], env, pre)
            if v.ty != ILIST:
                raise Unsupported("%s of %s" % (f, v.ty))
            return self.bind(pre, "PyNL.%sInt %s" % (f, v.code), INT)
        if f == "range" and len(args) == 1 and not kw:
            v = self.expr(args[0], env, pre)
            return V("(PyArith.range (0 : Int) %s)" % self.as_int(v), ILIST)
        if f == "list" and len(args) == 1 and not kw:
            v = self.expr(args[0], env, pre)
            if v.ty == ILIST:
                return V(v.code, ILIST)
            raise Unsupported("list of %s" % v.ty)
        if f == "np.delete" and len(args) == 2 and not kw:
            a, b = self.expr(args[0], env, pre), self.expr(args[1], env, pre)
            if a.ty == ILIST and b.ty == ILIST:
                return self.bind(pre, "PyNL.deleteIdx %s %s" % (a.code, b.code), ILIST)
            raise Unsupported("np.delete of %s, %s" % (a.ty, b.ty))
        if f == "np.ones_like" and len(args) == 1 and not kw:
            v = self.expr(args[0], env, pre)
            if v.ty == VEC:
                return V("(PyNL.vones (%s.length : Int))" % v.code, VEC)
            raise Unsupported("np.ones_like of %s" % v.ty)
        if f == "np.outer" and len(args) == 2 and not kw:
            a, b = self.expr(args[0], env, pre), self.expr(args[1], env, pre)
            if b.ty != VEC or a.ty not in (K, VEC):
                raise Unsupported("np.outer of %s and %s" % (a.ty, b.ty))
            return V("(PyNL.outer %s %s)" % ("[%s]" % self.as_K(a) if a.ty == K else a.code, b.code), RMAT)
        if f == "np.vstack" and len(args) == 1 and not kw:
            v = self.expr(args[0], env, pre)
            if v.ty == LRMAT:
                return self.bind(pre, "PyNL.vstack %s" % v.code, RMAT)
            if v.ty == EMPTY:
                return self.bind(pre, "PyNL.vstack ([] : List (PyNL.RMat %s))" % self.F, RMAT)
            raise Unsupported("np.vstack of %s" % v.ty)
        if f == "np.transpose" and len(args) == 1 and not kw:
            v = self.expr(args[0], env, pre)
            if v.ty == ROWS:
                return self.bind(pre, "PyNL.transposeStack %s" % v.code, SIG)
            raise Unsupported("np.transpose of %s" % v.ty)
        if f in ("np.zeros", "np.ones") and len(args) == 1 and not kw:
            sh = self.shape_arg(args[0], env, pre)
            if len(sh) == 1:
                return V("(PyNL.%s %s)" % ("vzeros" if f == "np.zeros" else "vones", sh[0]), VEC)
            if f == "np.zeros":
                return V("(PyNL.CMat.zeros %s %s)" % (sh[0], sh[1]), CMAT)
        if f in ("np.hstack", "np.concatenate") and len(args) == 1 and \
                (not kw or (f == "np.concatenate" and set(kw) == {"axis"} and ast.unparse(kw["axis"]) == "0")):
            v = self.expr(args[0], env, pre)
            if v.ty == TUPLE and v.items and all(x.ty == VEC for x in v.items):
                return V("(" + " ++ ".join(x.code for x in v.items) + ")", VEC)
            raise Unsupported("%s of %s" % (f, v.ty))
        if isinstance(node.func, ast.Attribute):
            m = node.func.attr
            if m == "reshape" and len(args) == 1 and ast.unparse(args[0]) == "-1":
                v = self.expr(node.func.value, env, pre)
                if v.ty in (VEC, ARG_ARRAY):
                    return V(v.code, VEC)
                raise Unsupported("reshape(-1) of %s" % v.ty)
            if m in ("tolist", "copy") and not args:
                v = self.expr(node.func.value, env, pre)
                if v.ty in (VEC, DICT):
                    return v
                raise Unsupported("%s of %s" % (m, v.ty))
        raise Unsupported("call %s" % ast.unparse(node)[:70])

    # ---- statements ------------------------------------------------------------------------------
    def key_of(self, t):
        if isinstance(t, ast.Name):
            return t.id
        if isinstance(t, ast.Attribute) and isinstance(t.value, ast.Name):
            return t.value.id + "." + t.attr
        raise Unsupported("assignment target %s" % ast.unparse(t))

    def assigned(self, stmts):
        out = []

        def add(k):
            if k not in out:
                out.append(k)
        for s in stmts:
            for n in ast.walk(s):
                targets = []
                if isinstance(n, ast.Assign):
                    targets = n.targets
                elif isinstance(n, (ast.AugAssign, ast.AnnAssign)):
                    targets = [n.target]
                elif isinstance(n, ast.For):
                    targets = [n.target]
                elif isinstance(n, ast.Expr) and isinstance(n.value, ast.Call) and isinstance(n.value.func, ast.Attribute) \
                        and n.value.func.attr in ("append", "update"):
                    try:
                        add(self.key_of(n.value.func.value))
                    except Unsupported:
                        pass
                for t in targets:
                    for x in ([t] if not isinstance(t, ast.Tuple) else t.elts):
                        if isinstance(x, ast.Subscript):
                            x = x.value
                        try:
                            add(self.key_of(x))
                        except Unsupported:
                            pass
        return out

    def let(self, key, v, env):
        """bind python variable `key` to the value; returns lines"""
        ln = lean_name(key)
        if v.ty in (NONE, TRUE, FALSE, TUPLE, STR, OBJ, SYS, ARG_NONE):
            env[key] = v
            return []
        if v.ty == EMPTY:
            ety = self.empties.get(key)
            if ety is None:
                env[key] = V("[]", EMPTY)
                return []
            env[key] = V(ln, ety, attrs="pylist" if ety == VEC else None)
            return ["let %s : %s := []" % (ln, self.lty(ety))]
        code = v.code
        if v.lit is not None:
            code = "(%s : %s)" % (self.num_lit(v.lit), self.F if v.ty == K else "Int")
        env[key] = V(ln, v.ty, attrs=v.attrs)
        if code == ln:
            return []
        return ["let %s : %s := %s" % (ln, self.lty(v.ty), code)]

    def pack(self, names, env):
        vals = [env[n].code for n in names]
        return vals[0] if len(vals) == 1 else "(" + ", ".join(vals) + ")"

    def pack_ty(self, tys):
        return " × ".join(self.lty(t) for t in tys)

    def unpack(self, st, names, tys):
        if len(names) == 1:
            return []
        out, acc = [], st
        for k, (n, t) in enumerate(zip(names, tys)):
            last = (k == len(names) - 1)
            out.append("let %s : %s := %s" % (lean_name(n), self.lty(t), acc if last else acc + ".1"))
            acc = acc + ".2"
        return out

    def is_noop_call(self, s):
        if isinstance(s, ast.Expr) and isinstance(s.value, ast.Call):
            f = ast.unparse(s.value.func)
            if f in ("warn", "warnings.warn"):
                return True
        if isinstance(s, ast.Expr) and isinstance(s.value, ast.Constant) and isinstance(s.value.value, str):
            return True
        if isinstance(s, ast.Pass):
            return True
        if isinstance(s, ast.Assert) and isinstance(s.test, ast.Call) and ast.unparse(s.test.func) in ("ValueError", "TypeError"):
            # `assert ValueError(...)`: an exception OBJECT is true, the statement never raises
            return True
        return False

    def stmt_hook(self, s, env):
        """block-specific statements; returns lines or None"""
        return None

    def seq(self, stmts, env, tail):
        """-> (lines, ended).  `tail`: [(python var, kind)] returned when the block falls off its end"""
        lines = []
        for k, s in enumerate(stmts):
            rest = stmts[k + 1:]
            hooked = self.stmt_hook(s, env)
            if hooked is not None:
                lines += hooked
                continue
            if self.is_noop_call(s):
                continue
            if isinstance(s, ast.Return):
                pre = []
                v = self.expr(s.value, env, pre)
                lines += pre + ["pure %s" % self.ret_code(v)]
                return lines, True
            if isinstance(s, ast.Raise):
                lines.append("throw Err.%s" % classify_raise(s))
                return lines, True
            if isinstance(s, ast.Assign) and len(s.targets) == 1 and isinstance(s.targets[0], ast.Name) \
                    and isinstance(s.value, ast.BinOp) and isinstance(s.value.op, ast.Add) \
                    and isinstance(s.value.left, ast.Name) and s.value.left.id == s.targets[0].id \
                    and s.targets[0].id in env and (env[s.targets[0].id].ty == EMPTY or env[s.targets[0].id].attrs == "pylist"):
                # `xs = xs + ys` on a Python list is `xs += ys`
                s = ast.AugAssign(target=ast.Name(id=s.targets[0].id, ctx=ast.Store()), op=ast.Add(), value=s.value.right)
            if isinstance(s, ast.Assign) and len(s.targets) == 1:
                lines += self.assign(s.targets[0], s.value, env)
                continue
            if isinstance(s, ast.AugAssign) and isinstance(s.target, ast.Name):
                key = s.target.id
                cur = env.get(key)
                if cur is not None and isinstance(s.op, ast.Add) and (cur.ty == EMPTY or cur.attrs == "pylist"):
                    # `+=` on a Python list of floats: concatenation
                    pre = []
                    b = self.expr(s.value, env, pre)
                    if b.ty != VEC:
                        raise Unsupported("`+=` of %s on a list" % b.ty)
                    if cur.ty == EMPTY:
                        self.empties[key] = VEC
                        env[key] = V(lean_name(key), VEC, attrs="pylist")
                        lines += pre + ["let %s : %s := %s" % (lean_name(key), self.lty(VEC), b.code)]
                    else:
                        lines += pre + ["let %s : %s := %s ++ %s" % (cur.code, self.lty(VEC), cur.code, b.code)]
                    continue
                fake = ast.BinOp(left=ast.Name(id=key, ctx=ast.Load()), op=s.op, right=s.value)
                pre = []
                v = self.binop(fake, env, pre)
                lines += pre + self.let(key, v, env)
                continue
            if isinstance(s, ast.Expr) and isinstance(s.value, ast.Call) and isinstance(s.value.func, ast.Attribute):
                c = s.value
                m = c.func.attr
                if m == "append" and len(c.args) == 1:
                    key = self.key_of(c.func.value)
                    pre = []
                    v = self.expr(c.args[0], env, pre)
                    cur = env.get(key)
                    if cur is None:
                        raise Unsupported("append to unknown `%s`" % key)
                    if key in getattr(self, "rowblock_lists", ()):
                        if v.ty == VEC:
                            self.note("a 1-D array appended to a list that is given to np.vstack is stored as the one-row array vstack makes of it")
                            v = V("(PyNL.RMat.ofVec %s)" % v.code, RMAT)
                        if v.ty != RMAT:
                            raise Unsupported("append of %s to a list given to np.vstack" % v.ty)
                        if cur.ty == EMPTY:
                            self.empties[key] = LRMAT
                            env[key] = V(lean_name(key), LRMAT)
                            lines += pre + ["let %s : %s := [%s]" % (lean_name(key), self.lty(LRMAT), v.code)]
                            continue
                        if cur.ty == LRMAT:
                            lines += pre + ["let %s : %s := %s ++ [%s]" % (cur.code, self.lty(LRMAT), cur.code, v.code)]
                            continue
                    if cur.ty == EMPTY:
                        if v.ty != VEC:
                            raise Unsupported("append of %s" % v.ty)
                        self.empties[key] = LVEC
                        env[key] = V(lean_name(key), LVEC)
                        lines += pre + ["let %s : %s := [%s]" % (lean_name(key), self.lty(LVEC), v.code)]
                        continue
                    if cur.ty == LVEC and v.ty == VEC:
                        lines += pre + ["let %s : %s := %s ++ [%s]" % (cur.code, self.lty(LVEC), cur.code, v.code)]
                        continue
                    raise Unsupported("append of %s to %s" % (v.ty, cur.ty))
                if m == "update" and len(c.args) == 1:
                    key = self.key_of(c.func.value)
                    pre = []
                    v = self.expr(c.args[0], env, pre)
                    cur = env.get(key)
                    if cur is None or cur.ty != DICT:
                        raise Unsupported("update of `%s`" % key)
                    if v.ty == DICT:
                        lines += pre + ["let %s : %s := PyNL.Dict.update %s %s" % (cur.code, self.lty(DICT), cur.code, v.code)]
                        continue
                    if v.ty == OPTDICT:
                        lines += pre + ["let %s : %s := PyNL.Dict.updateOpt %s %s" % (cur.code, self.lty(DICT), cur.code, v.code)]
                        continue
                    raise Unsupported("update with %s" % v.ty)
            if isinstance(s, ast.For):
                lines += self.for_stmt(s, env)
                continue
            if isinstance(s, ast.If):
                ls, ended = self.if_stmt(s, rest, env, tail)
                lines += ls
                if ended:
                    return lines, True
                continue
            raise Unsupported("statement %s" % ast.unparse(s).split("\n")[0][:70])
        if tail is not None:
            lines.append("pure %s" % self.pack([n for n, _ in tail], env))
            for n, t in tail:
                if env[n].ty != t and not ({env[n].ty, t} <= {LVEC, SIG}):
                    raise Unsupported("`%s` is a %s at the end of the block (expected %s)" % (n, env[n].ty, t))
        return lines, False

    def ret_code(self, v):
        if v.ty == TUPLE:
            return "(" + ", ".join(self.ret_code(x) for x in v.items) + ")"
        if v.ty == NONE:
            return "none"
        if v.lit is not None:
            return "(%s : %s)" % (self.num_lit(v.lit), self.F if v.ty == K else "Int")
        if getattr(self, "ret_some", False) and v.ty == VEC:
            return "(some %s)" % v.code
        return v.code

    def assign(self, target, value, env):
        pre = []
        if isinstance(target, ast.Tuple):
            if isinstance(value, ast.Tuple) and len(value.elts) == len(target.elts):
                vals = [self.expr(e, env, pre) for e in value.elts]
                lines = list(pre)
                for t, v in zip(target.elts, vals):
                    lines += self.let(self.key_of(t), v, env)
                return lines
            v = self.expr(value, env, pre)
            if v.ty == TUPLE and len(v.items) == len(target.elts):
                lines = list(pre)
                for t, x in zip(target.elts, v.items):
                    lines += self.let(self.key_of(t), x, env)
                return lines
            raise Unsupported("tuple assignment from %s" % ast.unparse(value)[:50])
        if isinstance(target, ast.Subscript):
            key = self.key_of(target.value)
            cur = env.get(key)
            if cur is None:
                raise Unsupported("item assignment to unknown `%s`" % key)
            v = self.expr(value, env, pre)
            sl = target.slice
            if cur.ty == CMAT and isinstance(sl, ast.Tuple) and len(sl.elts) == 2 and isinstance(sl.elts[0], ast.Slice) \
                    and sl.elts[0].lower is None and sl.elts[0].upper is None and sl.elts[0].step is None:
                i = self.expr(sl.elts[1], env, pre)
                if v.ty != VEC:
                    raise Unsupported("column assignment of %s" % v.ty)
                return pre + ["let %s ← PyNL.CMat.setCol %s %s %s" % (cur.code, cur.code, self.as_int(i), v.code)]
            if cur.ty == VEC and not isinstance(sl, (ast.Slice, ast.Tuple)):
                i = self.expr(sl, env, pre)
                if i.ty == INT:
                    return pre + ["let %s ← PyArith.setItem %s %s %s" % (cur.code, cur.code, self.as_int(i), self.as_K(v))]
                if i.ty == ILIST and v.ty == VEC:
                    return pre + ["let %s ← PyNL.scatter %s %s %s" % (cur.code, cur.code, i.code, v.code)]
            raise Unsupported("item assignment %s" % ast.unparse(target)[:50])
        key = self.key_of(target)
        v = self.expr(value, env, pre)
        return pre + self.let(key, v, env)

    def carried(self, body, env):
        return [(n, env[n].ty) for n in self.assigned(body) if n in env and env[n].ty not in (TUPLE, NONE, TRUE, FALSE, STR, OBJ, SYS)]

    def for_stmt(self, s, env):
        if s.orelse:
            raise Unsupported("for ... else")
        it = s.iter
        pre = []
        target = s.target
        if isinstance(it, ast.Call) and ast.unparse(it.func) == "enumerate" and len(it.args) == 1 \
                and isinstance(target, ast.Tuple) and len(target.elts) == 2:
            idx = target.elts[0].id
            used = any(isinstance(n, ast.Name) and n.id == idx and isinstance(n.ctx, ast.Load)
                       for b in s.body for n in ast.walk(b))
            if used:
                # the index may only be used in the message of a raise
                for b in s.body:
                    for n in ast.walk(b):
                        if isinstance(n, ast.Raise):
                            for m in ast.walk(n):
                                if isinstance(m, ast.Name) and m.id == idx:
                                    m.id = "__msg_index__"
                used = any(isinstance(n, ast.Name) and n.id == idx and isinstance(n.ctx, ast.Load)
                           for b in s.body for n in ast.walk(b))
            if used:
                raise Unsupported("the index of enumerate is used")
            it, target = it.args[0], target.elts[1]
        if not isinstance(target, ast.Name):
            raise Unsupported("for target")
        var = target.id
        if isinstance(it, ast.Call) and ast.unparse(it.func) == "range" and 1 <= len(it.args) <= 2 and not it.keywords:
            bounds = [self.expr(a, env, pre) for a in it.args]
            if len(bounds) == 1:
                bounds = [V("(0 : Int)", INT, lit=0)] + bounds
            xs = "(PyArith.range %s %s)" % (self.as_int(bounds[0]), self.as_int(bounds[1]))
            vty = INT
        else:
            v = self.expr(it, env, pre)
            elem = {VEC: K, LVEC: VEC, SIG: None, ILIST: INT, ARG_LIST: VEC, OBJLIST: OBJ, ULIST: UELEM,
                    DICTLIST: SUBSYS}.get(v.ty)
            if elem is None:
                raise Unsupported("for over %s" % v.ty)
            xs, vty = v.code, elem
        return pre + self.fold(var, vty, xs, s.body, env)

    def fold(self, var, vty, xs, body, env):
        st = [(n, t) for n, t in self.carried(body, env) if n != var]
        if not st:
            raise Unsupported("a loop without effect")
        # a canonical order of the state: first the results of the block in the order they are returned
        hint = list(self.order_hint)
        st = sorted(st, key=lambda nt: (hint.index(nt[0]) if nt[0] in hint else len(hint)))
        if any(t == EMPTY for _, t in st):
            # first pass: find out what is appended
            for pty in ([K, VEC, RMAT] if vty == UELEM else [vty]):
                probe_env = dict(env)
                probe_env[var] = V(lean_name(var), pty)
                try:
                    Tr.seq(self, list(body), probe_env, None)
                except Unsupported:
                    pass
            for n, t in st:
                if t == EMPTY and n in self.empties:
                    raise _Retry()
            raise Unsupported("a list of undetermined kind carried through a loop")
        names, tys = [n for n, _ in st], [t for _, t in st]
        benv = dict(env)
        benv[var] = V(lean_name(var), vty)
        for n, t in st:
            benv[n] = V(lean_name(n), t, attrs=env[n].attrs)
        state = lean_name(names[0]) if len(st) == 1 else self.tmp()
        if vty == UELEM:
            # the body once per kind of element
            bl = ["match %s with" % lean_name(var)]
            for arm, mk in (("| .scalar %s_c =>", lambda: V(lean_name(var) + "_c", K)),
                            ("| .vec %s_v =>", lambda: V(lean_name(var) + "_v", VEC)),
                            ("| .mat %s_m =>", lambda: V(lean_name(var) + "_m", RMAT))):
                aenv = dict(benv)
                aenv[var] = mk()
                al, ended = self.seq(list(body), aenv, st)
                if not al or not (al[-1].startswith("pure") or al[-1].startswith("throw") or ended):
                    raise Unsupported("loop body per element kind")
                bl += [(arm % lean_name(var)) + " do"] + _ind(al)
        else:
            bl, ended = self.seq(list(body), benv, st)
            if ended:
                raise Unsupported("return / raise at the end of a loop body")
        bodyl = self.unpack(state, names, tys) + bl
        pat = lean_name(names[0]) if len(st) == 1 else "(" + ", ".join(lean_name(n) for n in names) + ")"
        lines = ["let %s ← List.foldlM (fun (%s : %s) (%s : %s) => (do" % (pat, state, self.pack_ty(tys), lean_name(var), self.lty(vty))] \
            + _ind(bodyl, 4) + ["    : Except Err (%s))) %s %s" % (self.pack_ty(tys), self.pack(names, env), xs)]
        for n, t in st:
            env[n] = V(lean_name(n), t, attrs=env[n].attrs)
        return lines

    def option_if(self, s, rest, env, tail, name, some_first):
        cur = env[name]
        inner = {OPTVEC: VEC, OPTILIST: ILIST}[cur.ty]
        b_some = list(s.body if some_first else s.orelse)
        b_none = list(s.orelse if some_first else s.body)
        e1, e2 = dict(env), dict(env)
        e1[name] = V(cur.code, inner)
        e2[name] = V(None, NONE)
        l1, d1 = self.seq(b_some, e1, None)
        l2, d2 = self.seq(b_none, e2, None)
        head = "match %s with" % cur.code
        if d1 or d2:
            if not d1:
                r, _ = self.seq(list(rest), e1, tail)
                l1 = l1 + r
            if not d2:
                r, _ = self.seq(list(rest), e2, tail)
                l2 = l2 + r
            return [head, "| some %s => do" % cur.code] + _ind(l1) + ["| none => do"] + _ind(l2), True
        names = self.assigned(b_some + b_none)
        if name not in names:
            names = names + [name] if False else names
        joined = []
        for n in names:
            a, b = e1.get(n), e2.get(n)
            if a is None or b is None:
                if self.live_after(n, rest, tail):
                    raise Unsupported("`%s` is bound in one branch only" % n)
                continue
            if a.ty == EMPTY and b.ty in (ILIST, VEC, LVEC):
                a = V("[]", b.ty)
                e1[n] = a
            if b.ty == EMPTY and a.ty in (ILIST, VEC, LVEC):
                b = V("[]", a.ty)
                e2[n] = b
            if a.ty != b.ty:
                raise Unsupported("`%s` is %s in one branch and %s in the other" % (n, a.ty, b.ty))
            if a.ty in (TUPLE, NONE, TRUE, FALSE, STR, OBJ, SYS):
                continue
            joined.append((n, a.ty))
        if not joined:
            raise Unsupported("an `if` on an optional value with nothing to hand on")
        pat = lean_name(joined[0][0]) if len(joined) == 1 else "(" + ", ".join(lean_name(n) for n, _ in joined) + ")"
        p1 = self.pack([n for n, _ in joined], e1)
        p2 = self.pack([n for n, _ in joined], e2)
        sty = self.pack_ty([t for _, t in joined])
        lines = ["let %s ← (match %s with" % (pat, cur.code), "  | some %s => (do" % cur.code] + _ind(l1 + ["pure %s" % p1], 6) \
            + ["      : Except Err (%s))" % sty, "  | none => (do"] + _ind(l2 + ["pure %s" % p2], 6) + ["      : Except Err (%s)))" % sty]
        for n, t in joined:
            env[n] = V(lean_name(n), t, attrs=e1[n].attrs)
        return lines, False

    def if_stmt(self, s, rest, env, tail):
        opt = self.option_test(s.test, env)
        if opt is not None:
            return self.option_if(s, rest, env, tail, opt[0], opt[1])
        pre = []
        st, cond = self.test_or_do(s.test, env, pre)
        if st is not None:
            branch = list(s.body if st else s.orelse)
            ls, ended = self.seq(branch, env, None)
            return pre + ls, ended
        # does a branch end (return / raise)?
        def ends(b):
            return bool(b) and isinstance(b[-1], (ast.Return, ast.Raise))
        def only_noop(b):
            return all(self.is_noop_call(x) for x in b)
        if only_noop(s.body) and only_noop(s.orelse):
            # the test is evaluated for its effects only
            return pre, False
        def raise_only(b):
            return len(b) == 1 and isinstance(b[0], ast.Raise)
        if raise_only(s.body):
            # a guard: the other branch goes on
            l2, d2 = self.seq(list(s.orelse), env, None)
            return pre + ["if %s then" % cond, "  throw Err.%s" % classify_raise(s.body[0])] + l2, d2
        if raise_only(s.orelse):
            l1, d1 = self.seq(list(s.body), env, None)
            return pre + ["if ¬ (%s) then" % cond, "  throw Err.%s" % classify_raise(s.orelse[0])] + l1, d1
        if ends(s.body) or ends(s.orelse) or self.deep_ends(s.body) or self.deep_ends(s.orelse):
            e1, e2 = dict(env), dict(env)
            l1, d1 = self.seq(list(s.body), e1, None)
            l2, d2 = self.seq(list(s.orelse), e2, None)
            if d1 and isinstance(s.body[-1], ast.Raise) and len(s.body) == 1 and not s.orelse:
                return pre + ["if %s then" % cond] + _ind(l1), False
            if d1 and not d2:
                r, dr = self.seq(list(rest), e2, tail)
                return pre + ["if %s then" % cond] + _ind(l1) + ["else"] + _ind(l2 + r or ["pure ()"]), True
            if d2 and not d1:
                r, dr = self.seq(list(rest), e1, tail)
                return pre + ["if %s then" % cond] + _ind(l1 + r) + ["else"] + _ind(l2), True
            if d1 and d2:
                return pre + ["if %s then" % cond] + _ind(l1) + ["else"] + _ind(l2), True
            raise Unsupported("an `if` one of whose inner branches ends")
        # join
        names = [n for n in self.assigned(list(s.body) + list(s.orelse))]
        e1, e2 = dict(env), dict(env)
        l1, _ = self.seq(list(s.body), e1, None)
        l2, _ = self.seq(list(s.orelse), e2, None)
        mismatch = any(e1.get(n) is not None and e2.get(n) is not None and e1[n].ty != e2[n].ty
                       and self.live_after(n, rest, tail) for n in names)
        if mismatch:
            # a variable has different kinds in the two branches: the rest of the block is translated in both
            e1, e2 = dict(env), dict(env)
            l1, d1 = self.seq(list(s.body) + list(rest), e1, tail)
            l2, d2 = self.seq(list(s.orelse) + list(rest), e2, tail)
            return pre + ["if %s then" % cond] + _ind(l1) + ["else"] + _ind(l2), True
        joined = []
        for n in names:
            a, b = e1.get(n), e2.get(n)
            if a is None or b is None:
                if self.live_after(n, rest, tail):
                    raise Unsupported("`%s` is bound in one branch only" % n)
                continue
            if a.ty != b.ty:
                if {a.ty, b.ty} <= {VEC, OPTVEC, NONE}:
                    raise Unsupported("`%s` is %s in one branch and %s in the other" % (n, a.ty, b.ty))
                raise Unsupported("`%s` is %s in one branch and %s in the other" % (n, a.ty, b.ty))
            if a.ty in (TUPLE, NONE, TRUE, FALSE, STR, OBJ, SYS):
                continue
            joined.append((n, a.ty))
        if not joined:
            if not l1 and not l2:
                return pre, False
            raise Unsupported("an `if` with effects but nothing to hand on")
        pat = lean_name(joined[0][0]) if len(joined) == 1 else "(" + ", ".join(lean_name(n) for n, _ in joined) + ")"
        p1 = self.pack([n for n, _ in joined], e1)
        p2 = self.pack([n for n, _ in joined], e2)
        sty = self.pack_ty([t for _, t in joined])
        lines = pre + ["let %s ← (if %s then (do" % (pat, cond)] + _ind(l1 + ["pure %s" % p1], 4) \
            + ["    : Except Err (%s)) else (do" % sty] + _ind(l2 + ["pure %s" % p2], 4) + ["    : Except Err (%s)))" % sty]
        for n, t in joined:
            env[n] = V(lean_name(n), t, attrs=e1[n].attrs)
        return lines, False

    def deep_ends(self, body):
        return False

    def live_after(self, n, rest, tail):
        if tail and any(n == x for x, _ in tail):
            return True
        for s in rest:
            for x in ast.walk(s):
                if isinstance(x, ast.Name) and x.id == n and isinstance(x.ctx, ast.Load):
                    return True
        return False


class _Retry(Exception):
    pass


class _NeedDo(Unsupported):
    """a test whose later operands have effects: translated by `bool_do`"""
    def __init__(self):
        Unsupported.__init__(self, "an operand with effects after a dynamic operand of and/or")


def run_block(make, stmts, env_fn, tail):
    """translate with a second pass when the kind of an empty list was found out on the way"""
    empties = {}
    for _ in range(4):
        tr = make(empties)
        env = env_fn()
        try:
            lines, ended = tr.seq(list(stmts), env, tail)
            return tr, lines, ended, env
        except _Retry:
            continue
    raise Unsupported("kinds of the lists could not be determined")


# -------------------------------------------------------------------------------------------------
# locating the blocks
# -------------------------------------------------------------------------------------------------
def find_function(module, name, cls=None):
    body = module.body
    if cls is not None:
        cs = [n for n in body if isinstance(n, ast.ClassDef) and n.name == cls]
        if len(cs) != 1:
            raise Unsupported("class %s found %d times" % (cls, len(cs)))
        body = cs[0].body
    fs = [n for n in body if isinstance(n, ast.FunctionDef) and n.name == name]
    if len(fs) != 1:
        raise Unsupported("function %s found %d times" % (name, len(fs)))
    return fs[0]


def seg(src, stmts):
    return "\n".join(ast.get_source_segment(src, s) or ast.unparse(s) for s in stmts)


def once(xs, what):
    xs = list(xs)
    if len(xs) != 1:
        raise Unsupported("%s found %d times (expected exactly once)" % (what, len(xs)))
    return xs[0]


def calls_in(node, fname):
    return [n for n in ast.walk(node) if isinstance(n, ast.Call) and ast.unparse(n.func) == fname]


def blocks_of(fn):
    """all statement lists inside fn (bodies of if / for / else ...), not entering nested functions"""
    out = []

    def visit(stmts):
        out.append(stmts)
        for s in stmts:
            if isinstance(s, (ast.FunctionDef, ast.ClassDef)):
                continue
            for field in ("body", "orelse", "finalbody"):
                sub = getattr(s, field, None)
                if isinstance(sub, list) and sub and isinstance(sub[0], ast.stmt):
                    visit(sub)
    visit(fn.body)
    return out


def sys_value(name, sysdt=None):
    attrs = {"_rhs": V("rhs", FUN3), "_out": V("out", FUN3)}
    if sysdt is not None:
        attrs["dt"] = sysdt
    return V(None, SYS, attrs=attrs)


class SysTr(Tr):
    """a block in which `sysname._rhs / ._out` are the two function parameters"""

    def __init__(self, F, sysname, sysdt=None, funcs=None, empties=None, noop_methods=("_update_params",)):
        Tr.__init__(self, F, funcs, empties)
        self.sysname = sysname
        self.sysdt = sysdt
        self.noop_methods = noop_methods

    def call(self, node, env, pre):
        f = node.func
        if isinstance(f, ast.Attribute) and isinstance(f.value, ast.Name) and f.value.id == self.sysname \
                and f.attr in ("_rhs", "_out"):
            fn = V("rhs" if f.attr == "_rhs" else "out", FUN3)
            env2 = dict(env)
            env2["__f__"] = fn
            fake = ast.Call(func=ast.Name(id="__f__", ctx=ast.Load()), args=node.args, keywords=node.keywords)
            return Tr.call(self, fake, env2, pre)
        return Tr.call(self, node, env, pre)

    def stmt_hook(self, s, env):
        if isinstance(s, ast.Expr) and isinstance(s.value, ast.Call) and isinstance(s.value.func, ast.Attribute) \
                and isinstance(s.value.func.value, ast.Name) and s.value.func.value.id == self.sysname \
                and s.value.func.attr in self.noop_methods:
            self.note("`%s.%s(...)` only passes the parameters on (the update / output functions are parameters)"
                      % (self.sysname, s.value.func.attr))
            return []
        return None


# ---- input_output_response -----------------------------------------------------------------------
def job_ufun(src, module):
    fn = find_function(module, "input_output_response")
    nested = [n for n in ast.walk(fn) if isinstance(n, ast.FunctionDef) and n is not fn and calls_in(n, "np.searchsorted")]
    uf = once(nested, "a nested function calling np.searchsorted")
    if len(uf.args.args) != 1 or uf.args.defaults or uf.args.kwonlyargs or uf.args.vararg or uf.args.kwarg:
        raise Unsupported("signature of the input function")
    tname = uf.args.args[0].arg
    ss = once(calls_in(uf, "np.searchsorted"), "np.searchsorted in the input function")
    if not (ss.args and isinstance(ss.args[0], ast.Name)):
        raise Unsupported("first argument of np.searchsorted")
    Tn = ss.args[0].id
    us = {n.value.id for n in ast.walk(uf) if isinstance(n, ast.Subscript) and isinstance(n.value, ast.Name)
          and isinstance(n.slice, ast.Tuple) and n.value.id != Tn}
    Un = once(us, "the array indexed by its last axis in the input function")
    stores = {n.id for n in ast.walk(uf) if isinstance(n, ast.Name) and isinstance(n.ctx, ast.Store)}
    if {Tn, Un, tname} & stores:
        raise Unsupported("the input function re-binds its time vector / input array / argument")
    tr = Tr("K")
    env = {Tn: V("T", VEC), Un: V("U", SIG), tname: V(lean_name(tname) if lean_name(tname) not in ("T", "U") else "t_py", K)}
    lines, ended = tr.seq(list(uf.body), env, None)
    if not ended:
        raise Unsupported("the input function does not return")
    sig = "(T : List K) (U : List (List K)) (%s : K)" % env[tname].code
    return dict(lines=lines, text=seg(src, [uf]), notes=tr.notes, sig=sig, ret="List K", info={"ufun": uf.name, "T": Tn, "U": Un})


def disc_branch(fn):
    """the body of `elif isdtime(sys):` - the branch that contains the loop with `x = sys._rhs(...)`"""
    cands = []
    for b in blocks_of(fn):
        for s in b:
            if isinstance(s, ast.For) and any(
                    isinstance(a, ast.Assign) and isinstance(a.value, ast.Call) and isinstance(a.value.func, ast.Attribute)
                    and a.value.func.attr == "_rhs" for a in s.body):
                cands.append((b, s))
    b, loop = once(cands, "the loop that assigns `<sys>._rhs(...)`")
    rhs_call = [a for a in loop.body if isinstance(a, ast.Assign) and isinstance(a.value, ast.Call)
                and isinstance(a.value.func, ast.Attribute) and a.value.func.attr == "_rhs"][0]
    sysname = rhs_call.value.func.value.id if isinstance(rhs_call.value.func.value, ast.Name) else None
    if sysname is None:
        raise Unsupported("the system of the loop is not a name")
    cut = [k for k, s in enumerate(b) if isinstance(s, ast.Assign) and isinstance(s.value, ast.Call)
           and ast.unparse(s.value.func).endswith("OptimizeResult")]
    k = once(cut, "`soln = ...OptimizeResult()` in the discrete-time branch")
    if not (b.index(loop) > k):
        raise Unsupported("the loop precedes the creation of the solution object")
    return b, k, loop, sysname, b[k].targets[0].id


def final_return(fn):
    rets = [s for s in fn.body if isinstance(s, ast.Return) and isinstance(s.value, ast.Call)
            and ast.unparse(s.value.func) == "TimeResponseData"]
    r = once(rets, "the final `return TimeResponseData(...)`")
    if len(r.value.args) < 4:
        raise Unsupported("the final return has fewer than four positional arguments")
    return r.value.args[:4]


def job_disc_loop(src, module, ufun_name, Tn):
    fn = find_function(module, "input_output_response")
    b, k, loop, sysname, soln = disc_branch(fn)
    stmts = b[k + 1:]
    rets = final_return(fn)
    keys = []
    for a in rets:
        if isinstance(a, ast.Name):
            keys.append(a.id)
        elif isinstance(a, ast.Attribute) and isinstance(a.value, ast.Name):
            keys.append(a.value.id + "." + a.attr)
        else:
            raise Unsupported("argument %s of the final return" % ast.unparse(a))
    # names: the evaluation times and the initial state are the free array variables of the block
    loads = []
    for s in stmts:
        for n in ast.walk(s):
            if isinstance(n, ast.Name) and isinstance(n.ctx, ast.Load) and n.id not in loads:
                loads.append(n.id)
    if not isinstance(loop.iter, ast.Name):
        raise Unsupported("the loop does not run over a named time vector")
    te = loop.iter.id
    tr0 = Tr("K")
    assigned = tr0.assigned(stmts)
    free = [n for n in loads if n not in assigned and n not in (te, sysname, ufun_name, soln, "np", "sp", "True", "None")]
    X0 = once(free, "the free variable of the discrete-time block besides the times (the initial state); found %s" % free)

    def env_fn():
        return {te: V("t_eval", VEC), X0: V("X0", VEC), ufun_name: V("ufun", UFUN), sysname: sys_value(sysname),
                soln: V(None, OBJ)}

    tail = [(keys[0], VEC), (keys[1], SIG), (keys[2], SIG), (keys[3], SIG)]
    def make(e):
        t = SysTr("K", sysname, empties=e)
        t.order_hint = keys
        return t

    tr, lines, ended, env = run_block(make, stmts, env_fn, tail)
    if ended:
        raise Unsupported("the discrete-time block ends early")
    sig = ("(rhs out : K → List K → List K → Except Err (List K)) (ufun : K → Except Err (List K))\n"
           "    (t_eval : List K) (X0 : List K)")
    notes = tr.notes + ["returns (%s)" % ", ".join(keys)]
    return dict(lines=lines, text=seg(src, stmts) + "\nreturn " + ", ".join(keys), notes=notes, sig=sig,
                ret="List K × List (List K) × List (List K) × List (List K)", info={"t_eval": te, "X0": X0, "sys": sysname})


def job_disc_grid(src, module):
    fn = find_function(module, "input_output_response")
    b, k, loop, sysname, soln = disc_branch(fn)
    stmts = b[:k]
    te = loop.iter.id
    arms = []
    notes = []
    for arm, dtv in (("| .disc h =>", V("h", K)), ("| .dtrue =>", V("true", TRUE))):
        tr = SysTr("ℚ", sysname)
        env = {te: V("t_eval", VEC), sysname: sys_value(sysname, dtv)}
        outs = [n for n in tr.assigned(stmts) if n != te]
        probe = SysTr("ℚ", sysname)
        penv = dict(env)
        probe.seq(list(stmts), penv, None)
        tail = [(n, penv[n].ty) for n in outs if n in penv and penv[n].ty == K]
        if len(tail) != 1:
            raise Unsupported("the grid block hands on %s (expected the step)" % [n for n, _ in tail])
        lines, ended = tr.seq(list(stmts), env, tail)
        if ended:
            raise Unsupported("the grid block always raises")
        arms += [arm + " do"] + _ind(lines)
        notes = tr.notes + ["returns %s" % tail[0][0]]
    arms += ["| _ => throw Err.notImplemented   -- not reached: the branch is taken for dt = True / dt > 0 only"]
    notes.append("`%s is None` is False (the evaluation times are an array here; `np.arange` default not translated)" % te)
    return dict(lines=["match sysdt with"] + arms, text=seg(src, stmts), notes=notes,
                sig="(sysdt : Dt) (t_eval : List ℚ)", ret="ℚ", info={}, raw=True)


JOBS = []


def regenerate(repo, lean_dir, only=None):
    """Rewrite Generated/NL*.lean; returns (list of problems, info dict)."""
    problems, info = [], {}
    gen_dir = os.path.join(lean_dir, "CtrlVerif", "Generated")
    os.makedirs(gen_dir, exist_ok=True)
    path = os.path.join(repo, REL)
    src = module = None
    load_error = None
    try:
        src = open(path).read()
        module = ast.parse(src)
    except (OSError, SyntaxError) as e:
        load_error = str(e)
    shared = {}
    for job in JOBS:
        where = "%s[%s]" % (REL, job["name"])
        try:
            if load_error:
                raise Unsupported(load_error)
            r = job["run"](src, module, shared)
            sha = hashlib.sha256(r["text"].encode()).hexdigest()
            info[job["name"]] = {"sha": sha, "lines": len(r["text"].split("\n")), "notes": r["notes"]}
            body = r["lines"] if r.get("raw") else ["do"] + _ind(r["lines"])
            doc = ("/-- block `%s` of `%s` as the source text says it (sha256 of the text of the translated\n"
                   "statements %s).%s -/\n" % (job["name"], REL, sha,
                                              "".join("\n  note: " + n.replace("-/", "- /") for n in r["notes"])))
            lean = "\n".join(r.get("predefs", [])) + ("\n" if r.get("predefs") else "") \
                + doc + "def %s %s :\n    %s :=\n" % (job["name"], r.get("sig", job["sig"]), job["ret"]) \
                + "\n".join(_ind(body)) + "\n"
            head = "%s %s" % (job["name"], sha[:16])
        except Unsupported as e:
            msg = str(e).replace("\n", " ").replace("-/", "- /")[:300]
            problems.append("py2lean_nl: %s cannot be translated: %s" % (where, msg))
            lean = "\n".join(job.get("fail_predefs", [])) + ("\n" if job.get("fail_predefs") else "") \
                + ("/-- translation of `%s` FAILED: %s -/\ndef %s %s :\n    %s :=\n  %s\n"
                   % (where, msg, job["name"], job["sig"], job["ret"], job["fail"]))
            head = "%s FAILED" % job["name"]
        if only and job["out"] not in only:
            continue
        text_out = ("-- GENERATED on every run by harness/core/py2lean_nl.py from %s (%s).  Do not edit.\n" % (REL, head)
                    + "import CtrlVerif.Model.PyNL\n" + "".join("import %s\n" % m for m in job.get("imports", []))
                    + "\nnamespace CtrlVerif.Generated\n\nopen CtrlVerif\n\n"
                    + job.get("variables", "") + lean + "\nend CtrlVerif.Generated\n")
        p = os.path.join(gen_dir, job["out"])
        old = open(p).read() if os.path.exists(p) else None
        if old != text_out:
            with open(p, "w") as f:
                f.write(text_out)
    return problems, info


VARS_ORD = "variable {K : Type} [Field K] [LinearOrder K]\n\n"
VARS_FIELD = "variable {K : Type} [Field K] [DecidableEq K]\n\n"
FAIL = ".error Err.notImplemented"


def _run_ufun(src, module, shared):
    r = job_ufun(src, module)
    shared["ufun"] = r["info"]
    return r


def _run_loop(src, module, shared):
    if "ufun" not in shared:
        shared["ufun"] = job_ufun(src, module)["info"]
    return job_disc_loop(src, module, shared["ufun"]["ufun"], shared["ufun"]["T"])


JOBS += [
    dict(name="nlUfun", out="NLUfun.lean", run=_run_ufun, variables=VARS_ORD,
         sig="(T : List K) (U : List (List K)) (t : K)", ret="Except Err (List K)", fail=FAIL),
    dict(name="nlDiscLoop", out="NLDiscLoop.lean", run=_run_loop, variables=VARS_FIELD,
         sig=("(rhs out : K → List K → List K → Except Err (List K)) (ufun : K → Except Err (List K))\n"
              "    (t_eval : List K) (X0 : List K)"),
         ret="Except Err (List K × List (List K) × List (List K) × List (List K))", fail=FAIL),
    dict(name="nlDiscGrid", out="NLDiscGrid.lean", run=lambda s, m, sh: job_disc_grid(s, m),
         sig="(sysdt : Dt) (t_eval : List ℚ)", ret="Except Err ℚ", fail=FAIL),
]


# ---- _process_vector_argument / _find_size ----------------------------------------------------------
ARG_ARMS = [("| .list arg_parts =>", lambda: V("arg_parts", ARG_LIST)), ("| .scalar arg_c =>", lambda: V("arg_c", K)),
            ("| .array arg_v =>", lambda: V("arg_v", VEC)), ("| .none =>", lambda: V(None, NONE))]


def simple_params(fn, n):
    a = fn.args
    if len(a.args) != n or a.vararg or a.kwarg or a.kwonlyargs:
        raise Unsupported("signature of %s" % fn.name)
    return [x.arg for x in a.args]


def job_find_size(src, module):
    fn = find_function(module, "_find_size")
    sysval, vecval, name = simple_params(fn, 3)
    out = []
    notes = []
    for suffix, mk, sig in (("Vec", lambda: V("vecval", VEC), "(sysval : Int) (vecval : List K)"),
                            ("None", lambda: V(None, NONE), "(sysval : Int)")):
        tr = Tr("K")
        env = {sysval: V("sysval", INT), vecval: mk(), name: V("''", STR, lit="")}
        lines, ended = tr.seq(list(fn.body), env, None)
        if not ended:
            raise Unsupported("_find_size does not return")
        out.append(("nlFindSize" + suffix, sig, lines))
        notes += tr.notes
    notes.append("the size of the system (`sysval`) is known (an int, not None)")
    return out, seg(src, [fn]), notes


def job_process_vector(src, module, shared):
    fs_defs, fs_text, fs_notes = job_find_size(src, module)
    fn = find_function(module, "_process_vector_argument")
    arg, name, size = simple_params(fn, 3)

    def find_size_call(tr, node, env, pre):
        if len(node.args) != 3 or node.keywords:
            raise Unsupported("call of _find_size")
        sv = tr.expr(node.args[0], env, pre)
        vv = tr.expr(node.args[1], env, pre)
        if vv.ty == VEC:
            return tr.bind(pre, "nlFindSizeVec %s %s" % (tr.as_int(sv), vv.code), INT)
        if vv.ty == NONE:
            return tr.bind(pre, "nlFindSizeNone %s" % tr.as_int(sv), INT)
        raise Unsupported("_find_size of a %s" % vv.ty)

    arms, notes = [], []
    for arm, mk in ARG_ARMS:
        def make(e):
            t = Tr("K", funcs={"_find_size": find_size_call}, empties=e)
            t.ret_some = True
            return t
        tr, lines, ended, env = run_block(make, fn.body, lambda: {arg: mk(), name: V("''", STR, lit=""), size: V("size", INT)}, None)
        if not ended:
            raise Unsupported("_process_vector_argument does not return")
        arms += [arm + " do"] + _ind(lines)
        notes += [n for n in tr.notes if n not in notes]
    notes.append("the size of the system (`size`) is known (an int, not None); `warn(...)` has no effect")
    pre = []
    for nm, sig, lines in fs_defs:
        pre += ["def %s %s : Except Err Int :=" % (nm, sig), "  do"] + _ind(lines, 4) + [""]
    return dict(lines=["match arg with"] + arms, text=seg(src, [fn]) + "\n" + fs_text, notes=notes + fs_notes, raw=True,
                predefs=pre, info={})


JOBS += [
    dict(name="nlProcessVector", out="NLProcessVector.lean", run=job_process_vector, variables=VARS_FIELD,
         sig="(arg : PyNL.Arg K) (size : Int)", ret="Except Err (Option (List K) × Int)", fail=FAIL,
         fail_predefs=["def nlFindSizeVec (sysval : Int) (vecval : List K) : Except Err Int := .error Err.notImplemented", "",
                       "def nlFindSizeNone (sysval : Int) : Except Err Int := .error Err.notImplemented", ""]),
]


# ---- broadcasting of mixed input lists ---------------------------------------------------------------
def job_broadcast(src, module, shared):
    fn = find_function(module, "input_output_response")
    cands = []
    for b in blocks_of(fn):
        for s in b:
            if isinstance(s, ast.For) and calls_in(s, "np.outer"):
                cands.append((b, s))
    b, loop = once(cands, "the loop that broadcasts with np.outer")
    it = loop.iter
    if isinstance(it, ast.Call) and ast.unparse(it.func) == "enumerate" and len(it.args) == 1:
        it = it.args[0]
    if not isinstance(it, ast.Name):
        raise Unsupported("the broadcasting loop does not run over a name")
    Un = it.id
    ol = once(calls_in(loop, "np.ones_like"), "np.ones_like in the broadcasting loop")
    if not (len(ol.args) == 1 and isinstance(ol.args[0], ast.Name)):
        raise Unsupported("argument of np.ones_like")
    Tn = ol.args[0].id
    vs = once([s for s in b if isinstance(s, ast.Assign) and calls_in(s, "np.vstack")], "the np.vstack assignment")
    if not (len(vs.targets) == 1 and isinstance(vs.targets[0], ast.Name)):
        raise Unsupported("target of the np.vstack assignment")
    res = vs.targets[0].id
    stacked = {c.args[0].id for c in calls_in(vs, "np.vstack") if c.args and isinstance(c.args[0], ast.Name)}

    def make(e):
        t = Tr("K", empties=e)
        t.rowblock_lists = stacked
        return t

    def env_fn():
        return {Un: V("U", ULIST), Tn: V("T", VEC)}

    tr, lines, ended, env = run_block(make, b, env_fn, [(res, RMAT)])
    if ended:
        raise Unsupported("the broadcasting block ends early")
    return dict(lines=lines, text=seg(src, b), notes=tr.notes + ["returns %s" % res], info={})


JOBS += [
    dict(name="nlBroadcast", out="NLBroadcast.lean", run=job_broadcast, variables=VARS_FIELD,
         sig="(T : List K) (U : List (PyNL.UElem K))", ret="Except Err (PyNL.RMat K)", fail=FAIL),
]


# ---- NonlinearIOSystem.linearize --------------------------------------------------------------------
def lin_function(module):
    return find_function(module, "linearize", cls="NonlinearIOSystem")


def job_lin_point(src, module, shared):
    fn = lin_function(module)
    ifs = [s for s in fn.body if isinstance(s, ast.If) and isinstance(s.test, ast.Call)
           and ast.unparse(s.test.func) == "isinstance" and len(s.test.args) == 2
           and ast.unparse(s.test.args[1]) == "OperatingPoint" and isinstance(s.test.args[0], ast.Name)]
    st = once(ifs, "the `if isinstance(x0, OperatingPoint)` of linearize")
    xn = st.test.args[0].id
    tr0 = Tr("K")
    names = [n for n in tr0.assigned([st])]
    others = [n for n in names if n != xn]
    un = once(others, "the second variable bound by the operating-point resolution")
    arms = []
    notes = []
    for xpat, xmk in ((".op x_states x_inputs", lambda: V(None, XARG_OP, attrs={"states": V("x_states", ARGV), "inputs": V("x_inputs", ARGV)})),
                      (".vec x_arg", lambda: V("x_arg", ARGV))):
        for upat, umk in ((".none", lambda: V(None, NONE)), ("u_arg", lambda: V("u_arg", ARGV))):
            tr = Tr("K")
            env = {xn: xmk(), un: umk()}
            lines, ended = tr.seq([st], env, None)
            if ended:
                raise Unsupported("the operating-point resolution ends the function")

            def as_arg(v):
                if v.ty == ARGV:
                    return v.code
                if v.ty == NONE:
                    return "PyNL.Arg.none"
                if v.ty in (INT, K) and v.lit is not None:
                    return "(PyNL.Arg.scalar (%s : K))" % Tr.num_lit(v.lit)
                if v.ty == INT:
                    return "(PyNL.Arg.scalar ((%s : Int) : K))" % v.code
                if v.ty == K:
                    return "(PyNL.Arg.scalar %s)" % v.code
                raise Unsupported("the resolved point is a %s" % v.ty)
            arms += ["| %s, %s =>" % (xpat, upat)] + _ind(lines) + ["  (%s, %s)" % (as_arg(env[xn]), as_arg(env[un]))]
            notes += [n for n in tr.notes if n not in notes]
    shared["lin"] = {"x0": xn, "u0": un}
    return dict(lines=["match x0, u0 with"] + arms, text=seg(src, [st]), notes=notes + ["returns (%s, %s)" % (xn, un)], raw=True, info={})


def job_lin_core(src, module, shared):
    fn = lin_function(module)
    selfname = fn.args.args[0].arg
    body = fn.body
    pv = [k for k, s in enumerate(body) if isinstance(s, ast.Assign) and calls_in(s, "_process_vector_argument")]
    if len(pv) != 2:
        raise Unsupported("%d assignments from _process_vector_argument in linearize (expected 2)" % len(pv))
    ss = [k for k, s in enumerate(body) if isinstance(s, ast.Assign) and isinstance(s.value, ast.Call)
          and ast.unparse(s.value.func) == "StateSpace" and len(s.value.args) >= 4
          and all(isinstance(a, ast.Name) for a in s.value.args[:4])]
    if not ss:
        raise Unsupported("no `StateSpace(A, B, C, D, ...)` in linearize")
    kend = ss[0]
    keys = [a.id for a in body[kend].value.args[:4]]
    if not (pv[1] < kend):
        raise Unsupported("order of the statements of linearize")
    # the names the two calls bind: (value, count) of the state and of the input
    def targets(s):
        t = s.targets[0]
        if not (isinstance(t, ast.Tuple) and len(t.elts) == 2 and all(isinstance(e, ast.Name) for e in t.elts)):
            raise Unsupported("targets of the _process_vector_argument call")
        return t.elts[0].id, t.elts[1].id
    x0, nstates = targets(body[pv[0]])
    u0, ninputs = targets(body[pv[1]])
    sizes = []
    for k in pv:
        c = once(calls_in(body[k], "_process_vector_argument"), "_process_vector_argument call")
        a = c.args[2] if len(c.args) == 3 else None
        if not (isinstance(a, ast.Attribute) and isinstance(a.value, ast.Name) and a.value.id == selfname):
            raise Unsupported("size argument of _process_vector_argument")
        sizes.append(a.attr)
    if sizes != ["nstates", "ninputs"]:
        raise Unsupported("the two calls of _process_vector_argument use the sizes %s" % sizes)
    stmts = body[pv[1] + 1:kend]
    args = fn.args.args
    pnames = [a.arg for a in args]
    # the time and the step: the parameters used as first argument of _rhs and as the perturbation
    rc = [c for s in stmts for c in ast.walk(s) if isinstance(c, ast.Call) and isinstance(c.func, ast.Attribute)
          and c.func.attr in ("_rhs", "_out")]
    tn = {ast.unparse(c.args[0]) for c in rc}
    tname = once(tn, "the time argument of the _rhs / _out calls")
    loads = []
    for s in stmts:
        for n in ast.walk(s):
            if isinstance(n, ast.Name) and isinstance(n.ctx, ast.Load) and n.id in pnames and n.id not in loads:
                loads.append(n.id)
    free = [n for n in loads if n not in (selfname, tname, x0, u0, "params")]
    eps = once(free, "the step parameter of linearize (found %s)" % free)

    def find_size_call(tr, node, env, pre):
        sv = tr.expr(node.args[0], env, pre)
        vv = tr.expr(node.args[1], env, pre)
        if vv.ty == VEC:
            return tr.bind(pre, "nlFindSizeVec %s %s" % (tr.as_int(sv), vv.code), INT)
        raise Unsupported("_find_size of a %s" % vv.ty)

    def make(e):
        t = SysTr("K", selfname, funcs={"_find_size": find_size_call}, empties=e)
        t.order_hint = keys
        return t

    def env_fn():
        sysv = sys_value(selfname)
        sysv.attrs["noutputs"] = V("sys_noutputs", INT)
        return {selfname: sysv, tname: V("t", K), eps: V("eps", K), x0: V("x0", VEC), u0: V("u0", VEC),
                nstates: V("nstates", INT), ninputs: V("ninputs", INT), "params": V(None, NONE)}

    tail = [(k, CMAT) for k in keys]
    tr, lines, ended, env = run_block(make, stmts, env_fn, tail)
    if ended:
        raise Unsupported("the linearisation block ends early")
    text = seg(src, [body[pv[0]], body[pv[1]]] + stmts) + "\nreturn " + ", ".join(keys)
    notes = tr.notes + ["the values bound by the two `_process_vector_argument` calls are the parameters x0, nstates, u0, ninputs",
                        "returns (%s)" % ", ".join(keys)]
    return dict(lines=lines, text=text, notes=notes, info={})


JOBS += [
    dict(name="nlLinPoint", out="NLLinPoint.lean", run=job_lin_point, variables="variable {K : Type} [Field K]\n\n",
         sig="(x0 : PyNL.XArg K) (u0 : PyNL.Arg K)", ret="PyNL.Arg K × PyNL.Arg K", fail="(PyNL.Arg.none, PyNL.Arg.none)"),
    dict(name="nlLinCore", out="NLLinCore.lean", run=job_lin_core, variables=VARS_FIELD,
         imports=["CtrlVerif.Generated.NLProcessVector"],
         sig=("(rhs out : K → List K → List K → Except Err (List K)) (sys_noutputs : Int) (t eps : K)\n"
              "    (x0 : List K) (nstates : Int) (u0 : List K) (ninputs : Int)"),
         ret="Except Err (PyNL.CMat K × PyNL.CMat K × PyNL.CMat K × PyNL.CMat K)", fail=FAIL),
]


# ---- find_operating_point ---------------------------------------------------------------------------
def op_general(module):
    fn = find_function(module, "find_operating_point")
    ifs = [s for s in fn.body if isinstance(s, ast.If) and isinstance(s.test, ast.Call) and ast.unparse(s.test.func) == "all"
           and len(s.test.args) == 1 and isinstance(s.test.args[0], ast.ListComp)]
    top = once(ifs, "`if all([x is None for x in (iu, iy, ix, idx)])`")
    comp = top.test.args[0]
    it = comp.generators[0].iter
    if not (isinstance(it, (ast.Tuple, ast.List)) and len(it.elts) == 4 and all(isinstance(e, ast.Name) for e in it.elts)):
        raise Unsupported("the index-list tuple of find_operating_point")
    lists = [e.id for e in it.elts]
    G = top.orelse
    defs = [k for k, s in enumerate(G) if isinstance(s, ast.FunctionDef)]
    kdef = once(defs, "the nested root function of the general branch")
    rf = G[kdef]
    roots = [k for k, s in enumerate(G) if isinstance(s, ast.Assign) and isinstance(s.value, ast.Call)
             and ast.unparse(s.value.func) == "root"]
    kroot = once(roots, "the `root(...)` call of the general branch")
    if not (kdef < kroot):
        raise Unsupported("order of the statements of the general branch")
    # the roles of the names, from calls that fix them
    pvs = {}
    for st in fn.body:
        if isinstance(st, ast.Assign) and calls_in(st, "_process_vector_argument"):
            c = once(calls_in(st, "_process_vector_argument"), "_process_vector_argument call")
            t = st.targets[0]
            if isinstance(t, ast.Tuple) and len(t.elts) == 2 and isinstance(c.args[2], ast.Attribute):
                pvs[c.args[2].attr] = (t.elts[0].id, t.elts[1].id)
    if set(pvs) != {"nstates", "ninputs", "noutputs"}:
        raise Unsupported("the three _process_vector_argument calls of find_operating_point")
    rc = [c for c in ast.walk(rf) if isinstance(c, ast.Call) and isinstance(c.func, ast.Attribute) and c.func.attr == "_rhs"]
    c0 = once(rc, "the `_rhs` call of the root function")
    sysname = c0.func.value.id
    tname = ast.unparse(c0.args[0])
    return dict(fn=fn, G=G, kdef=kdef, kroot=kroot, rf=rf, lists=lists, pvs=pvs, sysname=sysname, tname=tname)


class OpTr(SysTr):
    def call(self, node, env, pre):
        f = node.func
        if isinstance(f, ast.Attribute) and isinstance(f.value, ast.Name) and f.value.id == self.sysname and f.attr == "isdtime":
            kw = {k.arg: ast.unparse(k.value) for k in node.keywords}
            if node.args or kw != {"strict": "True"}:
                raise Unsupported("call %s" % ast.unparse(node))
            return V("disc", "BOOLP")
        return SysTr.call(self, node, env, pre)

    def test(self, node, env, pre):
        if isinstance(node, ast.Call) and isinstance(node.func, ast.Attribute) and node.func.attr == "isdtime":
            v = self.call(node, env, pre)
            return None, "%s = true" % v.code
        return SysTr.test(self, node, env, pre)


def free_loads(fn_or_stmts):
    stmts = fn_or_stmts.body if isinstance(fn_or_stmts, ast.FunctionDef) else fn_or_stmts
    out = []
    for s in stmts:
        for n in ast.walk(s):
            if isinstance(n, ast.Name) and isinstance(n.ctx, ast.Load) and n.id not in out:
                out.append(n.id)
    return out


def op_setup_parts(L):
    G, kdef, rf = L["G"], L["kdef"], L["rf"]
    stmts = G[:kdef]
    tr0 = Tr("K")
    assigned = tr0.assigned(stmts)
    reads = free_loads(rf)
    handed = [n for n in assigned if n in reads]
    return stmts, handed


def job_op_setup(src, module, shared):
    L = op_general(module)
    stmts, handed = op_setup_parts(L)
    iu, iy, ix, idx = L["lists"]
    x0, nstates = L["pvs"]["nstates"]
    u0, ninputs = L["pvs"]["ninputs"]
    y0, noutputs = L["pvs"]["noutputs"]
    dx0 = [a.arg for a in L["fn"].args.args if a.arg.startswith("dx") or a.arg.startswith("deriv")]
    loads = free_loads(stmts)
    known = {iu, iy, ix, idx, x0, nstates, u0, ninputs, y0, noutputs}
    params = [a.arg for a in L["fn"].args.args] + [a.arg for a in L["fn"].args.kwonlyargs]
    tr0 = Tr("K")
    fn_locals = set(params) | set(tr0.assigned(L["fn"].body))
    seen, extra = set(), []
    for st in stmts:
        for n in ast.walk(st):
            if isinstance(n, ast.Name) and isinstance(n.ctx, ast.Load) and n.id in fn_locals \
                    and n.id not in seen and n.id not in known and n.id not in extra:
                # bound variables of comprehensions are not locals of the function
                extra.append(n.id)
        seen |= set(tr0.assigned([st]))
    comp_vars = {g.target.id for st in stmts for c in ast.walk(st) if isinstance(c, ast.ListComp)
                 for g in c.generators if isinstance(g.target, ast.Name)}
    # a local read before the block assigns it, other than the known ones: the requested derivative
    dname = once([n for n in extra if n != L["sysname"] and n not in comp_vars],
                 "the requested-derivative variable read by the set-up statements")

    def env_fn():
        return {iu: V("iu", OPTILIST), iy: V("iy", OPTILIST), ix: V("ix", OPTILIST), idx: V("idx", OPTILIST),
                nstates: V("nstates", INT), ninputs: V("ninputs", INT), noutputs: V("noutputs", INT),
                x0: V("x0", VEC), u0: V("u0", VEC), dname: V("dx0", OPTVEC), L["sysname"]: sys_value(L["sysname"])}

    probe, _, _, penv = run_block(lambda e: OpTr("K", L["sysname"], empties=e), stmts, env_fn, None)
    tail = [(n, penv[n].ty) for n in handed]
    want = [ILIST, ILIST, ILIST, ILIST, VEC, VEC, VEC, INT]
    if [t for _, t in tail] != want:
        raise Unsupported("the set-up statements hand on %s" % [(n, t) for n, t in tail])
    tr, lines, ended, env = run_block(lambda e: OpTr("K", L["sysname"], empties=e), stmts, env_fn, tail)
    if ended:
        raise Unsupported("the set-up statements end the function")
    shared["op"] = dict(L=L, handed=handed, dx0=dname, y0=y0)
    return dict(lines=lines, text=seg(src, stmts), notes=tr.notes + ["returns (%s)" % ", ".join(handed)], info={})


def job_op_rootfun(src, module, shared):
    if "op" not in shared:
        job_op_setup(src, module, shared)
    O = shared["op"]
    L, handed = O["L"], O["handed"]
    rf = L["rf"]
    z = once([a.arg for a in rf.args.args], "the argument of the root function")
    roles = ["state_vars", "input_vars", "output_vars", "deriv_vars", "x", "u", "dx0", "nstate_vars"]
    tys = [ILIST, ILIST, ILIST, ILIST, VEC, VEC, VEC, INT]

    def env_fn():
        env = {n: V(r, t) for n, r, t in zip(handed, roles, tys)}
        env[z] = V("z", VEC)
        env[L["tname"]] = V("t", K)
        env[O["y0"]] = V("y0", OPTVEC)
        env[L["sysname"]] = sys_value(L["sysname"])
        return env

    def make(e):
        t = OpTr("K", L["sysname"], empties=e)
        return t

    tr, lines, ended, env = run_block(make, rf.body, env_fn, None)
    if not ended:
        raise Unsupported("the root function does not return")
    notes = tr.notes + ["the arrays the root function writes into (closure state) are parameters; every call overwrites the same entries",
                        "`%s.isdtime(strict=True)` is the parameter `disc`" % L["sysname"]]
    return dict(lines=lines, text=seg(src, [rf]), notes=notes, info={})


def job_op_unpack(src, module, shared):
    if "op" not in shared:
        job_op_setup(src, module, shared)
    O = shared["op"]
    L, handed = O["L"], O["handed"]
    G, kroot = L["G"], L["kroot"]
    res = G[kroot].targets[0].id
    stmts = G[kroot + 1:]
    last = stmts[-1] if stmts else None
    if not (isinstance(last, ast.Assign) and isinstance(last.value, ast.Tuple) and len(last.value.elts) == 3
            and isinstance(last.targets[0], ast.Name)):
        raise Unsupported("the last statement of the general branch is not `z = (x, u, y)`")
    zname = last.targets[0].id
    roles = ["state_vars", "input_vars", "output_vars", "deriv_vars", "x", "u", "dx0", "nstate_vars"]
    tys = [ILIST, ILIST, ILIST, ILIST, VEC, VEC, VEC, INT]
    tr = OpTr("K", L["sysname"])
    env = {n: V(r, t) for n, r, t in zip(handed, roles, tys)}
    env[L["tname"]] = V("t", K)
    env[L["sysname"]] = sys_value(L["sysname"])
    env[res] = V(None, OBJ, attrs={"x": V("result_x", VEC)})
    lines, ended = tr.seq(list(stmts), env, None)
    if ended:
        raise Unsupported("the unpacking statements end the function")
    zv = env[zname]
    if not (zv.ty == TUPLE and [v.ty for v in zv.items] == [VEC, VEC, VEC]):
        raise Unsupported("`%s` is not a triple of arrays" % zname)
    lines.append("pure (%s)" % ", ".join(v.code for v in zv.items))
    return dict(lines=lines, text=seg(src, stmts), notes=tr.notes + ["returns %s" % zname], info={})


OP_ROLES_SIG = ("(state_vars input_vars output_vars deriv_vars : List Int) (x u dx0 : List K) (nstate_vars : Int)")
OP_SETUP_JOB = [
    dict(name="nlOpSetup", out="NLOpSetup.lean", run=job_op_setup, variables=VARS_FIELD,
         sig=("(iu iy ix idx : Option (List Int)) (nstates ninputs noutputs : Int) (x0 u0 : List K)\n"
              "    (dx0 : Option (List K))"),
         ret="Except Err (List Int × List Int × List Int × List Int × List K × List K × List K × Int)", fail=FAIL),
]
JOBS += OP_SETUP_JOB
JOBS += [
    dict(name="nlRootfun", out="NLRootfun.lean", run=job_op_rootfun, variables=VARS_FIELD,
         sig=("(rhs out : K → List K → List K → Except Err (List K)) (t : K) (disc : Bool) (y0 : Option (List K))\n    "
              + OP_ROLES_SIG + " (z : List K)"),
         ret="Except Err (List K)", fail=FAIL),
    dict(name="nlOpUnpack", out="NLOpUnpack.lean", run=job_op_unpack, variables=VARS_FIELD,
         sig=("(rhs out : K → List K → List K → Except Err (List K)) (t : K)\n    "
              + OP_ROLES_SIG + " (result_x : List K)"),
         ret="Except Err (List K × List K × List K)", fail=FAIL),
]


# ---- _update_params ---------------------------------------------------------------------------------
class DictTr(Tr):
    """the two `_update_params` methods: `self.params` / `self.syslist` are parameters, the call
    `sub._update_params(d)` on a subsystem is recorded (the list of dictionaries handed down, in order)"""
    CALLS = "__calls__"

    def is_sub_call(self, s, env):
        if isinstance(s, ast.Expr) and isinstance(s.value, ast.Call) and isinstance(s.value.func, ast.Attribute) \
                and s.value.func.attr == "_update_params" and isinstance(s.value.func.value, ast.Name) \
                and s.value.func.value.id in env and env[s.value.func.value.id].ty == SUBSYS:
            return True
        return False

    def assigned(self, stmts):
        out = Tr.assigned(self, stmts)
        for s in stmts:
            for n in ast.walk(s):
                if isinstance(n, ast.Expr) and isinstance(n.value, ast.Call) and isinstance(n.value.func, ast.Attribute) \
                        and n.value.func.attr == "_update_params" and self.CALLS not in out:
                    out.append(self.CALLS)
        return out

    def stmt_hook(self, s, env):
        if self.is_sub_call(s, env):
            c = s.value
            if len(c.args) != 1 or c.keywords:
                raise Unsupported("call %s" % ast.unparse(c))
            pre = []
            v = self.expr(c.args[0], env, pre)
            if v.ty != DICT:
                raise Unsupported("a %s handed to a subsystem" % v.ty)
            cur = env[self.CALLS]
            return pre + ["let %s : %s := %s ++ [%s]" % (cur.code, self.lty(LDICT), cur.code, v.code)]
        return None


def job_update_leaf(src, module, shared):
    fn = find_function(module, "_update_params", cls="NonlinearIOSystem")
    selfn, pn = simple_params(fn, 2)
    tr = DictTr("K")
    env = {selfn: V(None, OBJ, attrs={"params": V("self_params", DICT)}), pn: V("params", OPTDICT)}
    keys = [k for k in tr.assigned(fn.body) if k.startswith(selfn + ".")]
    key = once(keys, "the attribute `_update_params` assigns")
    lines, ended = tr.seq(list(fn.body), env, [(key, DICT)])
    if ended:
        raise Unsupported("_update_params returns")
    return dict(lines=lines, text=seg(src, [fn]), notes=tr.notes + ["returns %s" % key], info={})


def job_update_node(src, module, shared):
    fn = find_function(module, "_update_params", cls="InterconnectedSystem")
    selfn, pn = simple_params(fn, 2)
    tr = DictTr("K")
    env = {selfn: V(None, OBJ, attrs={"params": V("self_params", DICT), "syslist": V("sub_params", DICTLIST)}),
           pn: V("params", OPTDICT), DictTr.CALLS: V("calls", LDICT)}
    lines, ended = tr.seq(list(fn.body), env, [(DictTr.CALLS, LDICT)])
    if ended:
        raise Unsupported("_update_params returns")
    lines = ["let calls : %s := []" % tr.lty(LDICT)] + lines
    notes = tr.notes + ["a subsystem is given by its `params`; returns the dictionaries handed to `sub._update_params`, in order"]
    return dict(lines=lines, text=seg(src, [fn]), notes=notes, info={})


VARS_DICT = "variable {κ ν : Type}\n\n"
JOBS += [
    dict(name="nlUpdateLeaf", out="NLUpdateLeaf.lean", run=job_update_leaf, variables=VARS_DICT,
         sig="(self_params : PyNL.Dict κ ν) (params : Option (PyNL.Dict κ ν))", ret="Except Err (PyNL.Dict κ ν)", fail=FAIL),
    dict(name="nlUpdateNode", out="NLUpdateNode.lean", run=job_update_node, variables=VARS_DICT,
         sig="(self_params : PyNL.Dict κ ν) (sub_params : List (PyNL.Dict κ ν)) (params : Option (PyNL.Dict κ ν))",
         ret="Except Err (List (PyNL.Dict κ ν))", fail=FAIL),
]


def job_lin_args(src, module, shared):
    fn = lin_function(module)
    selfname = fn.args.args[0].arg
    body = fn.body
    pv = [k for k, s in enumerate(body) if isinstance(s, ast.Assign) and calls_in(s, "_process_vector_argument")]
    if len(pv) != 2 or pv[1] != pv[0] + 1:
        raise Unsupported("the two consecutive _process_vector_argument calls of linearize")
    stmts = [body[pv[0]], body[pv[1]]]
    names = []
    for s in stmts:
        t = s.targets[0]
        if not (isinstance(t, ast.Tuple) and len(t.elts) == 2 and all(isinstance(e, ast.Name) for e in t.elts)):
            raise Unsupported("targets of the _process_vector_argument call")
        names += [t.elts[0].id, t.elts[1].id]

    def pv_call(tr, node, env, pre):
        if len(node.args) != 3 or node.keywords:
            raise Unsupported("call of _process_vector_argument")
        a = tr.expr(node.args[0], env, pre)
        sz = tr.expr(node.args[2], env, pre)
        if a.ty != ARGV:
            raise Unsupported("_process_vector_argument of a %s" % a.ty)
        r = tr.bind(pre, "nlProcessVector %s %s" % (a.code, tr.as_int(sz)), TUPLE)
        arr = tr.bind(pre, "PyNL.asArray %s.1" % r.code, VEC)
        tr.note("a vector argument that is `None` is rejected where it is bound (it has to be an array when it is used)")
        return V(None, TUPLE, items=[arr, V("%s.2" % r.code, INT)])

    tr = Tr("K", funcs={"_process_vector_argument": pv_call})
    sysv = V(None, SYS, attrs={"nstates": V("sys_nstates", INT), "ninputs": V("sys_ninputs", INT)})
    env = {selfname: sysv, names[0]: V("x0", ARGV), names[2]: V("u0", ARGV)}
    tail = [(names[0], VEC), (names[1], INT), (names[2], VEC), (names[3], INT)]
    lines, ended = tr.seq(stmts, env, tail)
    if ended:
        raise Unsupported("the argument processing ends the function")
    return dict(lines=lines, text=seg(src, stmts), notes=tr.notes + ["returns (%s)" % ", ".join(names)], info={})


JOBS += [
    dict(name="nlLinArgs", out="NLLinArgs.lean", run=job_lin_args, variables=VARS_FIELD,
         imports=["CtrlVerif.Generated.NLProcessVector"],
         sig="(x0 u0 : PyNL.Arg K) (sys_nstates sys_ninputs : Int)",
         ret="Except Err (List K × Int × List K × Int)", fail=FAIL),
]


def job_op_short(src, module, shared):
    """the two short-cut branches of find_operating_point (no index lists): the function handed to `root`"""
    L = op_general(module)
    fn = L["fn"]
    top = once([s for s in fn.body if isinstance(s, ast.If) and isinstance(s.test, ast.Call) and ast.unparse(s.test.func) == "all"],
               "`if all([...])`")
    body = top.body
    x0, nstates = L["pvs"]["nstates"]
    u0, ninputs = L["pvs"]["ninputs"]
    y0, noutputs = L["pvs"]["noutputs"]
    ky = [k for k, s in enumerate(body) if isinstance(s, ast.If) and isinstance(s.test, ast.Compare)
          and isinstance(s.test.left, ast.Name) and s.test.left.id == y0]
    k = once(ky, "`if y0 is None` in the short-cut branch")
    pre_stmts, ysplit = body[:k], body[k]
    if body[k + 1:]:
        raise Unsupported("statements after `if y0 is None` in the short-cut branch")
    # the requested-derivative variable: the local read by the statements before the split
    tr0 = Tr("K")
    fn_locals = set(a.arg for a in fn.args.args) | set(tr0.assigned(fn.body))
    reads = [n for n in free_loads(pre_stmts) if n in fn_locals and n not in (nstates, ninputs, noutputs, x0, u0, y0)]
    dname = once(reads, "the requested-derivative variable of the short-cut branch")
    sysname, tname = L["sysname"], L["tname"]

    def two_defs(stmts):
        ifs = [s for s in stmts if isinstance(s, ast.If) and len(s.body) == 1 and len(s.orelse) == 1
               and isinstance(s.body[0], ast.FunctionDef) and isinstance(s.orelse[0], ast.FunctionDef)]
        c = once(ifs, "the `if <discrete>: def f(z) ... else: def f(z) ...` of a short-cut branch")
        f1, f2 = c.body[0], c.orelse[0]
        if f1.name != f2.name or [a.arg for a in f1.args.args] != [a.arg for a in f2.args.args] or len(f1.args.args) != 1:
            raise Unsupported("the two definitions of the root function differ in name / signature")
        calls = [x for s in stmts for x in calls_in(s, "root")]
        r = once(calls, "the `root(...)` call of a short-cut branch")
        if not (r.args and isinstance(r.args[0], ast.Name) and r.args[0].id == f1.name):
            raise Unsupported("`root` is not called with the function just defined")
        return c.test, f1, f2

    opt = Tr("K").option_test(ysplit.test, {y0: V("y0", OPTVEC)})
    if opt is None:
        raise Unsupported("the test on y0")
    b_some = ysplit.body if opt[1] else ysplit.orelse
    b_none = ysplit.orelse if opt[1] else ysplit.body
    tr = OpTr("K", sysname)
    env0 = {nstates: V("nstates", INT), u0: V("u0", VEC), dname: V("dx0", OPTVEC), tname: V("t", K),
            sysname: sys_value(sysname), y0: V("y0", OPTVEC)}
    lines, ended = tr.seq(list(pre_stmts), env0, None)
    if ended:
        raise Unsupported("the short-cut branch ends early")
    out = list(lines) + ["match y0 with"]
    text = seg(src, pre_stmts)
    for arm, stmts, yv in (("| none => do", b_none, V(None, NONE)), ("| some y0 => do", b_some, V("y0", VEC))):
        test, f1, f2 = two_defs(stmts)
        env = dict(env0)
        env[y0] = yv
        pre = []
        st, cond = tr.test(test, env, pre)
        if st is not None or pre:
            raise Unsupported("the test that selects the root function")
        parts = []
        for f in (f1, f2):
            e = dict(env)
            e[f.args.args[0].arg] = V("z", VEC)
            ls, ended = tr.seq(list(f.body), e, None)
            if not ended:
                raise Unsupported("a root function of the short-cut branch does not return")
            parts.append(ls)
        out += [arm, "  if %s then" % cond] + _ind(parts[0], 4) + ["  else"] + _ind(parts[1], 4)
        text += "\n" + seg(src, [f1, f2])
    notes = tr.notes + ["the function handed to `root`, per `y0 is None` and per `%s.isdtime(strict=True)` (parameter `disc`)" % sysname]
    return dict(lines=out, text=text, notes=notes, info={})


JOBS += [
    dict(name="nlOpShort", out="NLOpShort.lean", run=job_op_short, variables=VARS_FIELD,
         sig=("(rhs out : K → List K → List K → Except Err (List K)) (t : K) (disc : Bool) (y0 : Option (List K))\n"
              "    (nstates : Int) (u0 : List K) (dx0 : Option (List K)) (z : List K)"),
         ret="Except Err (List K)", fail=FAIL),
]


if __name__ == "__main__":
    import sys
    probs, inf = regenerate(sys.argv[1], sys.argv[2])
    for p in probs:
        print("PROBLEM", p)
    for k, v in inf.items():
        print(k, v["sha"][:16], v["lines"], "lines", v["notes"])
