"""Translator Python `ast` -> Lean 4 for the system-norm computation of property C16
(DESIGN §10.3 / notes/NOTES-py2lean-norm.md):

    control/sysnorm.py : _psd_tol, system_norm (alias norm), method 'scipy'

It regenerates `lean/CtrlVerif/Generated/Norm*.lean` from the source text of the tree the check runs
against on every run; `Props/C16Gen*.lean` prove the hand-written C16 model (`Model/Norm.lean`:
`h2cont h2disc h2`, `invBilinear`, `Rmat hamiltonian eigTest`, `upperLoop bisectLoop linfLoops
linfCont linf`) EQUAL to the generated functions, so a semantic edit of the source breaks a proof
obligation, and an edit that leaves the supported subset (or removes a landmark) makes the
translation fail (reported the same way: the emitted definition is then `.error .notImplemented`
for every argument, which cannot equal the model).

`system_norm` is one large function; the blocks that carry the property are located by STRUCTURE
(never by line number or variable name) and translated as separate Lean functions:

  landmarks   `G = ct.ss(system)` (name of the system), the four `X = G.A | G.B | G.C | G.D` (names
              of the matrices, by role), `method = ct.mateqn._slycot_or_scipy(method)`, the
              top-level `if p == 2: ... elif p == "inf": ... else: raise`, inside the second branch
              the `if method == 'slycot': ... else:` whose else-part holds, in this order, the one
              `if G.isdtime():` without a `return` (inverse bilinear transformation), the one nested
              `def` (Hamiltonian matrix) and the statements after it (bounds and loops).
  normPsdTol        `_psd_tol(P)`
  normH2            the matrix assignments + the body of `if p == 2:`
  normHamilton      the nested function; its free variables, in the order of their first occurrence
                    in its body, are the leading parameters (Python closures read them at call time)
  normLinfBilinear  the body of that `if G.isdtime():`; returns the four matrices it re-binds
  normLinfCont      the statements after the nested function (`gaml`, `gamu`, the identities, the
                    doubling loop, the bisection loop, `return gam`)
  normLinf          the matrix assignments + the body of `elif p == "inf":` with the three blocks
                    above as calls of the generated functions
Not tied (argument processing): the `isinstance` check of `system`, `ct.ss(system)` (C03),
`_slycot_or_scipy`, the Slycot paths (`method == 'slycot'` is taken as False: the model is the model
of method 'scipy'), `warnings.warn` (no effect on the value), the final `else: raise`.

Value model: `Model/PyMat.lean` (2-D arrays `PMat K`, `StateSpace` objects `DSS K`) and the ONE new
trusted file `Model/PyNorm.lean` (1-D arrays as lists, `np.isclose` = equality, `abs` / `np.sqrt`
represented by squares / radicands, `whileFuel`, `callLyap`).  `ct.lyap`, `ct.dlyap`, `la.eigvals`,
`G.poles()`, `la.norm`, `np.sqrt(np.finfo(float).eps)` are PARAMETERS of the generated functions.
The matrix layer, the expression translation and the effect ordering are those of
`core/py2lean_ss.py` (class `Translator` is subclassed, nothing there is edited).

Added here:
  statements   `while c: body` (`PyNorm.whileFuel`, the loop state is the tuple of the variables
               assigned in the body in the order of their first assignment; a variable that does not
               exist before the loop is an `Option`, reading it afterwards is `PyNorm.bound`;
               out of fuel = `Norm.LinfVal.diverged`), `x *= e` and the other augmented assignments,
               `if print_warning: warnings.warn(...)` / `warnings.warn(...)` (skipped), a nested
               `def`, `raise ct.ControlArgument(...)`, `return float('inf') | np.sqrt value | number`
  expressions  float literals, `a if c else b`, `+ - * / **` and `max` on numbers, comparisons of
               numbers, element-wise comparisons of 1-D arrays with a number, `any`, `np.isclose`,
               `abs`, `.real`, `.flat`, `len(X)`, `np.trace`, `np.sqrt`, `np.isnan`, `la.inv`,
               `la.eigvals`, `la.norm`, `ct.lyap`, `ct.dlyap`, `G.poles()`, `G.isctime()`,
               `G.isdtime()`, calls of `_psd_tol` and of the nested function.
Names are resolved through the module's imports (a re-bound name is a failed translation), default
values of parameters are compared with the expected ones, the sha256 of the translated text is
recorded in the generated file; output is deterministic and rewritten only when changed.
"""
import ast
import builtins
import hashlib
import os
import re
import sys
from fractions import Fraction

if __name__ == "__main__":      # `python harness/core/py2lean_norm.py <repo> <lean dir>`
    sys.path.insert(0, os.path.dirname(os.path.dirname(os.path.abspath(__file__))))

from core.py2lean import Unsupported
from core import py2lean_ss as ss
from core.py2lean_ss import V, _ind, SS, MAT, NUM, NAT, INT, DT, PROP, SHAPE, module_bindings

LNUM, LBOOL, LCX, LABS, SQRTV, INFV, OPTNUM, METHOD, PW, FUNC = \
    "LNUM", "LBOOL", "LCX", "LABS", "SQRTV", "INFV", "OPTNUM", "METHOD", "PW", "FUNC"
H2RET, LINFRET, MATRET, NUMRET, QUADRET = "H2RET", "LINFRET", "MATRET", "NUMRET", "QUADRET"

LEAN_TY = dict(ss.LEAN_TY)
LEAN_TY.update({LNUM: "List K", LBOOL: "List Bool", LCX: "List (Norm.Pole K)", LABS: "List (PyNorm.AbsVal K)",
                SQRTV: "PyNorm.SqrtVal K", OPTNUM: "Option K"})
RET_TY = {H2RET: "Norm.H2Val K", LINFRET: "Norm.LinfVal K", MATRET: "PMat K", NUMRET: "K",
          QUADRET: "PMat K × PMat K × PMat K × PMat K"}

IMPORTS = {"np": ("import", "numpy"), "la": ("import", "numpy.linalg"), "ct": ("import", "control"),
           "warnings": ("import", "warnings")}

# Python identifiers that mean something else in the generated files
RESERVED = {"K", "Err", "PMat", "PySS", "PyNorm", "PyNum", "Norm", "DtPred", "List", "Int", "Nat", "Option", "Except",
            "Type", "Prop", "Sort", "at", "end", "open", "fun", "then", "do", "have", "show", "by", "instance",
            "variable", "theorem", "namespace", "section", "where", "deriving", "mutual", "macro", "syntax",
            "notation", "local", "private", "protected", "export", "universe", "example", "structure", "inductive",
            "extends", "abbrev", "opaque", "axiom", "calc", "using", "this", "match", "let", "mut", "unsafe",
            "sorry", "admit", "noncomputable", "partial", "termination_by", "decreasing_by", "omit", "include",
            "lyap", "dlyap", "eigvals", "sqrtEps", "fro", "norm2", "fuel", "poles", "some", "none", "pure", "max",
            "min", "decide", "id"}


def lean_name(name):
    if name in RESERVED or re.fullmatch(r"t\d+", name) or re.fullmatch(r"st\d+", name) or name in ("normPsdTol", "normH2", "normHamilton", "normLinfBilinear", "normLinfCont", "normLinf"):
        return name + "_py"
    return name


def float_lit(x):
    """a float literal as an exact element of K"""
    fr = Fraction(x)
    if fr.denominator == 1:
        return "(%d : K)" % fr.numerator if fr.numerator >= 0 else "(-%d : K)" % -fr.numerator
    return "((%d : K) / (%d : K))" % (fr.numerator, fr.denominator)


class NormTranslator(ss.Translator):
    """statement blocks of control/sysnorm.py"""

    def __init__(self, job, bindings, externals, ret, siblings=None, nested=None, outlined=None):
        super().__init__(job, bindings, {})
        self.externals = externals      # names of the external parameters this block may use
        self.ret = ret
        self.siblings = siblings or {}  # python function name -> (lean name, leading lean args, params, ret type)
        self.nested = nested or {}      # nested def name -> (lean name, free variable names)
        self.outlined = outlined or {}  # id(ast node) -> handler
        self.used_ext = set()

    # -- names --------------------------------------------------------------------------------
    def need_norm(self, name):
        if name in self.locals:
            raise Unsupported("`%s` is re-bound inside the function" % name)
        got = self.bindings.get(name)
        if got != IMPORTS[name]:
            raise Unsupported("`%s` is bound to %s in the module, expected %s" % (name, got, IMPORTS[name]))

    def ext(self, name):
        if name not in self.externals:
            raise Unsupported("the external routine `%s` is not available in this block" % name)
        self.used_ext.add(name)
        return name

    def no_rebinding(self, name):
        if name in self.locals or name in self.bindings:
            raise Unsupported("`%s` is re-bound" % name)

    # -- coercions ----------------------------------------------------------------------------
    def as_num(self, v):
        if v.lit is not None and v.ty in (INT, NAT):
            return "(%d : K)" % v.lit if v.lit >= 0 else "(-%d : K)" % -v.lit
        if v.ty == NUM:
            return v.code
        if v.ty in (INT, NAT):
            return "((%s : Int) : K)" % v.code
        raise Unsupported("expected a number, got %s" % v.ty)

    def numeric(self, v):
        return v.ty in (NUM, INT, NAT)

    def nonneg_literal(self, node):
        if isinstance(node, ast.Constant) and type(node.value) in (int, float) and node.value >= 0:
            return True
        return False

    # -- tests --------------------------------------------------------------------------------
    def test(self, node, env, pre):
        if isinstance(node, ast.Call):
            f = self.dotted(node.func)
            if f == "any" and len(node.args) == 1 and not node.keywords:
                self.no_rebinding("any")
                v = self.expr(node.args[0], env, pre)
                if v.ty != LBOOL:
                    raise Unsupported("any(%s)" % v.ty)
                return None, "(PyNorm.any %s = true)" % v.code
            if f == "np.isnan" and len(node.args) == 1 and not node.keywords:
                self.need_norm("np")
                v = self.expr(node.args[0], env, pre)
                if v.ty != SQRTV:
                    raise Unsupported("np.isnan(%s)" % v.ty)
                return None, "(PyNorm.isnan %s = true)" % v.code
            if isinstance(node.func, ast.Attribute) and node.func.attr in ("isctime", "isdtime") \
                    and not node.args and not node.keywords:
                v = self.expr(node.func.value, env, pre)
                if v.ty == SS:
                    return None, "(DtPred.%s false %s.dt = true)" % (node.func.attr, v.code)
                raise Unsupported("%s() of a %s" % (node.func.attr, v.ty))
        if isinstance(node, ast.Compare) and len(node.ops) == 1:
            # `method == 'slycot'`: the model is the model of method 'scipy'
            l, r = node.left, node.comparators[0]
            if isinstance(l, ast.Name) and l.id in env and env[l.id].ty == METHOD and isinstance(r, ast.Constant) \
                    and isinstance(node.ops[0], (ast.Eq, ast.NotEq)):
                if r.value not in ("slycot", "scipy"):
                    raise Unsupported("test %s" % ast.unparse(node))
                val = (r.value == "scipy") == isinstance(node.ops[0], ast.Eq)
                note = "`%s` is taken as %s (method 'scipy'; the Slycot path is not translated)" % (ast.unparse(node), val)
                if note not in self.notes:
                    self.notes.append(note)
                return val, ("True" if val else "False")
            save = list(pre)
            a = self.expr(l, env, pre)
            b = self.expr(r, env, pre)
            if self.numeric(a) and self.numeric(b) and NUM in (a.ty, b.ty):
                op = node.ops[0]
                x, y = self.as_num(a), self.as_num(b)
                if isinstance(op, ast.Gt):
                    return None, "(%s < %s)" % (y, x)
                if isinstance(op, ast.Lt):
                    return None, "(%s < %s)" % (x, y)
                if isinstance(op, ast.GtE):
                    return None, "(%s ≤ %s)" % (y, x)
                if isinstance(op, ast.LtE):
                    return None, "(%s ≤ %s)" % (x, y)
                if isinstance(op, ast.Eq):
                    return None, "(%s = %s)" % (x, y)
                if isinstance(op, ast.NotEq):
                    return None, "(%s ≠ %s)" % (x, y)
                raise Unsupported("comparison %s" % ast.unparse(node))
            del pre[:]
            pre.extend(save)
        return super().test(node, env, pre)

    # -- expressions --------------------------------------------------------------------------
    def expr(self, node, env, pre):
        if isinstance(node, ast.Name) and node.id in env:
            v = env[node.id]
            if v.ty == OPTNUM:       # possibly unassigned: UnboundLocalError
                return self.bind(pre, "PyNorm.bound %s" % v.code, NUM)
            if v.ty in (PW, METHOD, FUNC):
                raise Unsupported("`%s` used as a value" % node.id)
            return v
        if isinstance(node, ast.Constant) and type(node.value) is float:
            return V(float_lit(node.value), NUM)
        if isinstance(node, ast.IfExp):
            return self.ifexp(node, env, pre)
        if isinstance(node, ast.Compare) and len(node.ops) == 1:
            save = list(pre)
            a = self.expr(node.left, env, pre)
            if a.ty in (LNUM, LABS):
                b = self.expr(node.comparators[0], env, pre)
                if not self.numeric(b):
                    raise Unsupported("comparison of a 1-D array with a %s" % b.ty)
                op = type(node.ops[0])
                if a.ty == LNUM:
                    fn = {ast.Gt: "gt", ast.Lt: "lt", ast.NotEq: "ne"}.get(op)
                else:
                    fn = {ast.Gt: "absGt"}.get(op)
                    if fn and not self.nonneg_literal(node.comparators[0]):
                        raise Unsupported("abs(...) compared with something that is not a non-negative literal")
                if fn is None:
                    raise Unsupported("element-wise comparison %s" % ast.unparse(node))
                return V("(PyNorm.%s %s %s)" % (fn, a.code, self.as_num(b)), LBOOL)
            del pre[:]
            pre.extend(save)
            raise Unsupported("comparison %s as a value" % ast.unparse(node)[:60])
        if isinstance(node, ast.UnaryOp) and isinstance(node.op, ast.USub):
            save, save_n = list(pre), self.ntmp
            v = self.expr(node.operand, env, pre)
            if v.ty == NUM:
                return V("(-%s)" % v.code, NUM)
            del pre[:]
            pre.extend(save)
            self.ntmp = save_n
        return super().expr(node, env, pre)

    def ifexp(self, node, env, pre):
        cpre = []
        st, cond = self.test(node.test, env, cpre)
        pre.extend(cpre)
        if st is not None:
            return self.expr(node.body if st else node.orelse, env, pre)
        bpre, epre = [], []
        b = self.expr(node.body, env, bpre)
        e = self.expr(node.orelse, env, epre)
        if b.ty != e.ty or b.ty not in (MAT, NUM):
            raise Unsupported("conditional expression of types %s / %s" % (b.ty, e.ty))
        if not bpre and not epre:
            return V("(if %s then %s else %s)" % (cond, b.code, e.code), b.ty)
        t = self.tmp()
        lines = ["let %s ← (do" % t, "  if %s then" % cond] + _ind(self.value_block(b, bpre), 4) \
            + ["  else"] + _ind(self.value_block(e, epre), 4) + ["  : Except Err (%s))" % LEAN_TY[b.ty]]
        pre.extend(lines)
        return V(t, b.ty)

    def value_block(self, v, pre):
        if pre and pre[-1].startswith("let %s ← " % v.code) and re.fullmatch(r"t\d+", v.code):
            return pre[:-1] + [pre[-1][len("let %s ← " % v.code):]]
        return pre + ["pure %s" % v.code]

    def attribute(self, node, env, pre):
        a = node.attr
        if a in ("real", "flat"):
            v = self.expr(node.value, env, pre)
            if a == "real" and v.ty == LCX:
                return V("(PyNorm.real %s)" % v.code, LNUM)
            if a == "flat" and v.ty == MAT:
                return V("(PyNorm.flat %s)" % v.code, LNUM)
            raise Unsupported("attribute .%s of %s" % (a, v.ty))
        return super().attribute(node, env, pre)

    def binop(self, node, env, pre):
        op = node.op
        if isinstance(op, (ast.Add, ast.Sub, ast.Mult, ast.Pow, ast.Div)):
            save, save_n = list(pre), self.ntmp
            a = self.expr(node.left, env, pre)
            b = self.expr(node.right, env, pre)
            if self.numeric(a) and self.numeric(b) and NUM in (a.ty, b.ty) and not isinstance(op, (ast.Pow, ast.Div)):
                sym = {ast.Add: "+", ast.Sub: "-", ast.Mult: "*"}[type(op)]
                return V("(%s %s %s)" % (self.as_num(a), sym, self.as_num(b)), NUM)
            if isinstance(op, ast.Pow) and a.ty == NUM and b.lit is not None and b.lit >= 0:
                return V("(%s ^ %d)" % (a.code, b.lit), NUM)
            if isinstance(op, ast.Sub) and a.ty == MAT and b.ty == MAT:
                return self.bind(pre, "PMat.sub %s %s" % (a.code, b.code), MAT)
            del pre[:]
            pre.extend(save)
            self.ntmp = save_n
        return super().binop(node, env, pre)

    def call(self, node, env, pre):
        f = self.dotted(node.func)
        args, kws = node.args, {k.arg: k.value for k in node.keywords}
        if f == "float" and len(args) == 1 and not kws and isinstance(args[0], ast.Constant) \
                and args[0].value in ("inf", "Inf", "infinity", "+inf"):
            self.no_rebinding("float")
            return V("inf", INFV)
        if f == "abs" and len(args) == 1 and not kws:
            self.no_rebinding("abs")
            v = self.expr(args[0], env, pre)
            if v.ty == LCX:
                return V("(PyNorm.abs %s)" % v.code, LABS)
            raise Unsupported("abs(%s)" % v.ty)
        if f == "len" and len(args) == 1 and not kws:
            self.no_rebinding("len")
            v = self.expr(args[0], env, pre)
            if v.ty == MAT:
                return V("%s.r" % v.code, NAT)
            raise Unsupported("len(%s)" % v.ty)
        if f == "max" and len(args) == 2 and not kws:
            self.no_rebinding("max")
            a = self.expr(args[0], env, pre)
            b = self.expr(args[1], env, pre)
            if self.numeric(a) and self.numeric(b) and NUM in (a.ty, b.ty):
                return V("(max %s %s)" % (self.as_num(a), self.as_num(b)), NUM)
            raise Unsupported("max(%s, %s)" % (a.ty, b.ty))
        if f == "np.isclose" and len(args) == 2 and not kws:
            self.need_norm("np")
            v = self.expr(args[0], env, pre)
            c = self.expr(args[1], env, pre)
            if not self.numeric(c):
                raise Unsupported("np.isclose(., %s)" % c.ty)
            if v.ty == LNUM:
                return V("(PyNorm.isclose %s %s)" % (v.code, self.as_num(c)), LBOOL)
            if v.ty == LCX:
                return V("(PyNorm.iscloseC %s %s)" % (v.code, self.as_num(c)), LBOOL)
            if v.ty == LABS:
                if not self.nonneg_literal(args[1]):
                    raise Unsupported("abs(...) compared with something that is not a non-negative literal")
                return V("(PyNorm.absIsclose %s %s)" % (v.code, self.as_num(c)), LBOOL)
            raise Unsupported("np.isclose(%s, .)" % v.ty)
        if f == "np.trace" and len(args) == 1 and not kws:
            self.need_norm("np")
            v = self.expr(args[0], env, pre)
            if v.ty == MAT:
                return V("(PyNorm.trace %s)" % v.code, NUM)
            raise Unsupported("np.trace(%s)" % v.ty)
        if f == "np.sqrt" and len(args) == 1 and not kws:
            self.need_norm("np")
            if ast.unparse(args[0]) == "np.finfo(float).eps":
                self.no_rebinding("float")
                return V(self.ext("sqrtEps"), NUM)
            v = self.expr(args[0], env, pre)
            if v.ty == NUM:
                return V("(PyNorm.sqrt %s)" % v.code, SQRTV)
            raise Unsupported("np.sqrt(%s)" % v.ty)
        if f == "la.inv" and len(args) == 1 and not kws:
            self.need_norm("la")
            v = self.expr(args[0], env, pre)
            if v.ty == MAT:
                return self.bind(pre, "PMat.inv %s" % v.code, MAT)
            raise Unsupported("la.inv(%s)" % v.ty)
        if f == "la.eigvals" and len(args) == 1 and not kws:
            self.need_norm("la")
            v = self.expr(args[0], env, pre)
            if v.ty == MAT:
                return V("(%s %s)" % (self.ext("eigvals"), v.code), LCX)
            raise Unsupported("la.eigvals(%s)" % v.ty)
        if f == "la.norm" and len(args) == 1 and set(kws) <= {"ord"}:
            self.need_norm("la")
            v = self.expr(args[0], env, pre)
            if v.ty != MAT:
                raise Unsupported("la.norm(%s)" % v.ty)
            if not kws:
                return V("(%s %s)" % (self.ext("fro"), v.code), NUM)
            if isinstance(kws["ord"], ast.Constant) and kws["ord"].value == 2:
                return V("(%s %s)" % (self.ext("norm2"), v.code), NUM)
            raise Unsupported("la.norm(ord=%s)" % ast.unparse(kws["ord"]))
        if f in ("ct.lyap", "ct.dlyap") and len(args) == 2 and set(kws) <= {"method"}:
            self.need_norm("ct")
            if "method" in kws and not (isinstance(kws["method"], ast.Name) and kws["method"].id in env
                                        and env[kws["method"].id].ty == METHOD):
                raise Unsupported("%s: method= must pass the `method` variable through" % f)
            a = self.expr(args[0], env, pre)
            q = self.expr(args[1], env, pre)
            if a.ty == MAT and q.ty == MAT:
                return self.bind(pre, "PyNorm.callLyap %s %s %s" % (self.ext(f[3:]), a.code, q.code), MAT)
            raise Unsupported("%s(%s, %s)" % (f, a.ty, q.ty))
        if isinstance(node.func, ast.Attribute) and node.func.attr == "poles" and not args and not kws:
            v = self.expr(node.func.value, env, pre)
            if v.ty == SS:
                return V(self.ext("poles"), LCX)
            raise Unsupported("poles() of a %s" % v.ty)
        if isinstance(node.func, ast.Name) and node.func.id in self.nested and not kws:
            name = node.func.id
            if name in self.locals:
                raise Unsupported("`%s` is re-bound" % name)
            lean, free, nparams = self.nested[name]
            if len(args) != nparams:
                raise Unsupported("call %s" % ast.unparse(node)[:60])
            outer = []
            for fv in free:      # a Python closure reads its free variables at call time
                if fv not in env or env[fv].ty != MAT:
                    raise Unsupported("free variable `%s` of %s is not a matrix at the call" % (fv, name))
                outer.append(env[fv].code)
            vals = []
            for a in args:
                v = self.expr(a, env, pre)
                if not self.numeric(v):
                    raise Unsupported("argument of %s is a %s" % (name, v.ty))
                vals.append(self.as_num(v))
            return self.bind(pre, " ".join([lean] + outer + vals), MAT)
        if isinstance(node.func, ast.Name) and node.func.id in self.siblings and not kws:
            name = node.func.id
            if name in self.locals or self.bindings.get(name) != ("def",):
                raise Unsupported("`%s` is not the module's function" % name)
            lean, lead, params, rty = self.siblings[name]
            if len(args) != len(params):
                raise Unsupported("call %s" % ast.unparse(node)[:60])
            vals = []
            for pt, a in zip(params, args):
                v = self.expr(a, env, pre)
                if v.ty != pt:
                    raise Unsupported("argument of %s is a %s" % (name, v.ty))
                vals.append(v.code)
            for e in lead:
                self.ext(e)
            return self.bind(pre, " ".join([lean] + lead + vals), rty)
        return super().call(node, env, pre)

    # -- statements ---------------------------------------------------------------------------
    def let(self, name, v, env, pre):
        if v.ty not in LEAN_TY or v.ty in (SS, DT):
            raise Unsupported("assignment of a %s" % v.ty)
        self.locals.add(name)
        ln = lean_name(name)
        if pre and pre[-1].startswith("let %s ← " % v.code) and re.fullmatch(r"t\d+", v.code) \
                and not pre[-1].endswith("(do"):
            last = pre.pop()
            self.ntmp -= 1
            lines = pre + ["let %s ← %s" % (ln, last[len("let %s ← " % v.code):])]
        else:
            code = v.code
            if v.lit is not None:
                code = "(%d : Int)" % v.lit
            lines = pre + ["let %s : %s := %s" % (ln, LEAN_TY[v.ty], code)]
        env[name] = V(ln, v.ty)
        return lines

    def ret_lines(self, v, pre):
        if self.ret == H2RET:
            if v.ty == INFV:
                return pre + ["pure Norm.H2Val.inf"]
            if v.ty == SQRTV:
                return pre + ["pure (Norm.H2Val.sqrt %s.radicand)" % v.code]
        elif self.ret == LINFRET:
            if v.ty == INFV:
                return pre + ["pure Norm.LinfVal.inf"]
            if v.ty == NUM:
                return pre + ["pure (Norm.LinfVal.val %s)" % v.code]
        elif self.ret == MATRET and v.ty == MAT:
            return self.value_block(v, pre)
        elif self.ret == NUMRET and self.numeric(v):
            return pre + ["pure %s" % self.as_num(v)]
        raise Unsupported("returns a %s where a %s is expected" % (v.ty, self.ret))

    def raise_line(self, s):
        e = s.exc
        if isinstance(e, ast.Call) and self.dotted(e.func) == "ct.ControlArgument" and len(e.args) == 1 \
                and isinstance(e.args[0], ast.Constant) and isinstance(e.args[0].value, str):
            self.need_norm("ct")
            return "throw Err.badArg"        # families/c16.py: classify_exc
        raise Unsupported("raise %s" % ast.unparse(s)[:60])

    def is_warn(self, s):
        return isinstance(s, ast.Expr) and isinstance(s.value, ast.Call) and self.dotted(s.value.func) == "warnings.warn"

    def skippable(self, s, env):
        """statements without effect on the value: `warnings.warn(...)`, `if print_warning: warnings.warn(...)`"""
        if self.is_warn(s):
            self.need_norm("warnings")
            return True
        if isinstance(s, ast.If) and isinstance(s.test, ast.Name) and s.test.id in env and env[s.test.id].ty == PW \
                and not s.orelse and all(self.is_warn(b) for b in s.body):
            self.need_norm("warnings")
            return True
        return False

    def assigned_in_order(self, stmts):
        out = []
        for s in stmts:
            for n in ast.walk(s):
                targets = []
                if isinstance(n, ast.Assign):
                    targets = n.targets
                elif isinstance(n, (ast.AugAssign, ast.AnnAssign)):
                    targets = [n.target]
                elif isinstance(n, (ast.For, ast.With, ast.FunctionDef, ast.Try, ast.NamedExpr, ast.Import,
                                    ast.ImportFrom, ast.Global, ast.Nonlocal, ast.Delete, ast.ClassDef)):
                    raise Unsupported("statement %s inside a block" % type(n).__name__)
                for t in targets:
                    for x in ast.walk(t):
                        if isinstance(x, ast.Name) and isinstance(x.ctx, ast.Store):
                            if x.id not in out:
                                out.append(x.id)
                        elif isinstance(x, (ast.Subscript, ast.Attribute)):
                            raise Unsupported("assignment to %s" % ast.unparse(x)[:40])
        return out

    def seq(self, stmts, env, tail):
        """statement list -> (lines, ended).  `tail`: None = the block must end in return / raise;
        [] = probe; a list of (name, type) = a branch of a join / a loop body: ends with `pure (vars)`"""
        lines = []
        stmts = [s for s in stmts if not self.is_doc(s) and not isinstance(s, ast.Pass)]
        for idx, s in enumerate(stmts):
            rest = stmts[idx + 1:]
            got, ended = self.stmt(s, rest, env, tail)
            lines += got
            if ended is not None:
                return lines, ended
        return self.block_end(lines, env, tail)

    def block_end(self, lines, env, tail):
        if tail is None:
            note = "a path falls off the end of the translated block (Python goes on / returns None): `throw Err.badArg`"
            if note not in self.notes:
                self.notes.append(note)
            return lines + ["throw Err.badArg"], True
        if tail == []:
            return lines, False
        vals = []
        for nm, t in tail:
            if nm not in env:
                raise Unsupported("variable %s is undefined at the end of a block" % nm)
            v = env[nm]
            if t == OPTNUM and v.ty == NUM:
                vals.append("(some %s)" % v.code)
            elif v.ty == t:
                vals.append(v.code)
            elif t == NUM and self.numeric(v):
                vals.append(self.as_num(v))
            else:
                raise Unsupported("variable %s has type %s at the end of a block, expected %s" % (nm, v.ty, t))
        return lines + ["pure %s" % (vals[0] if len(vals) == 1 else "(" + ", ".join(vals) + ")")], False

    def stmt(self, s, rest, env, tail):
        """one statement -> (lines, None) to go on, (lines, ended) when the rest of the block has been consumed"""
        h = self.outlined.get(id(s))
        if h is not None:
            return h(self, s, rest, env, tail)
        if self.skippable(s, env):
            return [], None
        if isinstance(s, ast.Return):
            if s.value is None:
                raise Unsupported("bare return")
            pre = []
            v = self.expr(s.value, env, pre)
            return self.ret_lines(v, pre), True
        if isinstance(s, ast.Raise):
            return [self.raise_line(s)], True
        if isinstance(s, ast.AugAssign) and isinstance(s.target, ast.Name):
            new = ast.Assign(targets=[ast.Name(id=s.target.id, ctx=ast.Store())],
                             value=ast.BinOp(left=ast.Name(id=s.target.id, ctx=ast.Load()), op=s.op, right=s.value))
            ast.copy_location(new, s)
            ast.fix_missing_locations(new)
            return self.stmt(new, rest, env, tail)
        if isinstance(s, ast.Assign) and len(s.targets) == 1 and isinstance(s.targets[0], ast.Name):
            pre = []
            v = self.expr(s.value, env, pre)
            return self.let(s.targets[0].id, v, env, pre), None
        if isinstance(s, ast.While):
            return self.while_stmt(s, rest, env, tail), True
        if isinstance(s, ast.If):
            return self.if_stmt(s, rest, env, tail)
        raise Unsupported("statement %s" % ast.unparse(s)[:60])

    def if_stmt(self, s, rest, env, tail):
        pre = []
        st, cond = self.test(s.test, env, pre)
        if st is True:
            sub, ended = self.seq(list(s.body) + rest, env, tail)
            return pre + sub, ended
        if st is False:
            sub, ended = self.seq(list(s.orelse) + rest, env, tail)
            return pre + sub, ended
        save = (self.ntmp, set(self.locals), list(self.notes), set(self.used_ext))
        benv, eenv = dict(env), dict(env)
        _, b_end = self.seq(list(s.body), benv, [])
        _, e_end = self.seq(list(s.orelse), eenv, [])
        self.ntmp, self.locals, self.notes, self.used_ext = save[0], set(save[1]), list(save[2]), set(save[3])
        names = self.assigned_in_order(list(s.body) + list(s.orelse))
        if b_end or e_end or not names:
            # continuation style: the rest of the block goes into the branch(es) that go on
            benv, eenv = dict(env), dict(env)
            n0 = self.ntmp
            bl, b_end = self.seq(list(s.body) + ([] if b_end else rest), benv, tail)
            n1 = self.ntmp
            self.ntmp = n0
            el, e_end = self.seq(list(s.orelse) + ([] if e_end else rest), eenv, tail)
            self.ntmp = max(n1, self.ntmp)
            return pre + ["if %s then" % cond] + _ind(bl) + ["else"] + _ind(el), (b_end and e_end)
        # join: the variables assigned in a branch that are known afterwards on both paths
        live = []
        for nm in names:
            tb, te = benv.get(nm), eenv.get(nm)
            if tb is None or te is None:
                continue
            if tb.ty != te.ty:
                if self.numeric(tb) and self.numeric(te):
                    live.append((nm, NUM))
                    continue
                raise Unsupported("`%s` has type %s / %s after the branches" % (nm, tb.ty, te.ty))
            if tb.ty not in LEAN_TY:
                raise Unsupported("`%s` of type %s after the branches" % (nm, tb.ty))
            live.append((nm, tb.ty))
        if not live:
            raise Unsupported("an if statement without effect")
        benv, eenv = dict(env), dict(env)
        n0 = self.ntmp
        bl, _ = self.seq(list(s.body), benv, live)
        n1 = self.ntmp
        self.ntmp = n0
        el, _ = self.seq(list(s.orelse), eenv, live)
        self.ntmp = max(n1, self.ntmp)
        tys = [LEAN_TY[t] for _, t in live]
        pat = lean_name(live[0][0]) if len(live) == 1 else "(" + ", ".join(lean_name(nm) for nm, _ in live) + ")"
        ty = tys[0] if len(tys) == 1 else " × ".join(tys)
        lines = pre + ["let %s ← (do" % pat] + _ind(["if %s then" % cond] + _ind(bl) + ["else"] + _ind(el)) \
            + ["  : Except Err (%s))" % ty]
        for nm, t in live:
            env[nm] = V(lean_name(nm), t)
            self.locals.add(nm)
        for nm in names:
            if nm not in [l for l, _ in live]:
                env.pop(nm, None)
        return lines, None

    def while_stmt(self, s, rest, env, tail):
        """`while c: body` followed by the rest of the block (continuation style: out of fuel ends the block)"""
        if s.orelse:
            raise Unsupported("while ... else")
        if self.ret != LINFRET:
            raise Unsupported("a while loop in a block whose result type has no `diverged` value")
        if tail is not None:
            raise Unsupported("a while loop inside a branch that is joined")
        names = self.assigned_in_order(s.body)
        if not names:
            raise Unsupported("a loop without effect")
        # types of the state: a variable that does not exist before the loop may be unassigned (Option)
        probe_env = dict(env)
        save = (self.ntmp, set(self.locals), list(self.notes), set(self.used_ext))
        for n in names:
            if n not in probe_env:
                probe_env.pop(n, None)
        _, ended = self.seq(list(s.body), probe_env, [])
        self.ntmp, self.locals, self.notes, self.used_ext = save[0], set(save[1]), list(save[2]), set(save[3])
        if ended:
            raise Unsupported("return / raise at the end of a loop body")
        state = []
        for n in names:
            if n in env:
                if env[n].ty != NUM and not (self.numeric(env[n]) and probe_env[n].ty == NUM):
                    raise Unsupported("loop state `%s` of type %s" % (n, env[n].ty))
                if probe_env[n].ty != NUM:
                    raise Unsupported("loop state `%s` changes its type" % n)
                state.append((n, NUM, self.as_num(env[n])))
            else:
                if n not in probe_env or probe_env[n].ty != NUM:
                    raise Unsupported("`%s` is not assigned a number on every path of the loop body" % n)
                state.append((n, OPTNUM, "none"))
        tys = [LEAN_TY[t] for _, t, _ in state]
        sty = tys[0] if len(tys) == 1 else " × ".join(tys)
        st = "st%d" % self.next_state()

        def unpack(target_env):
            out = []
            for i, (n, t, _) in enumerate(state):
                proj = st if len(state) == 1 else st + "".join([".2"] * i) + (".1" if i < len(state) - 1 else "")
                out.append("let %s : %s := %s" % (lean_name(n), LEAN_TY[t], proj))
                target_env[n] = V(lean_name(n), t)
            return out
        cenv = dict(env)
        up_c = unpack(cenv)
        cpre = []
        cs, cond = self.test(s.test, cenv, cpre)
        if cs is not None:
            raise Unsupported("a while loop with a constant test")
        benv = dict(env)
        up_b = unpack(benv)
        bl, _ = self.seq(list(s.body), benv, [(n, t) for n, t, _ in state])
        aenv = dict(env)
        for n in names:
            self.locals.add(n)
        up_a = unpack(aenv)
        after, ended = self.seq(rest, aenv, None)
        res = self.tmp()
        init = state[0][2] if len(state) == 1 else "(" + ", ".join(i for _, _, i in state) + ")"
        lines = ["let %s ← PyNorm.whileFuel" % res,
                 "    (fun (%s : %s) => (do" % (st, sty)] + _ind(up_c + cpre + ["pure (decide %s)" % cond], 8) \
            + ["        : Except Err Bool))",
               "    (fun (%s : %s) => (do" % (st, sty)] + _ind(up_b + bl, 8) \
            + ["        : Except Err (%s)))" % sty,
               "    fuel (%s : %s)" % (init, sty),
               "match %s with" % res,
               "| none => pure Norm.LinfVal.diverged   -- out of fuel",
               "| some %s => do" % st] + _ind(up_a + after)
        self.ext("fuel")
        return lines

    def next_state(self):
        self.nstate = getattr(self, "nstate", 0) + 1
        return self.nstate


# -------------------------------------------------------------------------------------------------
# landmarks of `system_norm`
# -------------------------------------------------------------------------------------------------
REL = "control/sysnorm.py"
EXPECTED_PARAMS = ["system", "p", "tol", "print_warning", "method"]
EXPECTED_DEFAULTS = {"p": "2", "tol": "1e-06", "print_warning": "True", "method": "None"}


class Landmarks:
    pass


def find_function(module, func):
    found = [n for n in module.body if isinstance(n, ast.FunctionDef) and n.name == func]
    if len(found) == 1:
        return found[0]
    raise Unsupported("function %s %s" % (func, "not found" if not found else "defined twice"))


def _is_doc(s):
    return isinstance(s, ast.Expr) and isinstance(s.value, ast.Constant) and isinstance(s.value.value, str)


def _contains(stmts, kind):
    return any(isinstance(n, kind) for s in stmts for n in ast.walk(s))


def landmarks(module):
    L = Landmarks()
    fn = find_function(module, "system_norm")
    L.fn = fn
    a = fn.args
    if a.vararg or a.kwarg or a.kwonlyargs or a.posonlyargs:
        raise Unsupported("signature of system_norm")
    got = [x.arg for x in a.args]
    if got != EXPECTED_PARAMS:
        raise Unsupported("parameters %s, expected %s" % (got, EXPECTED_PARAMS))
    defaults = dict(zip(got[len(got) - len(a.defaults):], [ast.unparse(d) for d in a.defaults]))
    if defaults != EXPECTED_DEFAULTS:
        raise Unsupported("default values %s, expected %s" % (defaults, EXPECTED_DEFAULTS))
    # `norm = system_norm` at module level
    hits = [n for n in module.body if isinstance(n, ast.Assign) and len(n.targets) == 1
            and isinstance(n.targets[0], ast.Name) and n.targets[0].id == "norm"]
    defs = [n for n in module.body if isinstance(n, (ast.FunctionDef, ast.ClassDef)) and n.name == "norm"]
    if len(hits) != 1 or defs or not (isinstance(hits[0].value, ast.Name) and hits[0].value.id == "system_norm"):
        raise Unsupported("`norm = system_norm` not found at module level (or norm is bound otherwise)")
    body = [s for s in fn.body if not _is_doc(s)]
    L.gname, L.mats, L.prefix, L.main = None, {}, [], None
    method_seen = False
    for s in body:
        if isinstance(s, ast.If) and L.gname is None and not s.orelse and len(s.body) == 1 \
                and isinstance(s.body[0], ast.Raise) and "isinstance(system" in ast.unparse(s.test):
            continue                     # the type check of `system` (argument processing, not tied)
        if isinstance(s, ast.Assign) and len(s.targets) == 1 and isinstance(s.targets[0], ast.Name):
            t, v = s.targets[0].id, ast.unparse(s.value)
            if v == "ct.ss(system)" and L.gname is None:
                L.gname = t
                continue
            if L.gname and v in ("%s.%s" % (L.gname, r) for r in "ABCD") and L.main is None:
                role = v[-1]
                if role in L.mats or t in L.mats.values() or t in (L.gname, "system", "p", "tol", "print_warning", "method"):
                    raise Unsupported("matrix %s is bound twice / shadows another name" % role)
                L.mats[role] = t
                L.prefix.append(s)
                continue
            if t == "method" and v == "ct.mateqn._slycot_or_scipy(method)" and not method_seen:
                method_seen = True
                continue
        if isinstance(s, ast.If) and L.main is None and ast.unparse(s.test) == "p == 2":
            L.main = s
            continue
        raise Unsupported("unexpected statement at the top level of system_norm: %s" % ast.unparse(s)[:60])
    if L.gname is None or sorted(L.mats) != list("ABCD") or not method_seen or L.main is None:
        raise Unsupported("landmarks of system_norm not found (G = ct.ss(system), the four matrices, "
                          "method = _slycot_or_scipy(method), if p == 2)")
    if L.gname in EXPECTED_PARAMS:
        raise Unsupported("the system variable shadows a parameter")
    L.h2_body = list(L.main.body)
    if len(L.main.orelse) != 1 or not isinstance(L.main.orelse[0], ast.If) \
            or ast.unparse(L.main.orelse[0].test) not in ("p == 'inf'",):
        raise Unsupported("`elif p == \"inf\":` not found after `if p == 2:`")
    second = L.main.orelse[0]
    if not (len(second.orelse) == 1 and isinstance(second.orelse[0], ast.Raise)):
        raise Unsupported("the final `else: raise` of system_norm")
    L.linf_body = list(second.body)
    return L


def linf_landmarks(L):
    """inside `elif p == "inf":` -> (flattened statement list, bilinear `if`, nested def, rest)"""
    body = L.linf_body
    idx = [i for i, s in enumerate(body) if isinstance(s, ast.If) and isinstance(s.test, ast.Compare)
           and isinstance(s.test.left, ast.Name) and s.test.left.id == "method"
           and ast.unparse(s.test) == "method == 'slycot'"]
    if len(idx) != 1:
        raise Unsupported("`if method == 'slycot': ... else:` not found exactly once in the L-infinity branch")
    i = idx[0]
    flat = body[:i] + list(body[i].orelse) + body[i + 1:]
    if not body[i].orelse:
        raise Unsupported("`if method == 'slycot':` without else")
    defs = [s for s in flat if isinstance(s, ast.FunctionDef)]
    if len(defs) != 1:
        raise Unsupported("expected exactly one nested function in the L-infinity branch, found %d" % len(defs))
    d = defs[0]
    k = flat.index(d)
    if k == 0:
        raise Unsupported("no statement before the nested function")
    bil = flat[k - 1]
    if not (isinstance(bil, ast.If) and ast.unparse(bil.test) == "%s.isdtime()" % L.gname and not bil.orelse
            and not _contains(bil.body, ast.Return)):
        raise Unsupported("the `if %s.isdtime():` of the inverse bilinear transformation is not the statement "
                          "before the nested function" % L.gname)
    rest = flat[k + 1:]
    if not rest:
        raise Unsupported("no statement after the nested function")
    for s in flat[:k - 1]:
        if _contains([s], ast.FunctionDef) or _contains([s], ast.While):
            raise Unsupported("loop / def before the inverse bilinear transformation")
    return flat, bil, d, rest


def seg(src, stmts):
    return "\n".join(ast.get_source_segment(src, s) or "" for s in stmts)


def free_variables(fn, bindings):
    """free variables of a nested function in the order of their first occurrence (source order)"""
    params = [a.arg for a in fn.args.args]
    assigned = set()
    for n in ast.walk(fn):
        if isinstance(n, ast.Name) and isinstance(n.ctx, ast.Store):
            assigned.add(n.id)
    names = [n for n in ast.walk(fn) if isinstance(n, ast.Name) and isinstance(n.ctx, ast.Load)]
    names.sort(key=lambda n: (n.lineno, n.col_offset))
    out = []
    for n in names:
        if n.id in params or n.id in assigned or n.id in bindings or n.id in out or hasattr(builtins, n.id):
            continue
        out.append(n.id)
    return out


# -------------------------------------------------------------------------------------------------
# jobs
# -------------------------------------------------------------------------------------------------
EXT_SIG = {"lyap": "(lyap dlyap : PyNorm.LyapFun K)", "eigvals": "(eigvals : PMat K → List (Norm.Pole K))",
           "sqrtEps": "(sqrtEps : K)", "fro": "(fro : PMat K → K)", "norm2": "(norm2 : PMat K → K)",
           "fuel": "(fuel : Nat)", "poles": "(poles : List (Norm.Pole K))"}

JOBS = [
    dict(name="normPsdTol", out="NormH2.lean", ret=NUMRET, ext=["sqrtEps", "fro"]),
    dict(name="normH2", out="NormH2.lean", ret=H2RET, ext=["lyap", "dlyap", "eigvals", "sqrtEps", "fro", "poles"]),
    dict(name="normHamilton", out="NormHam.lean", ret=MATRET, ext=[]),
    dict(name="normLinfBilinear", out="NormBil.lean", ret=QUADRET, ext=["eigvals"]),
    dict(name="normLinfCont", out="NormLoops.lean", ret=LINFRET, ext=["eigvals", "norm2", "fuel"]),
    dict(name="normLinf", out="NormLinf.lean", ret=LINFRET, ext=["eigvals", "norm2", "fuel", "poles"]),
]
FILES = [("NormH2.lean", []), ("NormHam.lean", []), ("NormBil.lean", []), ("NormLoops.lean", ["NormHam"]),
         ("NormLinf.lean", ["NormBil", "NormLoops"])]


def ext_sig(names, blind=False):
    out = []
    for n in names:
        if n == "dlyap":
            continue
        s = EXT_SIG[n]
        if blind:
            s = re.sub(r"\((\w+)( \w+)? :", lambda m: "(_" + m.group(1) + (" _" + m.group(2).strip() if m.group(2) else "") + " :", s)
        out.append(s)
    return " ".join(out)


def lead_args(names):
    return [n for n in names]


class Ctx:
    """what `regenerate` shares between the jobs of one tree"""

    def __init__(self, src, module, bindings):
        self.src, self.module, self.bindings = src, module, bindings
        self.L = None
        self.L_error = None
        self.linf = None
        self.linf_error = None
        self.free = None
        try:
            self.L = landmarks(module)
        except Unsupported as e:
            self.L_error = str(e)
        if self.L is not None:
            try:
                self.linf = linf_landmarks(self.L)
                self.free = free_variables(self.linf[2], bindings)
            except Unsupported as e:
                self.linf_error = str(e)

    def need_L(self):
        if self.L is None:
            raise Unsupported(self.L_error)
        return self.L

    def need_linf(self):
        self.need_L()
        if self.linf is None:
            raise Unsupported(self.linf_error)
        return self.linf


def mat_params(L):
    return [L.mats[r] for r in "ABCD"]


def sibling_psd(job_ext):
    return {"_psd_tol": ("normPsdTol", ["sqrtEps", "fro"], [MAT], NUM)}


def names_of(ctx):
    """lean names of the value parameters: the system, the four matrices (by role), the parameter of
    `_psd_tol`, the free variables and the parameter of the nested function"""
    out = {"G": "G", "mats": ["A", "B", "C", "D"], "P": "P", "free": ["Im", "D", "A", "B", "C", "Ip"], "gamma": "gamma"}
    if ctx is None:
        return out
    if ctx.L is not None:
        out["G"] = lean_name(ctx.L.gname)
        out["mats"] = [lean_name(x) for x in mat_params(ctx.L)]
    if ctx.linf is not None:
        out["free"] = [lean_name(f) for f in ctx.free]
        d = ctx.linf[2]
        if len(d.args.args) == 1:
            out["gamma"] = lean_name(d.args.args[0].arg)
    try:
        fn = find_function(ctx.module, "_psd_tol")
        if len(fn.args.args) == 1:
            out["P"] = lean_name(fn.args.args[0].arg)
    except Unsupported:
        pass
    return out


def signature_of(job, ctx, blind=False):
    """lean signature - also for a failed translation"""
    u = "_" if blind else ""
    name = job["name"]
    nm = names_of(ctx)
    exts = [e for e in job["ext"] if e != "poles"]
    es = ext_sig(exts, blind)
    mats = " ".join(u + x for x in nm["mats"])
    if name == "normPsdTol":
        return "%s (%s%s : PMat K)" % (es, u, nm["P"])
    if name == "normH2":
        return "%s (%s%s : DSS K) %s" % (es, u, nm["G"], ext_sig(["poles"], blind))
    if name == "normHamilton":
        return "(%s : PMat K) (%s%s : K)" % (" ".join(u + f for f in nm["free"]), u, nm["gamma"])
    if name == "normLinfBilinear":
        return "%s (%s : PMat K)" % (es, mats)
    if name == "normLinfCont":
        return "%s (%s : PMat K) (%stol : K)" % (es, mats, u)
    if name == "normLinf":
        return "%s (%s%s : DSS K) %s (%stol : K)" % (es, u, nm["G"], ext_sig(["poles"], blind), u)
    raise KeyError(name)


def translate(job, ctx):
    """-> (lean lines of the body, text that was translated, notes, ntmp)"""
    name = job["name"]
    src, bindings = ctx.src, ctx.bindings
    if name == "normPsdTol":
        fn = find_function(ctx.module, "_psd_tol")
        a = fn.args
        if a.vararg or a.kwarg or a.kwonlyargs or a.posonlyargs or a.defaults or len(a.args) != 1:
            raise Unsupported("signature of _psd_tol")
        if a.args[0].arg in bindings or hasattr(builtins, a.args[0].arg):
            raise Unsupported("parameter of _psd_tol shadows a module-level name / builtin")
        tr = NormTranslator(job, bindings, job["ext"], job["ret"])
        env = {a.args[0].arg: V(lean_name(a.args[0].arg), MAT)}
        lines, _ = tr.seq(fn.body, env, None)
        return lines, ast.get_source_segment(src, fn), tr.notes, tr.ntmp
    L = ctx.need_L()
    base = {L.gname: V(lean_name(L.gname), SS), "method": V("()", METHOD), "print_warning": V("()", PW)}
    if name == "normH2":
        tr = NormTranslator(job, bindings, job["ext"], job["ret"], siblings=sibling_psd(job["ext"]))
        env = dict(base)
        stmts = L.prefix + L.h2_body
        lines, _ = tr.seq(stmts, env, None)
        return lines, seg(src, stmts), tr.notes, tr.ntmp
    flat, bil, d, rest = ctx.need_linf()
    nested = {d.name: ("normHamilton", ctx.free, len(d.args.args))}
    if name == "normHamilton":
        a = d.args
        if a.vararg or a.kwarg or a.kwonlyargs or a.posonlyargs or a.defaults or len(a.args) != 1:
            raise Unsupported("signature of the nested function")
        if d.decorator_list:
            raise Unsupported("decorated nested function")
        tr = NormTranslator(job, bindings, job["ext"], job["ret"])
        env = {f: V(lean_name(f), MAT) for f in ctx.free}
        if a.args[0].arg in env or a.args[0].arg in bindings or hasattr(builtins, a.args[0].arg):
            raise Unsupported("parameter of the nested function shadows a free variable / module-level name / builtin")
        env[a.args[0].arg] = V(lean_name(a.args[0].arg), NUM)
        lines, _ = tr.seq(d.body, env, None)
        return lines, ast.get_source_segment(src, d), tr.notes, tr.ntmp
    mats = mat_params(L)
    menv = {py: V(lean_name(py), MAT) for py in mats}
    if name == "normLinfBilinear":
        tr = NormTranslator(job, bindings, job["ext"], job["ret"])
        env = dict(menv)
        lines, ended = tr.seq(list(bil.body), env, [(py, MAT) for py in mats])
        if ended:
            raise Unsupported("the inverse bilinear block ends in return / raise")
        return lines, seg(src, bil.body), tr.notes, tr.ntmp
    if name == "normLinfCont":
        tr = NormTranslator(job, bindings, job["ext"], job["ret"], nested=nested)
        env = dict(menv)
        env["tol"] = V("tol", NUM)
        env["print_warning"] = V("()", PW)
        lines, _ = tr.seq(rest, env, None)
        return lines, seg(src, rest), tr.notes, tr.ntmp
    if name == "normLinf":
        def h_bil(tr, s, rest_, env, tail):
            for py in mats:
                if py not in env or env[py].ty != MAT:
                    raise Unsupported("matrix `%s` is not available before the inverse bilinear block" % py)
            pre = []
            st, cond = tr.test(s.test, env, pre)
            if st is not None or pre:
                raise Unsupported("test of the inverse bilinear block")
            cur = [env[py].code for py in mats]
            new = [lean_name(py) for py in mats]
            lines = ["let (%s) ← (do" % ", ".join(new),
                     "  if %s then" % cond,
                     "    normLinfBilinear eigvals %s" % " ".join(cur),
                     "  else",
                     "    pure (%s)" % ", ".join(cur),
                     "  : Except Err (%s))" % RET_TY[QUADRET]]
            tr.ext("eigvals")
            for py in mats:
                env[py] = V(lean_name(py), MAT)
                tr.locals.add(py)
            return lines, None

        def h_def(tr, s, rest_, env, tail):
            return [], None

        def h_rest(tr, s, rest_, env, tail):
            for py in mats:
                if py not in env or env[py].ty != MAT:
                    raise Unsupported("matrix `%s` is not available before the loops" % py)
            if "tol" not in env or env["tol"].ty != NUM:
                raise Unsupported("`tol` is re-bound")
            for e in ("eigvals", "norm2", "fuel"):
                tr.ext(e)
            return ["normLinfCont eigvals norm2 fuel %s %s" % (" ".join(env[py].code for py in mats), env["tol"].code)], True
        outlined = {id(bil): h_bil, id(d): h_def, id(rest[0]): h_rest}
        tr = NormTranslator(job, bindings, job["ext"], job["ret"], outlined=outlined)
        env = dict(base)
        env["tol"] = V("tol", NUM)
        stmts = L.prefix + flat
        lines, _ = tr.seq(stmts, env, None)
        head = [s for s in flat if s is not bil and s is not d and s not in rest]
        return lines, seg(src, L.prefix + head), tr.notes, tr.ntmp
    raise KeyError(name)


WHAT = {
    "normPsdTol": "`_psd_tol`",
    "normH2": "`system_norm`: the matrix assignments and the body of `if p == 2:`",
    "normHamilton": "`system_norm`: the nested function that builds the Hamiltonian matrix (leading parameters = its "
                    "free variables in the order of their first occurrence)",
    "normLinfBilinear": "`system_norm`: the body of the `if G.isdtime():` before the nested function (inverse "
                        "bilinear transformation); returns the re-bound matrices (A, B, C, D)",
    "normLinfCont": "`system_norm`: the statements after the nested function (bounds, identities, doubling loop, "
                    "bisection loop)",
    "normLinf": "`system_norm`: the matrix assignments and the body of `elif p == \"inf\":`, the three blocks above "
                "as calls",
}


def regenerate(repo, lean_dir, only=None):
    """Rewrite Generated/Norm*.lean; returns (list of problems, info dict).  The files are deterministic
    functions of the source text (no timestamps) and rewritten only when changed."""
    problems, info = [], {}
    gen_dir = os.path.join(lean_dir, "CtrlVerif", "Generated")
    os.makedirs(gen_dir, exist_ok=True)
    path = os.path.join(repo, REL)
    ctx, load_error = None, None
    try:
        src = open(path).read()
        module = ast.parse(src)
        ctx = Ctx(src, module, module_bindings(module))
    except (OSError, SyntaxError) as e:
        load_error = str(e)
    texts = {out: [] for out, _ in FILES}
    for job in JOBS:
        if only and job["name"] not in only:
            continue
        where = REL + ":" + job["name"]
        try:
            if load_error:
                raise Unsupported(load_error)
            lines, text, notes, ntmp = translate(job, ctx)
            sha = hashlib.sha256(text.encode()).hexdigest()
            info[job["name"]] = {"sha": sha, "lines": text.count("\n") + 1, "temporaries": ntmp, "notes": notes}
            doc = "/-- %s as the source text says it (sha256 of the translated text\n%s).%s -/\n" % (
                WHAT[job["name"]], sha, "".join("\n  note: " + n.replace("-/", "- /") for n in notes))
            lean = doc + "def %s %s :\n    Except Err (%s) :=\n  do\n" % (job["name"], signature_of(job, ctx), RET_TY[job["ret"]]) \
                + "\n".join(_ind(lines, 4)) + "\n"
        except Unsupported as e:
            msg = str(e).replace("\n", " ").replace("-/", "- /")[:300]
            problems.append("py2lean_norm: %s cannot be translated: %s" % (where, msg))
            lean = "/-- translation of %s FAILED: %s -/\ndef %s %s :\n    Except Err (%s) :=\n  .error Err.notImplemented\n" % (
                WHAT[job["name"]], msg, job["name"], signature_of(job, ctx, blind=True), RET_TY[job["ret"]])
        texts[job["out"]].append(lean)
    for out, deps in FILES:
        jobs = [j for j in JOBS if j["out"] == out and not (only and j["name"] not in only)]
        if not jobs:
            continue
        shas = ", ".join("%s %s" % (j["name"], info[j["name"]]["sha"][:16] if j["name"] in info else "FAILED") for j in jobs)
        text = ("-- GENERATED on every run by harness/core/py2lean_norm.py from %s (%s).  Do not edit.\n" % (REL, shas)
                + "import CtrlVerif.Model.PyNorm\n"
                + "".join("import CtrlVerif.Generated.%s\n" % d for d in deps)
                + "\nnamespace CtrlVerif.Generated\n\nopen CtrlVerif\n\nnoncomputable section\n\n"
                + "variable {K : Type} [Field K] [LinearOrder K]\n\n"
                + "\n".join(texts[out]) + "\nend\n\nend CtrlVerif.Generated\n")
        p = os.path.join(gen_dir, out)
        old = open(p).read() if os.path.exists(p) else None
        if old != text:
            with open(p, "w") as f:
                f.write(text)
    return problems, info


if __name__ == "__main__":
    probs, inf = regenerate(sys.argv[1], sys.argv[2])
    for p in probs:
        print("PROBLEM", p)
    for k, v in inf.items():
        print(k, v["sha"][:16], v["lines"], "lines,", v["temporaries"], "temporaries", v["notes"])
