"""Translator Python `ast` -> Lean 4 for SIGNAL LOOK-UP and the PRE-PROCESSING OF `interconnect()`
(property C07, tag py2lean-interconnect, notes/NOTES-py2lean-interconnect.md).  It extends the tie of
`core/py2lean_ic.py` (which it imports; nothing there is edited) and regenerates on every run

  Generated/ICXFind.lean   `InputOutputSystem._find_signals` (whole body), `find_input`, `find_inputs`,
                           `find_output`, `find_outputs` (whole bodies)             control/iosys.py
  Generated/ICXPre.lean    statement groups of `interconnect()` (control/nlsys.py), each located by a
                           structural pattern that must match EXACTLY ONCE:
                             icxImplicit        the body of `if connections is None:` (the implicit-connection loop)
                             icxNormalize       the `else:` branch (a flat list of str / tuple is ONE connection)
                             icxPreConnections  the loop `for connection in connections:` that parses every
                                                connection with `_parse_spec` (calls the generated `icParseSpec`)
                             icxCheckInputs / icxCheckOutputs   "`inputs` incompatible with `inplist`" (idem outputs)
                             icxAddUnused       the two loops of the `if add_unused:` branch that append the
                                                dropped signals to `inplist` / `outlist` AND their labels to
                                                `inputs` / `outputs`

`Props/C07GenX*.lean` prove the hand-written model (`Model/Interconnect.lean`: `findSignals`, `withBase`,
`implicitConnections`, `normConns`, `unusedLabels`, …) EQUAL to the generated functions.  A semantic
edit of the source breaks a proof obligation; an edit that leaves the subset makes the translation fail
(the emitted definition is `.error .notImplemented` for every argument, which cannot equal the model).

Value model: `Model/PyIC.lean` (re-used) + `Model/PyICX.lean` (new, small, trusted).  Strings are
tokenised by the harness (convention kept): `re.match(<literal pattern>, x)` is translated by its
literal pattern to a projection of the token (`PyICX.reSlice`, `reBase`, `reIdx`, `reNameIdx`); a
signal dictionary is its key list in dictionary order.

Subset: `x = e`, `x.append(e)`, `x[0].append(e)` on `[[]] * n`, `if / elif / else`, `for x in <list | dict
keys | zip | pairs>`, `return e`, `raise`; expressions: names, None / int / '' constants, `[x]`, `[]`, `a if c else b`, `not / and /
or`, `is None`, `== >= < > !=`, `len`, `int(group)`, `m.group(k)`, `any([.. for ..])`, `all([.. for ..])`,
`isinstance`, attribute reads of a subsystem, `a + "." + b`, `x in labels`.  Effects (what can raise) are
bound left to right; a `for` is `List.foldlM` over the tuple of re-bound variables.  Three
flow-sensitive refinements make partial operations total without defaults: `if m:` / `m and …` on a
match object binds its groups, `x is None or …` binds the value of `x`, `A if g == '' else B` binds
the value of a digit group in `B` (`int(g)` outside such a guard is not translatable).
"""
import ast
import hashlib
import os

from core.py2lean import Unsupported
from core.py2lean_select import find_def, write_if_changed, _lean_str
from core.py2lean_ic import lean_name, _ind, literal_text, classify_raise, sha_of, failed_def

PAT_SLICE = r'([\w$]+)\[([\d]*):([\d]*)\]$'
PAT_BASE = r'([\w$]+)$'
PAT_IDX = r'([\w$]+)\[([\d]+)\]$'
PAT_SUFFIX = r'\[([\d]+)\]$'

LT = {"VAL": "Val K", "LABEL": "Label", "STRING": "String", "NAT": "Nat", "INT": "Int", "BOOL": "Bool",
      "ONAT": "Option Nat", "SYS": "SysSig", "PAIR": "Nat × Nat", "DICTK": "IC.Dict",
      "MSLICE": "Option (String × Option Nat × Option Nat)", "MBASE": "Option String",
      "MIDX": "Option (String × Nat)", "MNIDX": "Option Nat",
      "GSLICE": "String × Option Nat × Option Nat", "GBASE": "String", "GIDX": "String × Nat", "GNIDX": "Nat",
      "UNIT": "Unit", "SPEC3": "Int × List Int × K"}
REFINE = {"MSLICE": "GSLICE", "MBASE": "GBASE", "MIDX": "GIDX", "MNIDX": "GNIDX", "ONAT": "NAT"}
# groups of a refined match object: (projection, type); a digit group that may be empty is ODIG
GROUPS = {"GSLICE": {1: (".1", "STRING"), 2: (".2.1", "ODIG"), 3: (".2.2", "ODIG")},
          "GBASE": {1: ("", "STRING")},
          "GIDX": {1: (".1", "STRING"), 2: (".2", "DIG")},
          "GNIDX": {1: ("", "DIG")}}
LT["ODIG"] = "Option Nat"
LT["DIG"] = "Nat"


def lty(t):
    if t.startswith("ALIAS:"):
        return "List (%s)" % lty(t[6:])
    if t.startswith("PROD<"):
        a, b = t[5:-1].split(";")
        return "(%s) × (%s)" % (lty(a), lty(b))
    if t.startswith("LIST:"):
        return "List (%s)" % lty(t[5:])
    if t == "EMPTY":
        return "List _"
    return LT[t]


class E:
    def __init__(self, code, ty):
        self.code, self.ty = code, ty


def par(c):
    c = c.strip()
    if all(ch.isalnum() or ch in "_.'" for ch in c) or (c[0] == "(" and c[-1] == ")" and _balanced(c)):
        return c
    return "(" + c + ")"


def _balanced(c):
    d = 0
    for k, ch in enumerate(c):
        d += ch == "("
        d -= ch == ")"
        if d == 0 and k < len(c) - 1:
            return False
    return True


class X:
    """statement lists -> lines of a Lean `do` block in `Except Err`"""

    def __init__(self, hints=None):
        self.n = 0
        self.hints = hints if hints is not None else {}
        self.notes = []
        self.fresh = {}

    def tmp(self):
        self.n += 1
        return "t%d" % self.n

    # ---- expressions ------------------------------------------------------------------------------
    def const_str(self, node):
        return node.value if isinstance(node, ast.Constant) and isinstance(node.value, str) else None

    def expr(self, node, env, pre, want=None):
        if isinstance(node, ast.Name):
            if node.id not in env:
                raise Unsupported("unknown name %s" % node.id)
            return env[node.id]
        if isinstance(node, ast.Constant):
            v = node.value
            if v is None:
                return E("none", "NONE")
            if isinstance(v, bool):
                return E("true" if v else "false", "BOOL")
            if isinstance(v, int) and v >= 0:
                return E("(%d : Nat)" % v, "NAT")
            if isinstance(v, str):
                return E(_lean_str(v), "STRING")
            raise Unsupported("constant %r" % (v,))
        if isinstance(node, ast.List):
            if not node.elts:
                return E("[]", want if (want or "").startswith("LIST:") else "EMPTY")
            items = [self.expr(e, env, pre) for e in node.elts]
            tys = {i.ty for i in items}
            if len(tys) == 1:
                return E("[%s]" % ", ".join(i.code for i in items), "LIST:" + items[0].ty)
            raise Unsupported("list display %s" % ast.unparse(node)[:60])
        if isinstance(node, ast.Tuple):
            items = [self.expr(e, env, pre) for e in node.elts]
            if [i.ty for i in items] == ["NAT", "NAT"]:
                return E("(%s, %s)" % (items[0].code, items[1].code), "PAIR")
            raise Unsupported("tuple display %s" % ast.unparse(node)[:60])
        if isinstance(node, ast.IfExp):
            return self.ifexp(node, env, pre)
        if isinstance(node, (ast.BoolOp, ast.Compare)) or (isinstance(node, ast.UnaryOp) and isinstance(node.op, ast.Not)):
            return E(self.truth(node, env, pre), "BOOL")
        if isinstance(node, ast.Call):
            return self.call(node, env, pre)
        if isinstance(node, ast.Attribute):
            return self.attribute(node, env, pre)
        if isinstance(node, ast.BinOp) and isinstance(node.op, ast.Mult) and isinstance(node.left, ast.List) \
                and len(node.left.elts) == 1 and isinstance(node.left.elts[0], ast.List) and not node.left.elts[0].elts:
            # [[]] * n : n references to ONE empty list
            n = self.expr(node.right, env, pre)
            if n.ty != "NAT":
                raise Unsupported("[[]] * <%s>" % n.ty)
            return E("(List.replicate %s [])" % par(n.code), want if (want or "").startswith("ALIAS:") else "ALIAS:EMPTY")
        if isinstance(node, ast.BinOp) and isinstance(node.op, ast.Add):
            return self.add(node, env, pre)
        if isinstance(node, ast.Subscript):
            return self.subscript(node, env, pre)
        raise Unsupported("expression %s" % ast.unparse(node)[:60])

    def subscript(self, node, env, pre):
        base = self.expr(node.value, env, pre)
        sl = node.slice
        if base.ty == "VAL" and isinstance(sl, ast.Constant) and isinstance(sl.value, int) and sl.value >= 0:
            return self.bind(pre, "PyIC.getItem %s (%d : Int)" % (base.code, sl.value), "VAL")
        if base.ty == "VAL" and isinstance(sl, ast.Slice) and sl.upper is None and sl.step is None \
                and isinstance(sl.lower, ast.Constant) and isinstance(sl.lower.value, int) and sl.lower.value >= 0:
            return self.bind(pre, "PyIC.dropFrom %s %d" % (base.code, sl.lower.value), "VAL")
        idx = self.expr(node.slice, env, pre)
        if base.ty == "LIST:SYS" and idx.ty == "NAT":
            return E("(%s, %s)" % (base.code, idx.code), "SYSAT")
        if base.ty == "LABELSAT" and idx.ty == "NAT":
            sl, si, d = base.code
            t = self.tmp()
            pre.append("let %s ← PyICX.labelAt %s %s (%s, %s)" % (t, sl, d, si, idx.code))
            return E(t, "STRING")
        raise Unsupported("subscript %s" % ast.unparse(node)[:60])

    def attribute(self, node, env, pre):
        base = self.expr(node.value, env, pre)
        if base.ty == "SYS":
            m = {"input_index": ("PyICX.inputIndex", "LIST:LABEL"), "output_index": ("PyICX.outputIndex", "LIST:LABEL"),
                 "input_labels": ("PyICX.inputIndex", "LIST:LABEL"), "output_labels": ("PyICX.outputIndex", "LIST:LABEL"),
                 "name": ("SysSig.name", "STRING")}
            if node.attr in m:
                f, t = m[node.attr]
                return E("(%s %s)" % (f, base.code), t)
        if base.ty == "SYSAT" and node.attr in ("input_labels", "output_labels"):
            sl, si = base.code[1:-1].split(", ")
            return E((sl, si, ".input" if node.attr == "input_labels" else ".output"), "LABELSAT")
        if base.ty == "NEWSYS" and node.attr == "syslist":
            return E(base.code, "LIST:SYS")
        raise Unsupported("attribute %s" % ast.unparse(node)[:60])

    def add(self, node, env, pre):
        # sysname + "." + label  (a dotted signal name)
        if isinstance(node.left, ast.BinOp) and isinstance(node.left.op, ast.Add) and self.const_str(node.left.right) == ".":
            a = self.expr(node.left.left, env, pre)
            b = self.expr(node.right, env, pre)
            if a.ty == "STRING" and b.ty == "LABEL":
                return E("(PyICX.dotted %s %s)" % (par(a.code), par(b.code)), "VAL")
        a = self.expr(node.left, env, pre)
        b = self.expr(node.right, env, pre)
        if a.ty.startswith("LIST:") and b.ty == a.ty:
            return E("(%s ++ %s)" % (a.code, b.code), a.ty)
        raise Unsupported("`+` in %s" % ast.unparse(node)[:60])

    def ifexp(self, node, env, pre):
        # A if g == '' else B with g a digit group that may be empty: B sees the value of g
        t = node.test
        if isinstance(t, ast.Compare) and len(t.ops) == 1 and isinstance(t.ops[0], ast.Eq) and self.const_str(t.comparators[0]) == "":
            g = self.expr(t.left, env, pre)
            if g.ty == "ODIG":
                a = self.expr(node.body, env, pre)
                v = self.tmp()
                b = self.scoped_pure(lambda p: self.expr(node.orelse, dict(env, **{"?digits:" + g.code: E(v, "NAT")}), p))
                ra, rb = self.join2(a, b)
                return E("(match %s with | none => %s | some %s => %s)" % (g.code, ra.code, v, rb.code), ra.ty)
        c = self.truth(t, env, pre)
        a = self.scoped_pure(lambda p: self.expr(node.body, env, p))
        b = self.scoped_pure(lambda p: self.expr(node.orelse, env, p))
        ra, rb = self.join2(a, b)
        return E("(if %s then %s else %s)" % (c, ra.code, rb.code), ra.ty)

    def join2(self, a, b):
        if a.ty == b.ty:
            return a, b
        if a.ty == "NONE" and b.ty == "NAT":
            return E("none", "ONAT"), E("(some %s)" % b.code, "ONAT")
        if b.ty == "NONE" and a.ty == "NAT":
            return E("(some %s)" % a.code, "ONAT"), E("none", "ONAT")
        if a.ty == "NONE" and b.ty.startswith("LIST:"):
            return E("none", "OPT:" + b.ty), E("(some %s)" % b.code, "OPT:" + b.ty)
        if b.ty == "NONE" and a.ty.startswith("LIST:"):
            return E("(some %s)" % a.code, "OPT:" + a.ty), E("none", "OPT:" + a.ty)
        raise Unsupported("branches of types %s / %s" % (a.ty, b.ty))

    def scoped_pure(self, f):
        p = []
        r = f(p)
        if p:
            raise Unsupported("an operation that can raise inside a conditional expression / test")
        return r

    def call(self, node, env, pre):
        f = node.func
        fn = ast.unparse(f)
        if fn == "re.match" and len(node.args) == 2 and not node.keywords:
            pat = self.const_str(node.args[0])
            if pat is not None:
                x = self.expr(node.args[1], env, pre)
                if pat == PAT_SLICE and x.ty == "VAL":
                    return self.bind(pre, "PyICX.reSlice %s" % x.code, "MSLICE")
                if pat == PAT_BASE and x.ty == "VAL":
                    return self.bind(pre, "PyICX.reBase %s" % x.code, "MBASE")
                if pat == PAT_IDX and x.ty == "LABEL":
                    return E("(PyICX.reIdx %s)" % x.code, "MIDX")
                raise Unsupported("re.match with pattern %r on a %s" % (pat, x.ty))
            p = node.args[0]
            if isinstance(p, ast.BinOp) and isinstance(p.op, ast.Add) and self.const_str(p.right) == PAT_SUFFIX:
                nm = self.expr(p.left, env, pre)
                x = self.expr(node.args[1], env, pre)
                if nm.ty == "VAL" and x.ty == "LABEL":
                    return E("(PyICX.reNameIdx %s %s)" % (nm.code, x.code), "MNIDX")
            raise Unsupported("re.match(%s, …)" % ast.unparse(node.args[0])[:50])
        if isinstance(f, ast.Attribute) and f.attr == "group" and len(node.args) == 1:
            m = self.expr(f.value, env, pre)
            k = node.args[0].value if isinstance(node.args[0], ast.Constant) else None
            if m.ty in GROUPS and k in GROUPS[m.ty]:
                proj, t = GROUPS[m.ty][k]
                return E(m.code + proj, t)
            raise Unsupported("`%s` on a %s (a match object is usable only under a test of its truth)" % (ast.unparse(node), m.ty))
        if fn == "int" and len(node.args) == 1:
            g = self.expr(node.args[0], env, pre)
            if g.ty == "DIG":
                return E(g.code, "NAT")
            if g.ty == "ODIG" and ("?digits:" + g.code) in env:
                return env["?digits:" + g.code]
            raise Unsupported("int(%s): a %s (possibly empty digit group outside a `== ''` guard)" % (ast.unparse(node.args[0]), g.ty))
        if isinstance(f, ast.Attribute) and f.attr == "get" and len(node.args) in (1, 2) and not node.keywords:
            d = self.expr(f.value, env, pre)
            if len(node.args) == 2 and not (isinstance(node.args[1], ast.Constant) and node.args[1].value is None):
                raise Unsupported("default of .get")
            key = self.expr(node.args[0], env, pre)
            if d.ty == "LIST:LABEL" and key.ty == "LABEL":
                return E("(PyICX.dictGet %s %s)" % (d.code, key.code), "ONAT")
            if d.ty == "LIST:LABEL" and key.ty == "VAL":
                return E("(PyICX.dictGetVal %s %s)" % (d.code, key.code), "ONAT")
            raise Unsupported(".get on %s with key %s" % (d.ty, key.ty))
        if fn == "_parse_spec" and len(node.args) == 3 and not node.keywords:
            sl = self.expr(node.args[0], env, pre)
            x = self.expr(node.args[1], env, pre)
            what = self.const_str(node.args[2])
            if sl.ty == "LIST:SYS" and x.ty == "VAL" and what is not None:
                return self.bind(pre, 'icParseSpec %s %s %s none' % (sl.code, x.code, _lean_str(what)), "SPEC3")
            raise Unsupported("call %s" % ast.unparse(node)[:60])
        if fn == "zip" and len(node.args) == 2 and not node.keywords:
            a = self.expr(node.args[0], env, pre)
            b = self.expr(node.args[1], env, pre)
            ta = a.ty[5:] if a.ty.startswith("LIST:") else None
            tb = b.ty[5:] if b.ty.startswith("LIST:") else (b.ty[6:] if b.ty.startswith("ALIAS:") else None)
            if ta is None or tb is None or ";" in ta + tb:
                raise Unsupported("zip of %s and %s" % (a.ty, b.ty))
            return E("(List.zip %s %s)" % (a.code, b.code), "LIST:PROD<%s;%s>" % (ta, tb))
        if fn == "len" and len(node.args) == 1:
            x = self.expr(node.args[0], env, pre)
            if x.ty.startswith("LIST:") or x.ty == "EMPTY":
                return E("%s.length" % par(x.code), "NAT")
            if x.ty == "VAL":
                t = self.bind(pre, "PyIC.len %s" % x.code, "INT")
                return t
            raise Unsupported("len of %s" % x.ty)
        if fn in ("any", "all") and len(node.args) == 1 and isinstance(node.args[0], (ast.ListComp, ast.GeneratorExp)):
            c = node.args[0]
            if len(c.generators) != 1 or c.generators[0].ifs or not isinstance(c.generators[0].target, ast.Name):
                raise Unsupported("comprehension %s" % ast.unparse(c)[:60])
            it = self.iterable(c.generators[0].iter, env, pre)
            v = lean_name(c.generators[0].target.id)
            body = self.scoped_pure(lambda p: self.truth(c.elt, dict(env, **{c.generators[0].target.id: E(v, it.ty[5:])}), p))
            return E("(%s.%s fun (%s : %s) => %s)" % (par(it.code), fn, v, lty(it.ty[5:]), body), "BOOL")
        if fn == "isinstance" and len(node.args) == 2:
            x = self.expr(node.args[0], env, pre)
            cls = node.args[1].elts if isinstance(node.args[1], ast.Tuple) else [node.args[1]]
            names = [c.id if isinstance(c, ast.Name) else None for c in cls]
            if x.ty == "VAL" and all(n in ("int", "str", "list", "tuple") for n in names):
                return E("(PyIC.isinstance %s [%s])" % (x.code, ", ".join("." + n for n in names)), "BOOL")
            raise Unsupported("isinstance %s" % ast.unparse(node)[:60])
        raise Unsupported("call %s" % ast.unparse(node)[:60])

    def bind(self, pre, code, ty):
        t = self.tmp()
        pre.append("let %s ← %s" % (t, code))
        return E(t, ty)

    def iterable(self, node, env, pre):
        """-> E whose type is LIST:<element type> (effects, e.g. the TypeError of iterating a non-sequence, in pre)"""
        x = self.expr(node, env, pre)
        if x.ty.startswith("LIST:"):
            return x
        if x.ty == "VAL":
            return self.bind(pre, "PyIC.iter %s" % x.code, "LIST:VAL")
        raise Unsupported("iteration over a %s" % x.ty)

    # ---- tests (with the flow-sensitive refinements) ------------------------------------------
    def truth(self, node, env, pre):
        if isinstance(node, ast.UnaryOp) and isinstance(node.op, ast.Not):
            return "(!%s)" % self.truth(node.operand, env, pre)
        if isinstance(node, ast.BoolOp):
            return self.boolop(node.op, list(node.values), env, pre)
        if isinstance(node, ast.Compare):
            return self.compare(node, env, pre)
        v = self.expr(node, env, pre)
        if v.ty == "BOOL":
            return v.code
        if v.ty in ("MSLICE", "MBASE", "MIDX", "MNIDX"):
            return "%s.isSome" % par(v.code)
        if v.ty.startswith("LIST:"):
            return "(!%s.isEmpty)" % par(v.code)
        if v.ty == "VAL":
            return "(PyICX.truthy %s)" % v.code
        raise Unsupported("truth value of a %s: %s" % (v.ty, ast.unparse(node)[:60]))

    def boolop(self, op, vals, env, pre):
        first = vals[0]
        if len(vals) == 1:
            return self.truth(first, env, pre)
        is_and = isinstance(op, ast.And)
        # `m and rest` (m a match object) / `x is None or rest`: rest sees the groups / the value
        ref = None
        if is_and and isinstance(first, ast.Name) and first.id in env and env[first.id].ty in REFINE and env[first.id].ty != "ONAT":
            ref = first.id
        if (not is_and) and isinstance(first, ast.Compare) and len(first.ops) == 1 and isinstance(first.ops[0], ast.Is) \
                and isinstance(first.left, ast.Name) and isinstance(first.comparators[0], ast.Constant) \
                and first.comparators[0].value is None and first.left.id in env and env[first.left.id].ty == "ONAT":
            ref = first.left.id
        if ref is not None:
            old = env[ref]
            v = lean_name(ref) + "_v"
            env2 = dict(env)
            env2[ref] = E(v, REFINE[old.ty])
            rest = self.scoped_pure(lambda p: self.boolop(op, vals[1:], env2, p))
            return "(match %s with | some %s => %s | none => %s)" % (old.code, v, rest, "false" if is_and else "true")
        a = self.truth(first, env, pre)
        pre2 = []
        rest = self.boolop(op, vals[1:], env, pre2)
        if not pre2:
            return "(%s %s %s)" % (a, "&&" if is_and else "||", rest)
        # the remaining operands can raise: they are evaluated only when Python evaluates them
        t = self.tmp()
        pre.append("let %s ← (do" % t)
        pre.append("  if %s then" % (a if is_and else "(!%s)" % a))
        pre.extend(_ind(pre2 + ["pure %s" % rest], 4))
        pre.append("  else")
        pre.append("    pure %s" % ("false" if is_and else "true"))
        pre.append("  : Except Err Bool)")
        return t

    def compare(self, node, env, pre):
        if len(node.ops) != 1:
            raise Unsupported("chained comparison")
        op, a, b = node.ops[0], self.expr(node.left, env, pre), self.expr(node.comparators[0], env, pre)
        if isinstance(op, (ast.Is, ast.IsNot)) and b.ty == "NONE":
            if a.ty in ("ONAT",) or a.ty.startswith("OPT:"):
                c = "%s.isNone" % par(a.code)
            elif a.ty == "VAL":
                c = "(PyIC.isNone %s)" % a.code
            else:
                raise Unsupported("`is None` on a %s" % a.ty)
            return c if isinstance(op, ast.Is) else "(!%s)" % c
        if isinstance(op, (ast.Eq, ast.NotEq)):
            if a.ty == b.ty == "STRING" or a.ty == b.ty == "NAT":
                c = "(%s == %s)" % (a.code, b.code)
            elif a.ty == "ODIG" and b.code == '""':
                c = "%s.isNone" % par(a.code)
            elif {a.ty, b.ty} <= {"INT", "NAT"}:
                c = "((%s : Int) == (%s : Int))" % (a.code, b.code)
            elif a.ty == "VAL" and b.ty in ("INT", "NAT"):
                t = self.bind(pre, "PyIC.toInt %s" % a.code, "INT")
                c = "(%s == (%s : Int))" % (t.code, b.code)
            else:
                raise Unsupported("== on %s / %s" % (a.ty, b.ty))
            return c if isinstance(op, ast.Eq) else "(!%s)" % c
        if isinstance(op, ast.In) and a.ty == "LABEL" and b.ty == "LIST:LABEL":
            return "(PyICX.labelIn %s %s)" % (a.code, b.code)
        sym = {ast.GtE: "≥", ast.Lt: "<", ast.Gt: ">", ast.LtE: "≤"}.get(type(op))
        if sym and a.ty == b.ty == "NAT":
            return "(decide (%s %s %s))" % (a.code, sym, b.code)
        if sym and {a.ty, b.ty} <= {"INT", "NAT"}:
            return "(decide ((%s : Int) %s (%s : Int)))" % (a.code, sym, b.code)
        raise Unsupported("comparison %s" % ast.unparse(node)[:60])

    # ---- statements ------------------------------------------------------------------------------
    def assigned(self, stmts):
        out = []

        def add(n):
            if n not in out:
                out.append(n)
        for s in stmts:
            if isinstance(s, ast.Assign):
                for t in s.targets:
                    for n in ([t] if isinstance(t, ast.Name) else getattr(t, "elts", [])):
                        if isinstance(n, ast.Name):
                            add(n.id)
            elif isinstance(s, ast.AugAssign) and isinstance(s.target, ast.Name):
                add(s.target.id)
            elif isinstance(s, ast.Expr) and isinstance(s.value, ast.Call) and isinstance(s.value.func, ast.Attribute) \
                    and s.value.func.attr == "append" and isinstance(s.value.func.value, ast.Name):
                add(s.value.func.value.id)
            elif self.alias_append(s):
                add(s.value.func.value.value.id)
            elif isinstance(s, ast.If):
                for n in self.assigned(s.body) + self.assigned(s.orelse):
                    add(n)
            elif isinstance(s, ast.For):
                for n in self.assigned(s.body):
                    add(n)
        return out

    def alias_append(self, s):
        """`x[0].append(e)`"""
        return (isinstance(s, ast.Expr) and isinstance(s.value, ast.Call) and isinstance(s.value.func, ast.Attribute)
                and s.value.func.attr == "append" and len(s.value.args) == 1
                and isinstance(s.value.func.value, ast.Subscript) and isinstance(s.value.func.value.value, ast.Name)
                and isinstance(s.value.func.value.slice, ast.Constant) and s.value.func.value.slice.value == 0)

    def set_var(self, name, v, env, lines, effect=False):
        ln = lean_name(name)
        ty = v.ty
        if ty == "EMPTY":
            ty = self.hints.get(name, "EMPTY")
        if ty == "ALIAS:EMPTY":
            ty = self.hints.get(name, "ALIAS:EMPTY")
            if ty == "ALIAS:EMPTY":
                env[name] = E(ln, "ALIAS:EMPTY")
                lines.append("let %s : List (List _) := %s" % (ln, v.code))
                return
        if ty == "EMPTY":
            env[name] = E(ln, "EMPTY")
            self.pending = getattr(self, "pending", {})
            self.pending[name] = len(lines)
            lines.append("let %s : List _ := []" % ln)
            return
        cur = env.get(name)
        if cur is not None and cur.ty == "VAL" and ty in ("LIST:VAL", "LIST:LIST:VAL"):
            # a variable that holds a specification value keeps holding one (a Python list of values is a value)
            v, ty = self.to_val(v), "VAL"
        lines.append("let %s : %s := %s" % (ln, lty(ty), v.code))
        env[name] = E(ln, ty)

    def to_val(self, v):
        if v.ty == "VAL":
            return v
        if v.ty == "LIST:VAL":
            return E("(Val.list %s)" % par(v.code), "VAL")
        if v.ty == "LIST:LIST:VAL":
            return E("(Val.list (%s.map Val.list))" % par(v.code), "VAL")
        if v.ty == "PAIR":
            return E("(PyICX.pairVal %s)" % par(v.code), "VAL")
        raise Unsupported("a %s used as a specification value" % v.ty)

    def append(self, name, elem, env, lines):
        cur = env.get(name)
        if cur is None:
            raise Unsupported("append to unknown %s" % name)
        if cur.ty == "EMPTY":
            self.hints[name] = "LIST:" + elem.ty
            raise Retry()
        if cur.ty != "LIST:" + elem.ty:
            if cur.ty == "LIST:VAL" and elem.ty in ("PAIR", "LIST:VAL"):
                elem = self.to_val(elem)
            elif cur.ty == "LIST:ONAT" and elem.ty == "NAT":
                elem = E("(some %s)" % elem.code, "ONAT")
            else:
                raise Unsupported("append of a %s to a %s" % (elem.ty, cur.ty))
        lines.append("let %s : %s := %s ++ [%s]" % (lean_name(name), lty(cur.ty), cur.code, elem.code))
        env[name] = E(lean_name(name), cur.ty)

    def seq(self, stmts, env, ret_ty=None):
        """-> (lines, ended) ; env is updated in place"""
        lines = []
        for k, s in enumerate(stmts):
            if isinstance(s, ast.Expr) and isinstance(s.value, ast.Constant) and isinstance(s.value.value, str):
                continue
            if isinstance(s, ast.Pass):
                continue
            if isinstance(s, ast.Expr) and isinstance(s.value, ast.Call) and isinstance(s.value.func, ast.Name) \
                    and s.value.func.id == "dprint":
                # the local debugging function of interconnect(): prints only
                continue
            if isinstance(s, ast.Return):
                pre = []
                v = self.expr(s.value, env, pre)
                lines += pre
                self.ret_seen = v.ty
                lines.append("pure %s" % v.code)
                if k != len(stmts) - 1:
                    raise Unsupported("statements after return")
                return lines, True
            if isinstance(s, ast.Raise):
                exc = s.exc
                if not (isinstance(exc, ast.Call) and isinstance(exc.func, ast.Name)):
                    raise Unsupported("raise %s" % ast.unparse(s)[:40])
                kind = classify_x(exc.func.id, literal_text(exc.args[0]) if exc.args else "")
                lines.append("throw Err.%s" % kind)
                return lines, True
            if isinstance(s, ast.Assign) and len(s.targets) == 1 and isinstance(s.targets[0], ast.Name):
                pre = []
                name = s.targets[0].id
                cur = env.get(name)
                v = self.expr(s.value, env, pre, want=self.hints.get(name))
                lines += pre
                self.set_var(name, v, env, lines)
                continue
            if isinstance(s, ast.Expr) and isinstance(s.value, ast.Call) and isinstance(s.value.func, ast.Attribute) \
                    and s.value.func.attr == "append" and isinstance(s.value.func.value, ast.Name) and len(s.value.args) == 1:
                pre = []
                e = self.expr(s.value.args[0], env, pre)
                lines += pre
                self.append(s.value.func.value.id, e, env, lines)
                continue
            if self.alias_append(s):
                nm = s.value.func.value.value.id
                pre = []
                e = self.expr(s.value.args[0], env, pre)
                lines += pre
                cur = env.get(nm)
                if cur is None or not cur.ty.startswith("ALIAS:"):
                    raise Unsupported("`%s`: the list is not known to consist of references to one list" % ast.unparse(s)[:50])
                if cur.ty == "ALIAS:EMPTY":
                    self.hints[nm] = "ALIAS:LIST:" + e.ty
                    raise Retry()
                if cur.ty != "ALIAS:LIST:" + e.ty:
                    raise Unsupported("append of a %s to an element of a %s" % (e.ty, cur.ty))
                lines.append("let %s ← PyICX.aliasedAppend %s %s" % (lean_name(nm), cur.code, e.code))
                env[nm] = E(lean_name(nm), cur.ty)
                continue
            if isinstance(s, ast.If):
                lines += self.if_stmt(s, env)
                continue
            if isinstance(s, ast.For):
                lines += self.for_stmt(s, env)
                continue
            raise Unsupported("statement %s" % ast.unparse(s).split("\n")[0][:70])
        return lines, False

    def state(self, names, env):
        names = [n for n in names if n in env]
        return names

    def pack(self, names, env):
        if not names:
            return "()", "Unit"
        codes = [env[n].code for n in names]
        tys = [lty(env[n].ty) for n in names]
        if len(names) == 1:
            return codes[0], tys[0]
        return "(%s)" % ", ".join(codes), " × ".join(("(%s)" % t) if "×" in t else t for t in tys)

    def pat(self, names):
        if not names:
            return "_"
        if len(names) == 1:
            return lean_name(names[0])
        return "(%s)" % ", ".join(lean_name(n) for n in names)

    def branch(self, stmts, env, names):
        e = dict(env)
        lines, ended = self.seq(stmts, e)
        if not ended:
            for n in names:
                if e[n].ty != env[n].ty:
                    raise Unsupported("`%s` changes its type in a branch (%s -> %s)" % (n, env[n].ty, e[n].ty))
            lines.append("pure %s" % self.pack(names, e)[0])
        return lines

    def if_stmt(self, s, env):
        names = self.state(self.assigned([s]), env)
        _, sty = self.pack(names, env)
        pre = []
        t = s.test
        out = []
        if isinstance(t, ast.Name) and t.id in env and env[t.id].ty in REFINE and env[t.id].ty != "ONAT":
            old = env[t.id]
            v = lean_name(t.id) + "_v"
            env_then = dict(env)
            env_then[t.id] = E(v, REFINE[old.ty])
            a = self.branch(s.body, env_then, names)
            b = self.branch(s.orelse, env, names)
            body = ["match %s with" % old.code, "| some %s =>" % v] + _ind(a) + ["| none =>"] + _ind(b)
        else:
            c = self.truth(t, env, pre)
            a = self.branch(s.body, env, names)
            b = self.branch(s.orelse, env, names)
            body = ["if %s then" % c] + _ind(a) + ["else"] + _ind(b)
        out += pre
        out.append("let %s ← (do" % self.pat(names))
        out += _ind(body)
        out.append("  : Except Err (%s))" % sty)
        for n in names:
            env[n] = E(lean_name(n), env[n].ty)
        return out

    def for_stmt(self, s, env):
        if s.orelse:
            raise Unsupported("for … else")
        pre = []
        it = s.iter
        if isinstance(it, ast.Call) and ast.unparse(it.func) == "enumerate" and len(it.args) == 1:
            raise Unsupported("enumerate")
        src = self.iterable(it, env, pre)
        ety = src.ty[5:]
        tgt = s.target
        benv = dict(env)
        if isinstance(tgt, ast.Name):
            tpat = "(%s : %s)" % (lean_name(tgt.id), lty(ety))
            benv[tgt.id] = E(lean_name(tgt.id), ety)
        elif isinstance(tgt, ast.Tuple) and ety == "PAIR" and len(tgt.elts) == 2 and all(isinstance(e, ast.Name) for e in tgt.elts):
            a, b = (lean_name(e.id) for e in tgt.elts)
            tpat = "((%s, %s) : Nat × Nat)" % (a, b)
            benv[tgt.elts[0].id] = E(a, "NAT")
            benv[tgt.elts[1].id] = E(b, "NAT")
        elif isinstance(tgt, ast.Tuple) and ety.startswith("PROD<") and len(tgt.elts) == 2 \
                and all(isinstance(e, ast.Name) for e in tgt.elts):
            ta, tb = ety[5:-1].split(";")
            a, b = (lean_name(e.id) for e in tgt.elts)
            tpat = "((%s, %s) : %s)" % (a, b, lty(ety))
            benv[tgt.elts[0].id] = E(a, ta)
            benv[tgt.elts[1].id] = E(b, tb)
        else:
            raise Unsupported("loop target %s over %s" % (ast.unparse(tgt), ety))
        names = self.state(self.assigned(s.body), env)
        init, sty = self.pack(names, env)
        for n in names:
            benv[n] = E(lean_name(n), env[n].ty)
        body, ended = self.seq(s.body, benv)
        if ended:
            raise Unsupported("return / raise as the last statement of a loop body")
        for n in names:
            if benv[n].ty != env[n].ty:
                raise Unsupported("`%s` changes its type in a loop (%s -> %s)" % (n, env[n].ty, benv[n].ty))
        body.append("pure %s" % self.pack(names, benv)[0])
        out = pre
        out.append("let %s ← List.foldlM (fun (%s : %s) %s => (do" % (self.pat(names), self.pat(names) if names else "_", sty, tpat))
        out += _ind(body, 4)
        out.append("    : Except Err (%s))) %s %s" % (sty, init, par(src.code)))
        for n in names:
            env[n] = E(lean_name(n), env[n].ty)
        return out


def classify_x(cls, msg):
    """Python exception class + literal message -> Err constructor: the rule of families/c07.py: classify_exc"""
    if cls == "ValueError":
        if "out of range" in msg:
            return "indexRange"
        if "couldn't find" in msg or "could not find" in msg:
            return "unknownName"
        if "inconsistent number" in msg:
            return "shape"
        return "badArg"
    if cls in ("TypeError", "AttributeError"):
        return "badArg"
    if cls == "IndexError":
        return "indexRange"
    raise Unsupported("raise %s" % cls)


class Retry(Exception):
    pass


def run(build):
    """run `build(hints)` until the element types of the empty-list literals are known"""
    hints = {}
    for _ in range(8):
        try:
            return build(hints)
        except Retry:
            continue
    raise Unsupported("element types of list variables do not settle")


HEADER = ("-- GENERATED on every run by harness/core/py2lean_icx.py from %s (%s).  Do not edit.\n"
          "%s\nnamespace CtrlVerif.Generated\n\nopen CtrlVerif CtrlVerif.IC CtrlVerif.PyIC\n\n"
          "variable {K : Type} [Field K] [DecidableEq K]\n\n")


def render(doc, sig, lines):
    if any("List _" in l for l in lines):
        raise Unsupported("the element type of an empty list is not determined")
    return "/-- %s -/\n%s :=\n  do\n%s\n" % (doc.replace("-/", "- /"), sig, "\n".join(_ind(lines, 4)))


# ---- (A) _find_signals, find_input(s), find_output(s) ---------------------------------------------
IOSYS = "control/iosys.py"
FIND_SIG = ("def icxFindSignals (name_list : Val K) (sigdict : List Label) :\n"
            "    Except Err (Option (List (Option Nat)))")


def tr_find_signals(src):
    fn = find_def(src, "InputOutputSystem._find_signals")
    if [a.arg for a in fn.args.args] != ["self", "name_list", "sigdict"] or fn.args.defaults:
        raise Unsupported("parameters of _find_signals")

    def build(hints):
        x = X(hints)
        env = {"name_list": E("name_list", "VAL"), "sigdict": E("sigdict", "LIST:LABEL")}
        lines, ended = x.seq(list(fn.body), env)
        if not ended or x.ret_seen != "OPT:LIST:ONAT":
            raise Unsupported("_find_signals must end in `return None if … else index_list` (got %s)" % getattr(x, "ret_seen", None))
        return lines
    lines = run(build)
    sha = sha_of(src, fn)
    doc = ("`%s:InputOutputSystem._find_signals` as the source text says it (sha256 of the function text\n%s).\n"
           "`sigdict` is the key list of the dictionary in dictionary order; the result is `None` or the list of the\n"
           "`sigdict.get` values." % (IOSYS, sha))
    return render(doc, FIND_SIG, lines), sha


def tr_finder(src, name, lean, attr):
    """find_input / find_output: `return self.<attr>.get(name, None)`; find_inputs / find_outputs:
    `return self._find_signals(name_list, self.<attr>)`"""
    fn = find_def(src, "InputOutputSystem." + name)
    body = [s for s in fn.body if not (isinstance(s, ast.Expr) and isinstance(s.value, ast.Constant))]
    if len(body) != 1 or not isinstance(body[0], ast.Return) or not isinstance(body[0].value, ast.Call):
        raise Unsupported("%s: body is not a single `return <call>`" % name)
    call = body[0].value
    params = [a.arg for a in fn.args.args]
    sha = sha_of(src, fn)
    doc = "`%s:InputOutputSystem.%s` as the source text says it (sha256 of the function text\n%s)." % (IOSYS, name, sha)

    def field(node):
        if isinstance(node, ast.Attribute) and isinstance(node.value, ast.Name) and node.value.id == "self" \
                and node.attr in ("input_index", "output_index"):
            return "self_" + node.attr
        raise Unsupported("%s: %s" % (name, ast.unparse(node)))
    if name in ("find_input", "find_output"):
        if params != ["self", "name"]:
            raise Unsupported("parameters of %s" % name)
        f = call.func
        if not (isinstance(f, ast.Attribute) and f.attr == "get" and len(call.args) == 2 and not call.keywords
                and isinstance(call.args[0], ast.Name) and call.args[0].id == "name"
                and isinstance(call.args[1], ast.Constant) and call.args[1].value is None):
            raise Unsupported("%s: %s" % (name, ast.unparse(call)))
        d = field(f.value)
        sig = "def %s (self_input_index self_output_index : List Label) (name : Val K) :\n    Except Err (Option Nat)" % lean
        return render(doc, sig, ["pure (PyICX.dictGetVal %s name)" % d]), sha
    if params != ["self", "name_list"]:
        raise Unsupported("parameters of %s" % name)
    f = call.func
    if not (isinstance(f, ast.Attribute) and isinstance(f.value, ast.Name) and f.value.id == "self"
            and f.attr == "_find_signals" and len(call.args) == 2 and not call.keywords
            and isinstance(call.args[0], ast.Name) and call.args[0].id == "name_list"):
        raise Unsupported("%s: %s" % (name, ast.unparse(call)))
    d = field(call.args[1])
    sig = ("def %s (self_input_index self_output_index : List Label) (name_list : Val K) :\n"
           "    Except Err (Option (List (Option Nat)))" % lean)
    return render(doc, sig, ["let t1 ← icxFindSignals name_list %s" % d, "pure t1"]), sha


FINDERS = [("find_input", "icxFindInput"), ("find_inputs", "icxFindInputs"),
           ("find_output", "icxFindOutput"), ("find_outputs", "icxFindOutputs")]
FINDER_SIG = {
    "find_input": "def icxFindInput (self_input_index self_output_index : List Label) (name : Val K) :\n    Except Err (Option Nat)",
    "find_output": "def icxFindOutput (self_input_index self_output_index : List Label) (name : Val K) :\n    Except Err (Option Nat)",
    "find_inputs": "def icxFindInputs (self_input_index self_output_index : List Label) (name_list : Val K) :\n    Except Err (Option (List (Option Nat)))",
    "find_outputs": "def icxFindOutputs (self_input_index self_output_index : List Label) (name_list : Val K) :\n    Except Err (Option (List (Option Nat)))",
}


def gen_find(repo, lean_dir):
    problems, info, parts = [], {}, []
    try:
        src = open(os.path.join(repo, IOSYS)).read()
    except OSError as e:
        src = None
        problems.append("py2lean_icx: %s cannot be read: %s" % (IOSYS, e))
    jobs = [("_find_signals", FIND_SIG, lambda: tr_find_signals(src))]
    for name, lean in FINDERS:
        jobs.append((name, FINDER_SIG[name], (lambda n=name, l=lean: tr_finder(src, n, l, None))))
    for name, sig, job in jobs:
        try:
            if src is None:
                raise Unsupported("source not readable")
            text, sha = job()
            info[name] = sha[:16]
        except (Unsupported, SyntaxError, KeyError, AttributeError, IndexError) as e:
            problems.append("py2lean_icx: %s:%s cannot be translated: %s" % (IOSYS, name, e))
            text = failed_def(str(e), sig)
            info[name] = "-"
        parts.append(text)
    head = HEADER % (IOSYS, ", ".join("%s %s" % kv for kv in info.items()), "import CtrlVerif.Model.PyICX\n")
    write_if_changed(os.path.join(lean_dir, "CtrlVerif", "Generated", "ICXFind.lean"),
                     head + "\n".join(parts) + "\nend CtrlVerif.Generated\n")
    return problems, info


# ---- (B) statement groups of interconnect() --------------------------------------------------------
NLSYS = "control/nlsys.py"


def exactly_one(found, what):
    if len(found) != 1:
        raise Unsupported("%s: the structural pattern matches %d times (must match exactly once)" % (what, len(found)))
    return found[0]


def is_name(node, name):
    return isinstance(node, ast.Name) and node.id == name


def test_is(node, name, const):
    """`<name> is <const>`"""
    return (isinstance(node, ast.Compare) and len(node.ops) == 1 and isinstance(node.ops[0], ast.Is)
            and is_name(node.left, name) and isinstance(node.comparators[0], ast.Constant)
            and node.comparators[0].value is const)


class Group:
    """one statement group of `interconnect()`: `locate(fn)` returns the statements, `env` the typed
    free variables (they become the parameters), `results` the variables whose final values are returned"""

    def __init__(self, lean, params, results, locate, doc, skip=()):
        self.lean, self.params, self.results, self.locate, self.doc, self.skip = lean, params, results, locate, doc, skip

    def signature(self):
        binders = " ".join("(%s : %s)" % (lean_name(n), lty(t)) for n, t in self.params if t != "NEWSYS")
        rt = " × ".join(("(%s)" % lty(t)) if "×" in lty(t) else lty(t) for _, t in self.results) or "Unit"
        return "def %s %s :\n    Except Err (%s)" % (self.lean, binders, rt)

    def translate(self, src, fn):
        stmts, text = self.locate(fn)
        skipped = []
        kept = []
        for st in stmts:
            if isinstance(st, ast.Assign) and len(st.targets) == 1 and isinstance(st.targets[0], ast.Name) \
                    and st.targets[0].id in self.skip:
                skipped.append(ast.unparse(st))
            elif isinstance(st, ast.Expr) and isinstance(st.value, ast.Call) and is_name(st.value.func, "dprint"):
                skipped.append(ast.unparse(st)[:40])
            else:
                kept.append(st)

        def build(hints):
            x = X(hints)
            env = {n: E(lean_name(n) if t != "NEWSYS" else "syslist", t) for n, t in self.params}
            lines, ended = x.seq(kept, env)
            if ended:
                raise Unsupported("%s: the group ends in return / raise" % self.lean)
            out = []
            for n, t in self.results:
                if n not in env or env[n].ty != t:
                    raise Unsupported("%s: `%s` is a %s at the end of the group, expected %s"
                                      % (self.lean, n, env[n].ty if n in env else "-", t))
                out.append(env[n].code)
            lines.append("pure (%s)" % ", ".join(out) if len(out) != 1 else "pure %s" % out[0])
            return lines
        lines = run(build)
        sha = hashlib.sha256(text.encode()).hexdigest()
        doc = "`%s:interconnect`, %s, as the source text says it (sha256 of the statement group\n%s)." % (NLSYS, self.doc, sha)
        if skipped:
            doc += "\n  skipped (outside the model): " + "; ".join("`%s`" % k for k in skipped)
        return render(doc, self.signature(), lines), sha


def top_ifs(fn, pred):
    return [st for st in fn.body if isinstance(st, ast.If) and pred(st)]


def loc_implicit(fn):
    st = exactly_one(top_ifs(fn, lambda i: test_is(i.test, "connections", None)), "`if connections is None:`")
    return st.body, "\n".join(ast.unparse(b) for b in st.body)


def loc_normalize(fn):
    st = exactly_one(top_ifs(fn, lambda i: test_is(i.test, "connections", None)), "`if connections is None:`")
    # if connections is None: … elif connections is False: … else: <group>
    if len(st.orelse) != 1 or not isinstance(st.orelse[0], ast.If) or not test_is(st.orelse[0].test, "connections", False):
        raise Unsupported("`elif connections is False:` not found after `if connections is None:`")
    body = st.orelse[0].orelse
    if not body:
        raise Unsupported("no `else:` branch after `elif connections is False:`")
    return body, "\n".join(ast.unparse(b) for b in body)


def loc_pre_connections(fn):
    loop = exactly_one([st for st in fn.body if isinstance(st, ast.For) and is_name(st.iter, "connections")],
                       "`for … in connections:`")
    k = fn.body.index(loop)
    acc = [n for n in X().assigned(loop.body)]
    init = [st for st in fn.body[:k] if isinstance(st, ast.Assign) and len(st.targets) == 1
            and isinstance(st.targets[0], ast.Name) and st.targets[0].id in acc
            and isinstance(st.value, ast.List) and not st.value.elts]
    if not init:
        raise Unsupported("no `<list> = []` before `for … in connections:`")
    init = init[-1]
    final = [st for st in fn.body[k + 1:] if isinstance(st, ast.Assign) and len(st.targets) == 1
             and is_name(st.targets[0], "connections")]
    if not final or not is_name(final[0].value, init.targets[0].id):
        raise Unsupported("`connections = %s` not found after the loop" % init.targets[0].id)
    grp = [init, loop, final[0]]
    return grp, "\n".join(ast.unparse(b) for b in grp)


def loc_add_unused(fn):
    st = exactly_one(top_ifs(fn, lambda i: is_name(i.test, "add_unused")), "`if add_unused:`")
    # dropped_inputs, dropped_outputs = newsys.check_unused_signals(…)
    def is_check(a):
        return (isinstance(a, ast.Assign) and len(a.targets) == 1 and isinstance(a.targets[0], ast.Tuple)
                and [getattr(e, "id", None) for e in a.targets[0].elts] == ["dropped_inputs", "dropped_outputs"]
                and isinstance(a.value, ast.Call) and ast.unparse(a.value.func) == "newsys.check_unused_signals")
    exactly_one([a for a in st.body if is_check(a)], "`dropped_inputs, dropped_outputs = newsys.check_unused_signals(…)`")
    loops = [a for a in st.body if isinstance(a, ast.For)]
    li = exactly_one([a for a in loops if is_name(a.iter, "dropped_inputs")], "`for … in dropped_inputs:`")
    lo = exactly_one([a for a in loops if is_name(a.iter, "dropped_outputs")], "`for … in dropped_outputs:`")
    if len(loops) != 2:
        raise Unsupported("`if add_unused:` contains %d loops, expected 2" % len(loops))
    # the rebuilt system takes the four lists under their own names
    calls = [a for a in st.body if isinstance(a, ast.Assign) and isinstance(a.value, ast.Call)
             and is_name(a.value.func, "InterconnectedSystem")]
    c = exactly_one(calls, "`newsys = InterconnectedSystem(…)` inside `if add_unused:`")
    kw = {k.arg: k.value for k in c.value.keywords}
    for k in ("connections", "inplist", "outlist", "inputs", "outputs"):
        if not is_name(kw.get(k), k):
            raise Unsupported("the rebuilt InterconnectedSystem is not given `%s=%s`" % (k, k))
    if st.body.index(li) > st.body.index(c) or st.body.index(lo) > st.body.index(c):
        raise Unsupported("a loop over the dropped signals comes after the system is rebuilt")
    grp = sorted([li, lo], key=st.body.index)
    return grp, "\n".join(ast.unparse(b) for b in grp)


def loc_count_check(which, lst):
    def loc(fn):
        def pred(i):
            t = i.test
            return (isinstance(t, ast.BoolOp) and isinstance(t.op, ast.And) and is_name(t.values[0], which)
                    and len(i.body) == 1 and isinstance(i.body[0], ast.Raise) and not i.orelse)
        st = exactly_one(top_ifs(fn, pred), "`if %s and (…): raise …`" % which)
        return [st], ast.unparse(st)
    return loc


GROUPS_IC = [
    Group("icxImplicit", [("syslist", "LIST:SYS")], [("connections", "LIST:LIST:VAL")], loc_implicit,
          "the body of `if connections is None:` (implicit connections: every subsystem input is fed by all "
          "outputs with the same label)", skip=("connection_type",)),
    Group("icxNormalize", [("connections", "VAL")], [("connections", "VAL")], loc_normalize,
          "the `else:` branch after `elif connections is False:` (a flat non-empty list of str / tuple is ONE "
          "connection)", skip=("connection_type",)),
    Group("icxPreConnections", [("syslist", "LIST:SYS"), ("connections", "VAL")], [("connections", "LIST:LIST:SPEC3")],
          loc_pre_connections,
          "the loop that parses every connection (`new_connections`): the first specification as a subsystem input, "
          "the others as subsystem outputs"),
    Group("icxCheckInputs", [("inputs", "VAL"), ("inplist", "LIST:VAL")], [], loc_count_check("inputs", "inplist"),
          "the check \"`inputs` incompatible with `inplist`\""),
    Group("icxCheckOutputs", [("outputs", "VAL"), ("outlist", "LIST:VAL")], [], loc_count_check("outputs", "outlist"),
          "the check \"`outputs` incompatible with `outlist`\""),
    Group("icxAddUnused", [("newsys", "NEWSYS"), ("syslist", "LIST:SYS"), ("inplist", "LIST:VAL"), ("inputs", "LIST:STRING"),
                           ("outlist", "LIST:VAL"), ("outputs", "LIST:STRING"),
                           ("dropped_inputs", "LIST:PAIR"), ("dropped_outputs", "LIST:PAIR")],
          [("inplist", "LIST:VAL"), ("inputs", "LIST:STRING"), ("outlist", "LIST:VAL"), ("outputs", "LIST:STRING")],
          loc_add_unused,
          "the two loops of `if add_unused:` that append the dropped signals to `inplist` / `outlist` and their "
          "labels to `inputs` / `outputs` (`newsys.syslist` is `syslist`; `inputs` / `outputs` are lists of names)"),
]


def gen_pre(repo, lean_dir):
    problems, info, parts = [], {}, []
    src = fn = None
    try:
        src = open(os.path.join(repo, NLSYS)).read()
        fn = find_def(src, "interconnect")
    except (OSError, Unsupported, SyntaxError) as e:
        problems.append("py2lean_icx: %s:interconnect cannot be read: %s" % (NLSYS, e))
    for g in GROUPS_IC:
        try:
            if fn is None:
                raise Unsupported("source not readable")
            text, sha = g.translate(src, fn)
            info[g.lean] = sha[:16]
        except (Unsupported, SyntaxError, KeyError, AttributeError, IndexError, ValueError) as e:
            problems.append("py2lean_icx: %s:interconnect, group %s cannot be translated: %s" % (NLSYS, g.lean, e))
            text = failed_def(str(e), g.signature())
            info[g.lean] = "-"
        parts.append(text)
    head = HEADER % (NLSYS + ":interconnect", ", ".join("%s %s" % kv for kv in info.items()),
                     "import CtrlVerif.Generated.ICXFind\nimport CtrlVerif.Generated.ICParseSpec\n")
    write_if_changed(os.path.join(lean_dir, "CtrlVerif", "Generated", "ICXPre.lean"),
                     head + "\n".join(parts) + "\nend CtrlVerif.Generated\n")
    return problems, info


GENERATORS = [gen_find, gen_pre]



def regenerate(repo, lean_dir):
    """Rewrite Generated/ICX*.lean from the tree `repo`; returns (list of problems, info dict)."""
    problems, info = [], {}
    for g in GENERATORS:
        p, i = g(repo, lean_dir)
        problems += p
        info.update(i)
    return problems, info


if __name__ == "__main__":
    import sys
    repo = sys.argv[1] if len(sys.argv) > 1 else "/repo"
    lean_dir = os.path.join(os.path.dirname(os.path.dirname(os.path.dirname(os.path.abspath(__file__)))), "lean")
    print(regenerate(repo, lean_dir))
