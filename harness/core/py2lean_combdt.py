"""Translator Python `ast` -> Lean 4 for the timebase section of `control/bdalg.py:combine_tf` (the
`dt` loops and the loops building `ensured_tf_array`) and for `control/bdalg.py:_ensure_tf`
(DESIGN §10.3).

Rewrites `lean/CtrlVerif/Generated/CombineDt.lean` from the source text on every run of the C05
check; `Props/C05GenComb.lean` proves the generated head equal to the model `combineTfDt`
(Model/DtOps.lean) that the C05 tree theorems are about.  The generated code calls
`Generated.commonTimebase`, i.e. the translation of `common_timebase` itself.

Supported subset (anything else raises `Unsupported`):
  combine_tf: the statements up to (not including) the comment-delimited section that iterates over
    `ensured_tf_array`: `dt = None`; `try: <for-nest> except OSError: raise ValueError(...)`; a
    for-nest over `tf_array` / `row` whose innermost statement re-binds one variable by a call;
    `x = []`; a for-nest whose outer body is `row_acc = []`, an inner `for` appending a call result
    to `row_acc`, and `acc.append(row_acc)`.
  _ensure_tf: `if isinstance(x, tf.TransferFunction): [if dt is not None: try: common_timebase(x.dt, dt)
    except ValueError: raise ValueError(...)]; return x`; `if np.ndim(x) > 2: raise ValueError(...)`;
    `a3 = np.atleast_3d(x)`; `try: t = tf.TransferFunction(a3, np.ones_like(a3), dt) except TypeError:
    raise ValueError(...)`; `return t`.
  expressions: `common_timebase(a, b)`, `getattr(x, "dt", None)`, `x.dt`, `_ensure_tf(a, b)`, names, `None`.
Every exception class maps to `Err.badArg` except the one `common_timebase` raises (`Err.timebase`,
which the re-raising handler of `_ensure_tf` keeps a `ValueError`)."""
import ast
import hashlib
import os

REL = "control/bdalg.py"
OUT = "CombineDt.lean"


class Unsupported(Exception):
    pass


def _u(node, what="construct"):
    raise Unsupported("%s: %s" % (what, ast.dump(node)[:140] if isinstance(node, ast.AST) else node))


def _strip(stmts):
    return [s for s in stmts if not (isinstance(s, ast.Expr) and isinstance(s.value, ast.Constant)
                                     and isinstance(s.value.value, str))]


def _is_call(n, name, nargs):
    return isinstance(n, ast.Call) and isinstance(n.func, ast.Name) and n.func.id == name \
        and len(n.args) == nargs and not n.keywords


def _raises_value_error(stmts):
    return len(stmts) == 1 and isinstance(stmts[0], ast.Raise) and isinstance(stmts[0].exc, ast.Call) \
        and isinstance(stmts[0].exc.func, ast.Name) and stmts[0].exc.func.id == "ValueError"


def expr(n):
    """-> (Lean text, monadic?)"""
    if isinstance(n, ast.Name):
        return n.id, False
    if isinstance(n, ast.Constant) and n.value is None:
        return "Dt.none", False
    if isinstance(n, ast.Attribute) and n.attr == "dt" and isinstance(n.value, ast.Name):
        return "(PyComb.getattrDt %s)" % n.value.id, False
    if _is_call(n, "getattr", 3) and isinstance(n.args[1], ast.Constant) and n.args[1].value == "dt" \
            and isinstance(n.args[2], ast.Constant) and n.args[2].value is None:
        return "(PyComb.getattrDt %s)" % expr(n.args[0])[0], False
    if _is_call(n, "common_timebase", 2):
        return "Generated.commonTimebase %s %s" % (expr(n.args[0])[0], expr(n.args[1])[0]), True
    if _is_call(n, "_ensure_tf", 2):
        return "ensureTf %s %s" % (expr(n.args[0])[0], expr(n.args[1])[0]), True
    _u(n, "expression")


def rebind_nest(loop, names):
    """for a in X: for b in a: v = call(...)   -> two definitions re-binding v"""
    if not (isinstance(loop, ast.For) and not loop.orelse and isinstance(loop.target, ast.Name)
            and isinstance(loop.iter, ast.Name) and len(_strip(loop.body)) == 1):
        _u(loop, "outer loop")
    inner = _strip(loop.body)[0]
    if not (isinstance(inner, ast.For) and not inner.orelse and isinstance(inner.target, ast.Name)
            and isinstance(inner.iter, ast.Name) and inner.iter.id == loop.target.id and len(_strip(inner.body)) == 1):
        _u(inner, "inner loop")
    st = _strip(inner.body)[0]
    if not (isinstance(st, ast.Assign) and len(st.targets) == 1 and isinstance(st.targets[0], ast.Name)):
        _u(st, "loop statement")
    v = st.targets[0].id
    text, mon = expr(st.value)
    if not mon:
        _u(st, "expected a call")
    row, e = loop.target.id, inner.target.id
    d_in = "\n".join([
        "/-- loop `for %s in %s:` re-binding `%s`. -/" % (e, row, v),
        "def %s : List PyComb.Entry → Dt → Except Err Dt" % names[0],
        "  | [], %s => pure %s" % (v, v),
        "  | %s :: rest, %s => do" % (e, v),
        "    let %s ← %s" % (v, text),
        "    %s rest %s" % (names[0], v)])
    d_out = "\n".join([
        "/-- loop `for %s in %s:` re-binding `%s`. -/" % (row, loop.iter.id, v),
        "def %s : List (List PyComb.Entry) → Dt → Except Err Dt" % names[1],
        "  | [], %s => pure %s" % (v, v),
        "  | %s :: rest, %s => do" % (row, v),
        "    let %s ← %s %s %s" % (v, names[0], row, v),
        "    %s rest %s" % (names[1], v)])
    return [d_in, d_out], v, loop.iter.id


def append_nest(loop, acc, names, param):
    """for row in X: racc = []; for e in row: racc.append(call(e, param)); acc.append(racc)"""
    body = _strip(loop.body)
    if not (isinstance(loop, ast.For) and not loop.orelse and isinstance(loop.target, ast.Name)
            and isinstance(loop.iter, ast.Name) and len(body) == 3):
        _u(loop, "outer loop")
    a0, inner, a2 = body
    if not (isinstance(a0, ast.Assign) and len(a0.targets) == 1 and isinstance(a0.targets[0], ast.Name)
            and isinstance(a0.value, ast.List) and not a0.value.elts):
        _u(a0, "row accumulator")
    racc = a0.targets[0].id
    if not (isinstance(inner, ast.For) and not inner.orelse and isinstance(inner.target, ast.Name)
            and isinstance(inner.iter, ast.Name) and inner.iter.id == loop.target.id and len(_strip(inner.body)) == 1):
        _u(inner, "inner loop")
    ap = _strip(inner.body)[0]

    def is_append(s, to):
        return isinstance(s, ast.Expr) and isinstance(s.value, ast.Call) and isinstance(s.value.func, ast.Attribute) \
            and s.value.func.attr == "append" and isinstance(s.value.func.value, ast.Name) \
            and s.value.func.value.id == to and len(s.value.args) == 1 and not s.value.keywords
    if not is_append(ap, racc):
        _u(ap, "inner append")
    if not (is_append(a2, acc) and isinstance(a2.value.args[0], ast.Name) and a2.value.args[0].id == racc):
        _u(a2, "outer append")
    text, mon = expr(ap.value.args[0])
    if not mon:
        _u(ap, "expected a call")
    row, e = loop.target.id, inner.target.id
    d_in = "\n".join([
        "/-- loop `for %s in %s:` building `%s`. -/" % (e, row, racc),
        "def %s (%s : Dt) : List PyComb.Entry → List PyComb.Entry → Except Err (List PyComb.Entry)" % (names[0], param),
        "  | [], %s => pure %s" % (racc, racc),
        "  | %s :: rest, %s => do" % (e, racc),
        "    let t ← %s" % text,
        "    %s %s rest (%s ++ [t])" % (names[0], param, racc)])
    d_out = "\n".join([
        "/-- loop `for %s in %s:` building `%s`. -/" % (row, loop.iter.id, acc),
        "def %s (%s : Dt) : List (List PyComb.Entry) → List (List PyComb.Entry) → Except Err (List (List PyComb.Entry))"
        % (names[1], param),
        "  | [], %s => pure %s" % (acc, acc),
        "  | %s :: rest, %s => do" % (row, acc),
        "    let %s ← %s %s %s []" % (racc, names[0], param, row),
        "    %s %s rest (%s ++ [%s])" % (names[1], param, acc, racc)])
    return [d_in, d_out], loop.iter.id


def translate_ensure(fn):
    if [a.arg for a in fn.args.args] != ["arraylike_or_tf", "dt"] or len(fn.args.defaults) != 1:
        raise Unsupported("signature of _ensure_tf")
    x, dt = "arraylike_or_tf", "dt"
    body = _strip(fn.body)
    if len(body) != 5:
        raise Unsupported("_ensure_tf: %d statements" % len(body))
    s1, s2, s3, s4, s5 = body
    # s1: isinstance branch
    t = s1.test if isinstance(s1, ast.If) else None
    if not (t is not None and not s1.orelse and isinstance(t, ast.Call) and isinstance(t.func, ast.Name)
            and t.func.id == "isinstance" and ast.unparse(t.args[0]) == x
            and ast.unparse(t.args[1]) == "tf.TransferFunction"):
        _u(s1, "isinstance branch")
    b = _strip(s1.body)
    if not (len(b) == 2 and isinstance(b[1], ast.Return) and ast.unparse(b[1].value) == x):
        _u(s1, "isinstance branch body")
    g = b[0]
    if not (isinstance(g, ast.If) and not g.orelse and ast.unparse(g.test) == "%s is not None" % dt
            and len(_strip(g.body)) == 1 and isinstance(_strip(g.body)[0], ast.Try)):
        _u(g, "timebase guard")
    tr = _strip(g.body)[0]
    if not (len(tr.body) == 1 and isinstance(tr.body[0], ast.Expr) and len(tr.handlers) == 1
            and ast.unparse(tr.handlers[0].type) == "ValueError" and _raises_value_error(tr.handlers[0].body)
            and not tr.orelse and not tr.finalbody):
        _u(tr, "try around common_timebase")
    chk, mon = expr(tr.body[0].value)
    if not mon:
        _u(tr, "expected common_timebase call")
    # s2: ndim guard
    if not (isinstance(s2, ast.If) and not s2.orelse and ast.unparse(s2.test) == "np.ndim(%s) > 2" % x
            and _raises_value_error(_strip(s2.body))):
        _u(s2, "ndim guard")
    # s3..s5: construction
    if not (isinstance(s3, ast.Assign) and ast.unparse(s3.value) == "np.atleast_3d(%s)" % x):
        _u(s3, "atleast_3d")
    a3 = s3.targets[0].id
    if not (isinstance(s4, ast.Try) and len(s4.body) == 1 and isinstance(s4.body[0], ast.Assign)
            and ast.unparse(s4.body[0].value) == "tf.TransferFunction(%s, np.ones_like(%s), %s)" % (a3, a3, dt)
            and len(s4.handlers) == 1 and ast.unparse(s4.handlers[0].type) == "TypeError"
            and _raises_value_error(s4.handlers[0].body)):
        _u(s4, "constructor call")
    tname = s4.body[0].targets[0].id
    if not (isinstance(s5, ast.Return) and ast.unparse(s5.value) == tname):
        _u(s5, "return")
    return "\n".join([
        "/-- `%s:_ensure_tf` as the source text says it. -/" % REL,
        "def ensureTf (%s : PyComb.Entry) (%s : Dt) : Except Err PyComb.Entry :=" % (x, dt),
        "  if PyComb.isTF %s then do" % x,
        "    (if !(PyDt.isNone %s) then do" % dt,
        "      let _ ← %s" % chk,
        "      pure ()",
        "    else pure ())",
        "    pure %s" % x,
        "  else",
        "    if PyComb.ndim %s > 2 then" % x,
        "      .error Err.badArg",
        "    else",
        "      pure (PyComb.mkTF %s %s)" % (x, dt)])


def translate_head(fn):
    if fn.args.args[0].arg != "tf_array":
        raise Unsupported("signature of combine_tf")
    body = _strip(fn.body)
    s1, s2, s3, s4 = body[:4]
    if not (isinstance(s1, ast.Assign) and isinstance(s1.targets[0], ast.Name)
            and isinstance(s1.value, ast.Constant) and s1.value.value is None):
        _u(s1, "dt = None")
    v0 = s1.targets[0].id
    if not (isinstance(s2, ast.Try) and len(_strip(s2.body)) == 1 and len(s2.handlers) == 1
            and ast.unparse(s2.handlers[0].type) == "OSError" and _raises_value_error(s2.handlers[0].body)
            and not s2.orelse and not s2.finalbody):
        _u(s2, "try around the timebase loops")
    defs1, v, it1 = rebind_nest(_strip(s2.body)[0], ("dtInner", "dtOuter"))
    if v != v0 or it1 != "tf_array":
        raise Unsupported("the timebase loops re-bind %s over %s" % (v, it1))
    if not (isinstance(s3, ast.Assign) and isinstance(s3.targets[0], ast.Name)
            and isinstance(s3.value, ast.List) and not s3.value.elts):
        _u(s3, "ensured_tf_array = []")
    acc = s3.targets[0].id
    defs2, it2 = append_nest(s4, acc, ("ensInner", "ensOuter"), v0)
    if it2 != "tf_array":
        raise Unsupported("the ensuring loops run over %s" % it2)
    # what follows must read the ensured array and pass dt to the constructor
    tail = body[4:]
    if not (tail and isinstance(tail[-1], ast.Return)
            and ast.unparse(tail[-1].value) == "tf.TransferFunction(num, den, dt=%s, **kwargs)" % v0):
        raise Unsupported("combine_tf must end in tf.TransferFunction(num, den, dt=%s, **kwargs)" % v0)
    for s in tail[:-1]:
        for n in ast.walk(s):
            if isinstance(n, ast.Name) and n.id == v0 and isinstance(n.ctx, ast.Store):
                raise Unsupported("%s is re-bound after the head" % v0)
    main = "\n".join([
        "/-- the first two sections of `%s:combine_tf`: the common timebase and the ensured blocks. -/" % REL,
        "def combineHead (tf_array : List (List PyComb.Entry)) : Except Err (Dt × List (List PyComb.Entry)) := do",
        "  let %s := Dt.none" % v0,
        "  let %s ← dtOuter tf_array %s" % (v0, v0),
        "  let %s ← ensOuter %s tf_array []" % (acc, v0),
        "  pure (%s, %s)" % (v0, acc)])
    return defs1 + defs2 + [main]


def find_function(module, name):
    for n in module.body:
        if isinstance(n, ast.FunctionDef) and n.name == name:
            return n
    raise Unsupported("function %s not found" % name)


def regenerate(repo, lean_dir):
    problems, info = [], {}
    gen_dir = os.path.join(lean_dir, "CtrlVerif", "Generated")
    try:
        src = open(os.path.join(repo, REL)).read()
        module = ast.parse(src)
        f_c, f_e = find_function(module, "combine_tf"), find_function(module, "_ensure_tf")
        sha = hashlib.sha256((ast.get_source_segment(src, f_c) + ast.get_source_segment(src, f_e)).encode()).hexdigest()
        defs = [translate_ensure(f_e)] + translate_head(f_c)
        info["combine_tf"] = {"sha": sha, "definitions": len(defs)}
        head = "combine_tf, _ensure_tf %s" % sha[:16]
        body = "\n\n".join(defs) + "\n"
    except (OSError, SyntaxError, Unsupported, AttributeError, IndexError, ValueError) as e:
        msg = str(e).replace("\n", " ").replace("-/", "- /")[:300]
        problems.append("py2lean_combdt: %s:combine_tf/_ensure_tf cannot be translated: %s" % (REL, msg))
        head = "combine_tf FAILED"
        body = ("/-- translation FAILED: %s -/\n"
                "def ensureTf (_ : PyComb.Entry) (_ : Dt) : Except Err PyComb.Entry := .error Err.notImplemented\n"
                "def dtInner : List PyComb.Entry → Dt → Except Err Dt := fun _ _ => .error Err.notImplemented\n"
                "def dtOuter : List (List PyComb.Entry) → Dt → Except Err Dt := fun _ _ => .error Err.notImplemented\n"
                "def ensInner (_ : Dt) : List PyComb.Entry → List PyComb.Entry → Except Err (List PyComb.Entry) :=\n"
                "  fun _ _ => .error Err.notImplemented\n"
                "def ensOuter (_ : Dt) : List (List PyComb.Entry) → List (List PyComb.Entry) →\n"
                "    Except Err (List (List PyComb.Entry)) := fun _ _ => .error Err.notImplemented\n"
                "def combineHead (_ : List (List PyComb.Entry)) : Except Err (Dt × List (List PyComb.Entry)) :=\n"
                "  .error Err.notImplemented\n") % msg
    text_out = ("-- GENERATED on every run by harness/core/py2lean_combdt.py from %s (%s).  Do not edit.\n" % (REL, head)
                + "import CtrlVerif.Model.PyComb\n\nnamespace CtrlVerif.Generated.Comb\n\nopen CtrlVerif\n\n"
                + body + "\nend CtrlVerif.Generated.Comb\n")
    p = os.path.join(gen_dir, OUT)
    old = open(p).read() if os.path.exists(p) else None
    if old != text_out:
        with open(p, "w") as f:
            f.write(text_out)
    return problems, info


if __name__ == "__main__":
    import sys
    probs, inf = regenerate(sys.argv[1], sys.argv[2])
    for p in probs:
        print("PROBLEM", p)
    print(inf)
