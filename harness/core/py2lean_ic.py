"""Translator Python `ast` -> Lean 4 for the CONSTRUCTION OF INTERCONNECTED SYSTEMS (property C07,
DESIGN §10.3 / notes/NOTES-py2lean-ic.md).  It regenerates `lean/CtrlVerif/Generated/IC*.lean` from
the source text of `control/iosys.py` and `control/nlsys.py` of the tree the check runs against on
every run; `Props/C07Gen*.lean` prove the hand-written model (`Model/Interconnect.lean`: `parseSpec`,
`parseInputSpec`, `parseOutputSpec`, `buildMaps`, `opAdd … opFeedback`, `staticLoop / staticIO`)
EQUAL to the generated functions, so a semantic edit of the source breaks a proof obligation, and an
edit that leaves the supported subset makes the translation fail (reported the same way: the emitted
definition is then `.error .notImplemented` for every argument, which cannot equal the model).

Translated (in this order, each into its own file):
  ICParseSpec.lean   `_parse_spec`  (control/iosys.py)                      whole body
  ICInit.lean        `InterconnectedSystem._parse_input_spec`, `_parse_output_spec`, `set_connect_map`
                     (whole bodies) and the SLICE of `InterconnectedSystem.__init__` that computes the
                     offsets and the three maps (see `InitSlice`)
  ICOps.lean         `NonlinearIOSystem.__add__ __radd__ __sub__ __rsub__ __mul__ __rmul__ __neg__
                     feedback`  (whole bodies)
  ICStatic.lean      `InterconnectedSystem._compute_static_io`, `_rhs`, `_out` (whole bodies; the
                     subsystems' `_out` / `_rhs` are parameters)

Value model (fixed in `lean/CtrlVerif/Model/PyIC.lean`, hand-written, trusted):
  a signal specification and its parts (`spec`, `system_spec`, `signal_spec`, `gain`, `namelist`,
  `connections`, `inplist`, ...)                    -> `PyIC.Val K` (None / int / number / str / list / tuple / other)
  a Python string                                   -> `PyIC.Str`: text + the groups of the regular
                                                       expressions, which THE HARNESS applies (convention
                                                       of Model/Interconnect.lean, kept)
  a subsystem as far as the wiring looks at it      -> `IC.SysSig` (name, input labels, output labels)
  Python int -> `Int`, sizes -> `Nat`, float / NumPy scalar -> exact field `K`
  a 2-D ndarray -> `PMat K` (Model/PyMat.lean), a 1-D ndarray -> `List K`
Typing is static where the source fixes it (sizes, offsets, arrays, results of `_parse_spec`) and
dynamic (`Val`) elsewhere; a use of a dynamic value as an int / number / list is a run-time check
that raises TypeError (`badArg`) exactly where Python would.  Effectful sub-expressions (anything
that can raise) are bound to temporaries left to right in Python's order; `and` / `or` short-circuit.
`raise ValueError(msg)` -> `throw Err.<kind>` with the kind read off the literal message by the rule
of `families/c07.py: classify_exc` (+ "incompatible" -> shape, RuntimeError "algebraic loop" ->
illPosed).  `warn(...)` has no effect on the result and is skipped together with an `if` that only
guards a warning.  The sha256 of each function text is recorded in the generated file; output is
deterministic and rewritten only when changed.
"""
import ast
import hashlib
import os
import re

from core.py2lean import Unsupported
from core.py2lean_select import find_def, write_if_changed, _lean_str

# static types
VAL, INT, NAT, BOOL, STRING, OSTRING, NUM, INTS, SYS, SYSL, LABELS, DICT, VLIST = (
    "VAL", "INT", "NAT", "BOOL", "STRING", "OSTRING", "NUM", "INTS", "SYS", "SYSL", "LABELS", "DICT", "VLIST")
MAT, VEC, NONE, FUN, ONAT, ENUM, ZIP, SUBS, SUB, TIME = (
    "MAT", "VEC", "NONE", "FUN", "ONAT", "ENUM", "ZIP", "SUBS", "SUB", "TIME")

ICSYS, DTX = "ICSYS", "DTX"
LEAN_TY = {ICSYS: "PMat K × PMat K × PMat K", VAL: "Val K", INT: "Int", NAT: "Nat", BOOL: "Bool", STRING: "String", OSTRING: "Option String",
           NUM: "K", INTS: "List Int", SYS: "SysSig", SYSL: "List SysSig", LABELS: "List Label",
           DICT: "PyIC.Dict", VLIST: "List (Val K)", MAT: "PMat K", VEC: "List K", ONAT: "Option Nat",
           SUBS: "List (PyIC.Subsys K)", SUB: "PyIC.Subsys K", TIME: "K"}

LEAN_KEYWORDS = {"at", "from", "end", "open", "then", "do", "fun", "match", "with", "in", "if", "let", "have",
                 "show", "by", "local", "where", "def", "theorem", "else", "for", "return", "mut", "K", "Type",
                 "Prop", "Nat", "Int", "import", "namespace", "section", "variable", "instance", "class",
                 "structure", "inductive", "deriving", "using", "calc", "this", "nomatch", "try", "catch",
                 "finally", "unless", "break", "continue", "export", "private", "protected", "partial",
                 "unsafe", "macro", "syntax", "notation", "universe", "abbrev", "example", "axiom", "opaque",
                 "fuel", "Val", "PyIC", "PMat", "Err", "pure", "throw", "some", "none", "true", "false"}


def lean_name(py):
    py = py.replace(".", "_")
    if py in LEAN_KEYWORDS or re.fullmatch(r"t\d+", py) or not re.fullmatch(r"[A-Za-z_][A-Za-z0-9_]*", py):
        return py + "_py"
    return py


def _ind(lines, n=2):
    return [" " * n + l for l in lines]


class V:
    """a translated effect-free expression: Lean code (atomic or parenthesised), static type, the
    value when it is an int literal, the element types when it is a static tuple"""

    def __init__(self, code, ty, lit=None, items=None, fun=None):
        self.code, self.ty, self.lit, self.items, self.fun = code, ty, lit, items, fun


def classify_raise(cls, msg):
    """Python exception class + literal message -> Err constructor (families/c07.py: classify_exc)"""
    if cls == "RuntimeError":
        if "algebraic loop" in msg:
            return "illPosed"
        raise Unsupported("RuntimeError(%r)" % msg[:40])
    if cls == "ValueError":
        if "out of range" in msg:
            return "indexRange"
        if "couldn't find" in msg or "could not find" in msg:
            return "unknownName"
        if "inconsistent number" in msg or "incompatible" in msg:
            return "shape"
        return "badArg"
    if cls in ("TypeError", "AttributeError"):
        return "badArg"
    if cls == "IndexError":
        return "indexRange"
    raise Unsupported("raise %s" % cls)


def literal_text(node):
    """the constant parts of a string expression (f-string, implicit concatenation, `%`, `+`)"""
    if isinstance(node, ast.Constant) and isinstance(node.value, str):
        return node.value
    if isinstance(node, ast.JoinedStr):
        return "".join(v.value for v in node.values if isinstance(v, ast.Constant) and isinstance(v.value, str))
    if isinstance(node, ast.BinOp) and isinstance(node.op, (ast.Mod, ast.Add)):
        return literal_text(node.left) + (literal_text(node.right) if isinstance(node.op, ast.Add) else "")
    return ""


PYCLS = {"int": ".int", "str": ".str", "list": ".list", "tuple": ".tuple"}


class Tr:
    """translates statement lists into the lines of a Lean `do` block in `Except Err`"""

    def __init__(self, hooks=None):
        self.ntmp = 0
        self.notes = []
        self.hooks = hooks or Hooks()
        self.hooks.tr = self
        self.ret = None                 # list of result types (a tuple) or a single type
        self.loop_targets = []          # python names bound by the enclosing `for` statements
        self.cache = {}                 # (code, type) -> temporary holding the checked coercion

    # ------------------------------------------------------------------------------------------
    def tmp(self):
        self.ntmp += 1
        return "t%d" % self.ntmp

    def note(self, text):
        if text not in self.notes:
            self.notes.append(text)

    def bind(self, pre, code, ty):
        t = self.tmp()
        pre.append("let %s ← %s" % (t, code))
        return V(t, ty)

    def ty(self, t):
        if isinstance(t, tuple):
            return " × ".join(self.ty_atom(x) for x in t)
        return LEAN_TY[t]

    def ty_atom(self, t):
        s = self.ty(t)
        return "(%s)" % s if isinstance(t, tuple) else s

    # -- coercions -------------------------------------------------------------------------------
    def to(self, v, ty, pre):
        """`v` used where a value of static type `ty` is needed (run-time checks go to `pre`)"""
        if v.ty == ty:
            if v.lit is not None and ty == INT:
                return V("(%d : Int)" % v.lit, INT, lit=v.lit)
            return v
        if ty == INT:
            if v.ty == NAT:
                return V("(%s : Int)" % v.code, INT)
            if v.ty == VAL:
                return self.checked(v, "PyIC.toInt", INT, pre)
        if ty == NUM:
            if v.lit is not None and v.ty in (INT, NAT):
                return V("(%d : K)" % v.lit, NUM)
            if v.ty in (INT, NAT):
                return V("((%s : Int) : K)" % v.code, NUM)
            if v.ty == VAL:
                return self.checked(v, "PyIC.toNum", NUM, pre)
        if ty == VAL:
            if v.ty == NONE:
                return V("Val.none", VAL)
            if v.ty == INT:
                return V("(Val.int %s)" % self.to(v, INT, pre).code, VAL)
            if v.ty == NAT:
                return V("(Val.int (%s : Int))" % v.code, VAL)
            if v.ty == NUM:
                return V("(Val.num %s)" % v.code, VAL)
            if v.ty == INTS:
                return V("(PyIC.ofInts %s)" % v.code, VAL)
            if v.ty == VLIST:
                return V("(Val.list %s)" % v.code, VAL)
        if ty == INTS and v.ty == VAL:
            return self.checked(v, "PyIC.toInts", INTS, pre)
        if ty == VLIST and v.ty == VAL:
            return self.checked(v, "PyIC.iter", VLIST, pre)
        if ty == STRING and v.ty == OSTRING:
            return self.checked(v, "PyIC.optStr", STRING, pre)
        if ty == NAT and v.ty == INT and v.lit is not None and v.lit >= 0:
            return V("(%d : Nat)" % v.lit, NAT, lit=v.lit)
        raise Unsupported("a %s used as %s: %s" % (v.ty, ty, v.code[:60]))

    def checked(self, v, prim, ty, pre):
        key = (v.code, ty)
        if key in self.cache:
            return V(self.cache[key], ty)
        r = self.bind(pre, "%s %s" % (prim, v.code), ty)
        self.cache[key] = r.code
        return r

    def forget(self, name):
        """the Lean variable `name` is re-bound: cached coercions of the old value are stale"""
        for k in [k for k in self.cache if re.search(r"\b%s\b" % re.escape(name), k[0])]:
            del self.cache[k]

    def join_ty(self, a, b):
        if a == b:
            return a
        if {a, b} <= {INT, NAT}:
            return INT
        if {a, b} <= {INT, NAT, NUM}:
            return NUM
        if {a, b} == {STRING, OSTRING}:
            return STRING
        return VAL

    # -- nested blocks ----------------------------------------------------------------------------
    def sub_do(self, lines, ty):
        """a nested `do` block as one expression (several lines)"""
        return ["(do"] + _ind(lines) + ["  : Except Err (%s))" % self.ty(ty)]

    def bind_block(self, pre, lines, ty):
        t = self.tmp()
        blk = self.sub_do(lines, ty)
        pre.append("let %s ← %s" % (t, blk[0]))
        pre.extend(blk[1:])
        return V(t, ty)

    def scoped(self, f):
        """run `f(pre)` with a fresh effect list whose coercion cache does not leak out"""
        saved = dict(self.cache)
        pre = []
        r = f(pre)
        self.cache = saved
        return pre, r

    # -- tests --------------------------------------------------------------------------------------
    def test(self, node, env, pre):
        """Python truth test -> V of type BOOL (`lit` True / False when decided statically)"""
        if isinstance(node, ast.UnaryOp) and isinstance(node.op, ast.Not):
            v = self.test(node.operand, env, pre)
            if v.lit is not None:
                return V("false" if v.lit else "true", BOOL, lit=not v.lit)
            return V("(!%s)" % v.code, BOOL)
        if isinstance(node, ast.BoolOp):
            return self.boolop(node, env, pre)
        if isinstance(node, ast.Compare):
            return self.compare(node, env, pre)
        v = self.expr(node, env, pre)
        if v.ty == BOOL:
            return v
        raise Unsupported("truth value of a %s: %s" % (v.ty, ast.unparse(node)[:60]))

    def boolop(self, node, env, pre):
        is_and = isinstance(node.op, ast.And)
        # left to right; an operand that can raise is only evaluated when reached
        first = self.test(node.values[0], env, pre)
        rest = node.values[1:]
        if first.lit is not None:
            if first.lit == is_and:           # `True and X` / `False or X`  ->  X
                if len(rest) == 1:
                    return self.test(rest[0], env, pre)
                return self.boolop(ast.BoolOp(op=node.op, values=rest), env, pre)
            return first
        nxt = rest[0] if len(rest) == 1 else ast.BoolOp(op=node.op, values=rest)
        sub, r = self.scoped(lambda p: self.test(nxt, env, p))
        if r.lit is not None and not sub:
            if r.lit == is_and:
                return first
            # `X and False` / `X or True`: X is still evaluated (it has no effects here)
            return V("false" if is_and else "true", BOOL, lit=not is_and)
        if not sub:
            return V("(%s %s %s)" % (first.code, "&&" if is_and else "||", r.code), BOOL)
        lines = ["if %s then" % first.code]
        if is_and:
            lines += _ind(sub + ["pure %s" % r.code]) + ["else", "  pure false"]
        else:
            lines += ["  pure true", "else"] + _ind(sub + ["pure %s" % r.code])
        return self.bind_block(pre, lines, BOOL)

    def compare(self, node, env, pre):
        if len(node.ops) != 1:
            raise Unsupported("chained comparison %s" % ast.unparse(node)[:60])
        op, ln, rn = node.ops[0], node.left, node.comparators[0]
        if isinstance(op, (ast.Is, ast.IsNot)):
            if not (isinstance(rn, ast.Constant) and rn.value is None):
                raise Unsupported("`is` against %s" % ast.unparse(rn)[:40])
            a = self.expr(ln, env, pre)
            neg = isinstance(op, ast.IsNot)
            if a.ty == NONE:
                return V("false" if neg else "true", BOOL, lit=not neg)
            if a.ty == VAL:
                return V("(!PyIC.isNone %s)" % a.code if neg else "(PyIC.isNone %s)" % a.code, BOOL)
            if a.ty in (OSTRING, ONAT):
                return V("(%s.isSome)" % a.code if neg else "(%s.isNone)" % a.code, BOOL)
            if a.ty in (INT, NAT, NUM, STRING, INTS, SYS, SYSL, MAT, VEC, SUBS, VLIST):
                self.note("`%s` is %s: the value is a %s" % (ast.unparse(node), "True" if neg else "False", a.ty))
                return V("true" if neg else "false", BOOL, lit=neg)
            raise Unsupported("`is None` on a %s" % a.ty)
        a, b = self.expr(ln, env, pre), self.expr(rn, env, pre)
        r = self.hooks.compare(op, a, b, node, pre)
        if r is not None:
            return r
        if isinstance(op, (ast.Eq, ast.NotEq)):
            neg = isinstance(op, ast.NotEq)
            if a.ty == VAL and b.ty == STRING and b.lit is not None:
                c = "(PyIC.eqLit %s %s)" % (a.code, b.code)
                return V("(!%s)" % c if neg else c, BOOL)
            if a.ty == STRING and b.ty == STRING:
                return V("(%s %s %s)" % (a.code, "!=" if neg else "==", b.code), BOOL)
            if a.ty == NAT and b.ty == NAT:
                return V("(decide (%s %s %s))" % (a.code, "≠" if neg else "=", b.code), BOOL)
            if a.ty in (INT, NAT, VAL) and b.ty in (INT, NAT, VAL) and not (a.ty == VAL and b.ty == VAL):
                x, y = self.to(a, INT, pre), self.to(b, INT, pre)
                return V("(decide (%s %s %s))" % (x.code, "≠" if neg else "=", y.code), BOOL)
            if NUM in (a.ty, b.ty) and a.ty in (INT, NAT, NUM) and b.ty in (INT, NAT, NUM):
                x, y = self.to(a, NUM, pre), self.to(b, NUM, pre)
                return V("(decide (%s %s %s))" % (x.code, "≠" if neg else "=", y.code), BOOL)
            raise Unsupported("== between %s and %s" % (a.ty, b.ty))
        sym = {ast.Lt: "<", ast.LtE: "≤", ast.Gt: ">", ast.GtE: "≥"}.get(type(op))
        if sym and a.ty in (INT, NAT, VAL) and b.ty in (INT, NAT, VAL):
            x, y = self.to(a, INT, pre), self.to(b, INT, pre)
            return V("(decide (%s %s %s))" % (x.code, sym, y.code), BOOL)
        raise Unsupported("comparison %s" % ast.unparse(node)[:80])

    # -- expressions ---------------------------------------------------------------------------------
    def expr(self, node, env, pre):
        if isinstance(node, ast.Constant):
            v = node.value
            if v is None:
                return V("Val.none", NONE)
            if v is True or v is False:
                return V("true" if v else "false", BOOL, lit=v)
            if type(v) is int:
                return V("(%d : Int)" % v, INT, lit=v)
            if type(v) is str:
                return V(_lean_str(v), STRING, lit=v)
            raise Unsupported("constant %r" % (v,))
        if isinstance(node, ast.Name):
            if node.id in env:
                return env[node.id]
            r = self.hooks.name(node, env)
            if r is not None:
                return r
            raise Unsupported("name `%s` is not a parameter or an assigned local" % node.id)
        if isinstance(node, ast.Attribute):
            return self.attribute(node, env, pre)
        if isinstance(node, ast.UnaryOp) and isinstance(node.op, ast.USub):
            a = self.expr(node.operand, env, pre)
            if a.lit is not None and a.ty == INT:
                return V("(%d : Int)" % -a.lit, INT, lit=-a.lit)
            if a.ty in (INT, NAT, VAL):
                return V("(-%s)" % self.to(a, INT, pre).code, INT)
            if a.ty == NUM:
                return V("(-%s)" % a.code, NUM)
            raise Unsupported("unary minus on a %s" % a.ty)
        if isinstance(node, (ast.UnaryOp, ast.BoolOp, ast.Compare)):
            return self.test(node, env, pre)
        if isinstance(node, ast.BinOp):
            return self.binop(node, env, pre)
        if isinstance(node, ast.IfExp):
            c = self.test(node.test, env, pre)
            if c.lit is not None:
                return self.expr(node.body if c.lit else node.orelse, env, pre)
            pa, a = self.scoped(lambda p: self.expr(node.body, env, p))
            pb, b = self.scoped(lambda p: self.expr(node.orelse, env, p))
            ty = self.join_ty(a.ty, b.ty)
            pa2, a = self.scoped(lambda p: self.to(a, ty, p))
            pb2, b = self.scoped(lambda p: self.to(b, ty, p))
            pa, pb = pa + pa2, pb + pb2
            if not pa and not pb:
                return V("(if %s then %s else %s)" % (c.code, a.code, b.code), ty)
            lines = ["if %s then" % c.code] + _ind(pa + ["pure %s" % a.code]) + ["else"] + _ind(pb + ["pure %s" % b.code])
            return self.bind_block(pre, lines, ty)
        if isinstance(node, ast.Subscript):
            return self.subscript(node, env, pre)
        if isinstance(node, ast.Call):
            return self.call(node, env, pre)
        if isinstance(node, ast.List):
            vs = [self.tuple_val(self.expr(x, env, pre), pre) for x in node.elts]
            return V("(Val.list [%s])" % ", ".join(v.code for v in vs), VAL)
        if isinstance(node, ast.Tuple):
            vs = [self.expr(x, env, pre) for x in node.elts]
            return V(None, "TUPLE", items=vs)
        if isinstance(node, ast.ListComp):
            return self.listcomp(node, env, pre)
        if isinstance(node, ast.DictComp):
            return self.dictcomp(node, env, pre)
        if isinstance(node, ast.Lambda):
            a = node.args
            if a.vararg or a.kwarg or a.kwonlyargs or a.defaults or a.posonlyargs:
                raise Unsupported("lambda signature")
            return V(None, FUN, fun=([x.arg for x in a.args], node.body))
        raise Unsupported("expression %s" % ast.unparse(node)[:80])

    def tuple_val(self, v, pre):
        """a static tuple used as a Python value"""
        if v.ty != "TUPLE":
            return self.to(v, VAL, pre)
        return V("(Val.tuple [%s])" % ", ".join(self.tuple_val(x, pre).code for x in v.items), VAL)

    def attribute(self, node, env, pre):
        full = ast.unparse(node)
        if full in env:                       # `self.input_offset`, ... tracked as variables
            return env[full]
        r = self.hooks.attribute(node, env, pre)
        if r is not None:
            return r
        x = self.expr(node.value, env, pre)
        if x.ty == SYS:
            if node.attr == "name":
                return V("%s.name" % x.code, STRING)
            if node.attr == "ninputs":
                return V("%s.nin" % x.code, NAT)
            if node.attr == "noutputs":
                return V("%s.nout" % x.code, NAT)
            if node.attr == "nstates":
                return V("PyIC.nstatesNotModelled", NAT)        # only a test `is None` may look at it
        if x.ty == SUB and node.attr in ("nstates", "ninputs", "noutputs"):
            return V("%s.%s" % (x.code, node.attr), NAT)
        if x.ty == MAT and node.attr == "shape":
            return V(None, "TUPLE", items=[V("%s.r" % x.code, NAT), V("%s.c" % x.code, NAT)])
        raise Unsupported("attribute %s of a %s" % (node.attr, x.ty))

    def binop(self, node, env, pre):
        a = self.expr(node.left, env, pre)
        b = self.expr(node.right, env, pre)
        r = self.hooks.binop(node, a, b, env, pre)
        if r is not None:
            return r
        op = type(node.op)
        if op is ast.Add and a.ty == STRING and b.ty == STRING:
            return V("(%s ++ %s)" % (a.code, b.code), STRING)
        sym = {ast.Add: "+", ast.Sub: "-", ast.Mult: "*"}.get(op)
        if sym and a.ty in (INT, NAT, VAL) and b.ty in (INT, NAT, VAL):
            if a.ty == NAT and b.ty == NAT and op is not ast.Sub:
                return V("(%s %s %s)" % (a.code, sym, b.code), NAT)
            x, y = self.to(a, INT, pre), self.to(b, INT, pre)
            return V("(%s %s %s)" % (x.code, sym, y.code), INT)
        if op is ast.MatMult and a.ty == MAT and b.ty == VEC:
            return self.bind(pre, "PyIC.matVec %s %s" % (a.code, b.code), VEC)
        if op is ast.Add and a.ty == VEC and b.ty == VEC:
            return self.bind(pre, "PyIC.addVec %s %s" % (a.code, b.code), VEC)
        if op is ast.Mult and a.ty in (NUM, INT, NAT) and b.ty == MAT:
            return V("(PMat.smul %s %s)" % (self.to(a, NUM, pre).code, b.code), MAT)
        if sym and NUM in (a.ty, b.ty) and a.ty in (INT, NAT, NUM) and b.ty in (INT, NAT, NUM):
            x, y = self.to(a, NUM, pre), self.to(b, NUM, pre)
            return V("(%s %s %s)" % (x.code, sym, y.code), NUM)
        raise Unsupported("operator %s on %s, %s" % (op.__name__, a.ty, b.ty))

    def subscript(self, node, env, pre):
        r = self.hooks.subscript(node, env, pre)
        if r is not None:
            return r
        x = self.expr(node.value, env, pre)
        sl = node.slice
        if isinstance(sl, ast.Slice) and x.ty == VEC and sl.step is None:
            lo = self.to(self.expr(sl.lower, env, pre), INT, pre).code if sl.lower is not None else "(0 : Int)"
            if sl.upper is None:
                raise Unsupported("open slice %s" % ast.unparse(node)[:60])
            hi = self.to(self.expr(sl.upper, env, pre), INT, pre).code
            return V("(PyIC.sliceVec %s %s %s)" % (x.code, lo, hi), VEC)
        if isinstance(sl, ast.Slice):
            if sl.step is None and sl.upper is None and isinstance(sl.lower, ast.Constant) \
                    and type(sl.lower.value) is int and sl.lower.value >= 0 and x.ty == VAL:
                return self.bind(pre, "PyIC.dropFrom %s %d" % (x.code, sl.lower.value), VAL)
            raise Unsupported("slice %s" % ast.unparse(node)[:60])
        if x.ty == "TUPLE":
            if isinstance(sl, ast.Constant) and type(sl.value) is int and 0 <= sl.value < len(x.items):
                return x.items[sl.value]
            raise Unsupported("index of a static tuple: %s" % ast.unparse(node)[:60])
        i = self.to(self.expr(sl, env, pre), INT, pre)
        if x.ty == VAL:
            return self.bind(pre, "PyIC.getItem %s %s" % (x.code, i.code), VAL)
        if x.ty == SYSL:
            return self.bind(pre, "PyIC.seqGet %s %s" % (x.code, i.code), SYS)
        if x.ty == INTS:
            return self.bind(pre, "PyIC.seqGet %s %s" % (x.code, i.code), INT)
        if x.ty == VLIST:
            return self.bind(pre, "PyIC.seqGet %s %s" % (x.code, i.code), VAL)
        raise Unsupported("subscript of a %s: %s" % (x.ty, ast.unparse(node)[:60]))

    def cls_list(self, node):
        names = [node] if isinstance(node, ast.Name) else list(node.elts) if isinstance(node, ast.Tuple) else None
        if names is None or not all(isinstance(n, ast.Name) and n.id in PYCLS for n in names):
            return None
        return "[%s]" % ", ".join(PYCLS[n.id] for n in names)

    def iterable(self, node, env, pre):
        """`for … in <node>` / comprehension source -> (Lean list code, pattern maker)
        returns (list V of element-list, element type or tuple of types)"""
        if isinstance(node, ast.Call) and isinstance(node.func, ast.Name) and not node.keywords:
            f = node.func.id
            if f == "range" and len(node.args) == 1:
                n = self.expr(node.args[0], env, pre)
                if n.ty == NAT:
                    return V("(PyIC.rangeNat %s)" % n.code, None), INT
                n = self.to(n, INT, pre)
                return V("(PyIC.range %s)" % n.code, None), INT
            if f == "enumerate" and len(node.args) == 1:
                src, ety = self.iterable(node.args[0], env, pre)
                if isinstance(ety, tuple):
                    raise Unsupported("enumerate over pairs")
                return V("(PyIC.enumerate %s)" % src.code, None), (INT, ety)
            if f == "zip" and len(node.args) == 2:
                a, ta = self.iterable(node.args[0], env, pre)
                b, tb = self.iterable(node.args[1], env, pre)
                if isinstance(ta, tuple) or isinstance(tb, tuple):
                    raise Unsupported("zip over pairs")
                return V("(List.zip %s %s)" % (a.code, b.code), None), (ta, tb)
        if isinstance(node, ast.BoolOp) and isinstance(node.op, ast.Or) and len(node.values) == 2 \
                and isinstance(node.values[1], ast.List) and not node.values[1].elts:
            x = self.to(self.expr(node.values[0], env, pre), VAL, pre)
            return self.bind(pre, "PyIC.iterOrEmpty %s" % x.code, VLIST), VAL
        v = self.expr(node, env, pre)
        if v.ty == SYSL:
            return v, SYS
        if v.ty == INTS:
            return v, INT
        if v.ty == VLIST:
            return v, VAL
        if v.ty == SUBS:
            return v, SUB
        if v.ty == VAL:
            return self.to(v, VLIST, pre), VAL
        if v.ty == "TUPLE" and all(x.ty == SYS for x in v.items):
            return V("[%s]" % ", ".join(x.code for x in v.items), None), SYS
        raise Unsupported("iteration over a %s: %s" % (v.ty, ast.unparse(node)[:60]))

    def bind_target(self, target, ety, env):
        """loop / comprehension target -> (Lean binder pattern with types, names bound)"""
        if isinstance(target, ast.Name):
            if isinstance(ety, tuple):
                raise Unsupported("a single name for a pair")
            env[target.id] = V(lean_name(target.id), ety)
            return "(%s : %s)" % (lean_name(target.id), self.ty(ety)), [target.id]
        if isinstance(target, ast.Tuple) and isinstance(ety, tuple) and len(target.elts) == len(ety) \
                and all(isinstance(e, ast.Name) for e in target.elts):
            for e, t in zip(target.elts, ety):
                env[e.id] = V(lean_name(e.id), t)
            return ("((%s) : %s)" % (", ".join(lean_name(e.id) for e in target.elts), self.ty(ety)),
                    [e.id for e in target.elts])
        raise Unsupported("loop target %s" % ast.unparse(target)[:40])

    def comp_parts(self, node, env, pre):
        if len(node.generators) != 1:
            raise Unsupported("comprehension with several generators")
        g = node.generators[0]
        if g.ifs or g.is_async:
            raise Unsupported("comprehension %s" % ast.unparse(node)[:60])
        src, ety = self.iterable(g.iter, env, pre)
        inner = dict(env)
        pat, _ = self.bind_target(g.target, ety, inner)
        return src, pat, inner

    def listcomp(self, node, env, pre, want=None):
        src, pat, inner = self.comp_parts(node, env, pre)
        sub, e = self.scoped(lambda p: self.expr(node.elt, inner, p))
        if e.ty == "TUPLE" or want == VAL:
            sub2, e = self.scoped(lambda p: self.tuple_val(e, p))
            sub += sub2
        if e.ty in (INT, NAT):
            sub2, e = self.scoped(lambda p: self.to(e, INT, p))
            sub += sub2
            rty = INTS
        elif e.ty == VAL:
            rty = VLIST
        else:
            raise Unsupported("list of %s" % e.ty)
        ety = INT if rty == INTS else VAL
        if not sub:
            return V("(%s.map fun %s => %s)" % (src.code, pat, e.code), rty)
        t = self.tmp()
        pre.append("let %s ← %s.mapM fun %s => (do" % (t, src.code, pat))
        pre.extend(_ind(sub + ["pure %s" % e.code], 4))
        pre.append("    : Except Err (%s))" % self.ty(ety))
        return V(t, rty)

    def dictcomp(self, node, env, pre):
        src, pat, inner = self.comp_parts(node, env, pre)
        sub, kv = self.scoped(lambda p: (self.expr(node.key, inner, p), self.expr(node.value, inner, p)))
        k, v = kv
        if sub or k.ty != STRING or v.ty not in (INT, NAT):
            raise Unsupported("dictionary comprehension %s" % ast.unparse(node)[:60])
        v = self.to(v, INT, [])
        return V("(%s.map fun %s => (%s, %s))" % (src.code, pat, k.code, v.code), DICT)

    def inline(self, fn, args, env, pre):
        params, body = fn
        if len(params) != len(args):
            raise Unsupported("call of a lambda with %d arguments" % len(args))
        inner = dict(env)
        for p, a in zip(params, args):
            inner[p] = a
        return self.expr(body, inner, pre)

    def call(self, node, env, pre):
        r = self.hooks.call(node, env, pre)
        if r is not None:
            return r
        f = node.func
        if isinstance(f, ast.Name) and f.id in env and env[f.id].ty == FUN and not node.keywords:
            args = [self.expr(a, env, pre) for a in node.args]
            return self.inline(env[f.id].fun, args, env, pre)
        if isinstance(f, ast.Name) and not node.keywords:
            if f.id == "isinstance" and len(node.args) == 2:
                x = self.expr(node.args[0], env, pre)
                r = self.hooks.isinstance(x, node.args[1], node)
                if r is not None:
                    return r
                cl = self.cls_list(node.args[1])
                if cl is None:
                    raise Unsupported("isinstance against %s" % ast.unparse(node.args[1])[:60])
                if x.ty == VAL:
                    return V("(PyIC.isinstance %s %s)" % (x.code, cl), BOOL)
                if x.ty == NONE:
                    return V("false", BOOL, lit=False)
                raise Unsupported("isinstance on a %s" % x.ty)
            if f.id == "len" and len(node.args) == 1:
                x = self.expr(node.args[0], env, pre)
                if x.ty == VAL:
                    return self.bind(pre, "PyIC.len %s" % x.code, INT)
                if x.ty in (SYSL, INTS, LABELS, VLIST, DICT, SUBS, VEC):
                    return V("%s.length" % x.code, NAT)
                if x.ty == "TUPLE":
                    return V("(%d : Int)" % len(x.items), INT, lit=len(x.items))
                raise Unsupported("len of a %s" % x.ty)
            if f.id == "list" and len(node.args) == 1:
                a = node.args[0]
                if isinstance(a, ast.Call) and isinstance(a.func, ast.Name) and a.func.id == "range" \
                        and len(a.args) == 1 and not a.keywords:
                    n = self.to(self.expr(a.args[0], env, pre), INT, pre)
                    return V("(PyIC.listRange %s)" % n.code, VAL)
                x = self.expr(a, env, pre)
                if x.ty in (SYSL, INTS, VLIST, SUBS):
                    return x
                if x.ty == "TUPLE" and all(i.ty == SYS for i in x.items):
                    return V("[%s]" % ", ".join(i.code for i in x.items), SYSL)
                raise Unsupported("list(%s)" % x.ty)
            if f.id == "all" and len(node.args) == 1 and isinstance(node.args[0], ast.ListComp):
                lc = node.args[0]
                g = lc.generators[0]
                e = lc.elt
                if len(lc.generators) == 1 and not g.ifs and isinstance(g.target, ast.Name) \
                        and isinstance(e, ast.Call) and isinstance(e.func, ast.Name) and e.func.id == "isinstance" \
                        and len(e.args) == 2 and isinstance(e.args[0], ast.Name) and e.args[0].id == g.target.id \
                        and self.cls_list(e.args[1]) is not None:
                    src = self.expr(g.iter, env, pre)
                    if src.ty == VAL:
                        return self.bind(pre, "PyIC.allIsinstance %s %s" % (src.code, self.cls_list(e.args[1])), BOOL)
                raise Unsupported("all(%s)" % ast.unparse(lc)[:60])
            if f.id == "sum" and len(node.args) == 1 and isinstance(node.args[0], ast.GeneratorExp):
                ge = node.args[0]
                src, pat, inner = self.comp_parts(ge, env, pre)
                sub, e = self.scoped(lambda p: self.expr(ge.elt, inner, p))
                if sub or e.ty not in (INT, NAT):
                    raise Unsupported("sum(%s)" % ast.unparse(ge)[:60])
                if e.ty == NAT:
                    return V("(%s.map fun %s => %s).sum" % (src.code, pat, e.code), NAT)
                return V("(%s.map fun %s => %s).sum" % (src.code, pat, e.code), INT)
            if f.id == "getattr" and len(node.args) == 2:
                x = self.expr(node.args[0], env, pre)
                nm = self.to(self.expr(node.args[1], env, pre), STRING, pre)
                if x.ty == SYS:
                    return self.bind(pre, "PyIC.getattrIndex %s %s" % (x.code, nm.code), LABELS)
                raise Unsupported("getattr on a %s" % x.ty)
            if f.id == "str" and len(node.args) == 1:
                return V('""', STRING)        # only feeds messages
        if isinstance(f, ast.Attribute) and not node.keywords:
            if ast.unparse(f) == "re.split" and len(node.args) == 2 and isinstance(node.args[0], ast.Constant) \
                    and node.args[0].value == r"\." :
                x = self.to(self.expr(node.args[1], env, pre), VAL, pre)
                return self.bind(pre, "PyIC.reSplitDot %s" % x.code, VAL)
            if ast.unparse(f) == "np.zeros" and len(node.args) == 1 and isinstance(node.args[0], ast.Tuple) \
                    and len(node.args[0].elts) == 2:
                a, b = [self.expr(x, env, pre) for x in node.args[0].elts]
                if a.ty == NAT and b.ty == NAT:
                    return V("(PMat.zeros %s %s)" % (a.code, b.code), MAT)
                a, b = self.to(a, INT, pre), self.to(b, INT, pre)
                return self.bind(pre, "PMat.zerosI %s %s" % (a.code, b.code), MAT)
            if ast.unparse(f) == "np.eye" and len(node.args) == 2:
                a, b = [self.expr(x, env, pre) for x in node.args]
                if a.ty == NAT and b.ty == NAT:
                    return V("(PyIC.eyeRect %s %s)" % (a.code, b.code), MAT)
                raise Unsupported("np.eye(%s, %s)" % (a.ty, b.ty))
            if ast.unparse(f) == "np.block" and len(node.args) == 1 and isinstance(node.args[0], ast.List) \
                    and all(isinstance(r, ast.List) for r in node.args[0].elts):
                rows = []
                for r in node.args[0].elts:
                    vs = [self.expr(x, env, pre) for x in r.elts]
                    if any(v.ty != MAT for v in vs):
                        raise Unsupported("np.block of %s" % [v.ty for v in vs])
                    rows.append("[%s]" % ", ".join(v.code for v in vs))
                return self.bind(pre, "PMat.block [%s]" % ", ".join(rows), MAT)
            if f.attr == "get" and len(node.args) == 2 and isinstance(node.args[1], ast.Constant) \
                    and node.args[1].value is None:
                d = self.expr(f.value, env, pre)
                if d.ty == DICT:
                    k = self.to(self.expr(node.args[0], env, pre), VAL, pre)
                    return self.bind(pre, "PyIC.dictGet %s %s" % (d.code, k.code), VAL)
            if f.attr == "_find_signals" and len(node.args) == 2:
                recv = self.expr(f.value, env, pre)           # evaluated first (may raise IndexError)
                if recv.ty != SYS:
                    raise Unsupported("_find_signals of a %s" % recv.ty)
                a = self.to(self.expr(node.args[0], env, pre), VAL, pre)
                d = self.expr(node.args[1], env, pre)
                if d.ty != LABELS:
                    raise Unsupported("_find_signals with a %s" % d.ty)
                self.note("`_find_signals` is not translated: `PyIC.findSignals` (the model's `findSignals` on the "
                          "groups the harness computed with the regular expressions)")
                return self.bind(pre, "PyIC.findSignals %s %s" % (d.code, a.code), VAL)
        raise Unsupported("call %s" % ast.unparse(node)[:80])

    # -- statements ---------------------------------------------------------------------------------
    def is_doc(self, s):
        return isinstance(s, ast.Expr) and isinstance(s.value, ast.Constant) and isinstance(s.value.value, str)

    def target_name(self, t):
        if isinstance(t, ast.Name):
            return t.id
        if isinstance(t, ast.Attribute) and isinstance(t.value, ast.Name) and t.value.id == "self":
            return "self." + t.attr
        return None

    def let(self, name, v, env, pre):
        """bind the Python variable `name` to `v`; returns the lines"""
        if v.ty in ("TUPLE", FUN, DTX):
            env[name] = v
            return pre
        if v.ty == NONE:
            v = V("Val.none", VAL)
        if v.lit is not None and v.ty == INT:
            v = V("(%d : Int)" % v.lit, INT)
        if v.lit is not None and v.ty == STRING:
            v = V(v.code, STRING)
        want = self.hooks.declared.get(name)
        if want is not None and v.ty != want:
            if want == INTS and v.code == "(Val.list [])":
                v = V("([] : List Int)", INTS)
            else:
                v = self.to(v, want, pre)
        ln = lean_name(name)
        if pre and re.fullmatch(r"t\d+", v.code or "") and pre[-1].startswith("let %s ← " % v.code) \
                and v.code not in self.cache.values():
            last = pre.pop()
            lines = pre + ["let %s ← %s" % (ln, last[len("let %s ← " % v.code):])]
        elif pre and re.fullmatch(r"t\d+", v.code or "") and self._block_start(pre, v.code) is not None \
                and v.code not in self.cache.values():
            k = self._block_start(pre, v.code)
            lines = pre[:k] + ["let %s ← %s" % (ln, pre[k][len("let %s ← " % v.code):])] + pre[k + 1:]
        else:
            lines = pre + ["let %s : %s := %s" % (ln, self.ty(v.ty), v.code)]
        self.forget(ln)
        env[name] = V(ln, v.ty)
        return lines

    def _block_start(self, pre, t):
        """index of `let t ← (do` when the multi-line block it starts is the last thing in `pre`"""
        for k in range(len(pre) - 1, -1, -1):
            if not pre[k].startswith(" "):
                return k if pre[k].startswith("let %s ← (do" % t) or pre[k].startswith("let %s ← " % t) and \
                    pre[k].endswith("(do") else None
        return None

    def assigned(self, stmts):
        out = []
        for s in stmts:
            for n in ast.walk(s):
                targets = []
                if isinstance(n, ast.Assign):
                    targets = n.targets
                elif isinstance(n, (ast.AugAssign, ast.AnnAssign)):
                    targets = [n.target]
                elif isinstance(n, ast.Expr) and isinstance(n.value, ast.Call) \
                        and isinstance(n.value.func, ast.Attribute) and n.value.func.attr == "append":
                    targets = [n.value.func.value]
                for t in targets:
                    for x in ([t] if not isinstance(t, ast.Tuple) else t.elts):
                        if isinstance(x, ast.Subscript):
                            x = x.value
                        nm = self.target_name(x)
                        if nm is not None and nm not in out:
                            out.append(nm)
        return out

    def pack(self, vals):
        return vals[0] if len(vals) == 1 else "(" + ", ".join(vals) + ")"

    def ends(self, stmts):
        """every path through the statement list ends in return / raise"""
        stmts = [s for s in stmts if not self.is_doc(s)]
        if not stmts:
            return False
        s = stmts[-1]
        if isinstance(s, (ast.Return, ast.Raise, ast.Break)):
            return True
        if isinstance(s, ast.If):
            return bool(s.orelse) and self.ends(s.body) and self.ends(s.orelse)
        return False

    def raise_stmt(self, s):
        e = s.exc
        if isinstance(e, ast.Call) and isinstance(e.func, ast.Name):
            msg = literal_text(e.args[0]) if e.args else ""
            return "throw Err.%s" % classify_raise(e.func.id, msg)
        raise Unsupported("raise %s" % ast.unparse(s)[:60])

    def only_warns(self, stmts):
        return bool(stmts) and all(
            isinstance(s, ast.Expr) and isinstance(s.value, ast.Call)
            and ast.unparse(s.value.func) in ("warn", "warnings.warn", "ValueError", "TypeError") for s in stmts)

    def seq(self, stmts, env, tail):
        """translate a statement list; returns (lines, ended).  `tail`: None = the block must end in
        return / raise; a list of (name, type) = ends with `pure (those variables)`; [] = `pure ()`."""
        lines = []
        stmts = [s for s in stmts if not self.is_doc(s) and not isinstance(s, ast.Pass)]
        for idx, s in enumerate(stmts):
            rest = stmts[idx + 1:]
            r = self.hooks.stmt(s, rest, env, tail)
            if r is not None:
                sub, done = r
                lines += sub
                if done:
                    return lines, True
                continue
            if isinstance(s, ast.Raise):
                return lines + [self.raise_stmt(s)], True
            if isinstance(s, ast.Return):
                return lines + self.return_stmt(s, env), True
            if isinstance(s, ast.Assign) and len(s.targets) == 1:
                lines += self.assign(s.targets[0], s.value, env)
                continue
            if isinstance(s, ast.AugAssign):
                lines += self.augassign(s, env)
                continue
            if isinstance(s, ast.Expr):
                lines += self.expr_stmt(s, env)
                continue
            if isinstance(s, ast.For):
                lines += self.for_stmt(s, env)
                continue
            if isinstance(s, ast.Try):
                lines += self.try_stmt(s, env)
                continue
            if isinstance(s, ast.While):
                lines += self.while_stmt(s, env)
                continue
            if isinstance(s, ast.Break):
                if not (isinstance(tail, tuple) and tail[0] == "loop"):
                    raise Unsupported("break outside a translated while loop")
                pre = []
                vals = [self.to(env[nm], t, pre).code for nm, t in tail[1]]
                return lines + pre + ["pure (%s, true)" % self.pack(vals)], True
            if isinstance(s, ast.If):
                if self.only_warns(s.body) and not s.orelse:
                    self.note("`if %s: %s(...)` skipped (a warning / an exception object that is not raised has no "
                              "effect on the result)" % (ast.unparse(s.test)[:70], ast.unparse(s.body[0].value.func)))
                    continue
                pre = []
                c = self.test(s.test, env, pre)
                if c.lit is not None:
                    taken = s.body if c.lit else s.orelse
                    self.note("the test `%s` is %s" % (ast.unparse(s.test)[:70], c.lit))
                    sub, ended = self.seq(list(taken) + rest, env, tail)
                    return lines + pre + sub, ended
                lines += pre
                b_end, e_end = self.ends(s.body), self.ends(s.orelse)
                if b_end and e_end:
                    bl, _ = self.in_branch(list(s.body), dict(env), None)
                    el, _ = self.in_branch(list(s.orelse), dict(env), None)
                    return lines + ["if %s then" % c.code] + _ind(bl) + ["else"] + _ind(el), True
                if self.returns(s.body) or self.returns(s.orelse):
                    # a branch returns early: the rest of the block goes into the other branch
                    bl, _ = self.in_branch(list(s.body) + ([] if b_end else rest), dict(env), tail)
                    el, _ = self.in_branch(list(s.orelse) + ([] if e_end else rest), dict(env), tail)
                    return lines + ["if %s then" % c.code] + _ind(bl) + ["else"] + _ind(el), True
                lines += self.if_join(s, c, env, b_end, e_end)
                continue
            raise Unsupported("statement %s" % ast.unparse(s)[:60])
        if tail is None:
            raise Unsupported("a path falls off the end of the block")
        if isinstance(tail, tuple) and tail[0] == "loop":
            pre = []
            vals = []
            for nm, t in tail[1]:
                if nm not in env:
                    raise Unsupported("`%s` is not defined on every path" % nm)
                vals.append(self.to(env[nm], t, pre).code)
            return lines + pre + ["pure (%s, false)" % self.pack(vals)], False
        vals = []
        pre = []
        for nm, t in tail:
            if nm not in env:
                raise Unsupported("`%s` is not defined on every path" % nm)
            vals.append(self.to(env[nm], t, pre).code)
        return lines + pre + ["pure %s" % (self.pack(vals) if vals else "()")], False

    def in_branch(self, stmts, env, tail):
        saved = dict(self.cache)
        r = self.seq(stmts, env, tail)
        self.cache = saved
        return r

    def returns(self, stmts):
        return any(isinstance(n, (ast.Return, ast.Break)) for s in stmts for n in ast.walk(s))

    def if_join(self, s, c, env, b_end, e_end):
        """an `if` whose branches re-bind variables: a join returning the tuple of those variables; a
        branch that ends in `raise` simply throws"""
        save = self.ntmp
        benv, eenv = dict(env), dict(env)
        self.in_branch(list(s.body), benv, [])
        self.in_branch(list(s.orelse), eenv, [])
        self.ntmp = save
        names = self.assigned(list(s.body) + list(s.orelse))
        live = []
        for nm in names:
            tb = None if b_end else benv.get(nm)
            te = None if e_end else eenv.get(nm)
            if b_end:
                tb = te
            if e_end:
                te = tb
            if tb is None or te is None:
                continue
            if tb.ty in ("TUPLE", FUN) or te.ty in ("TUPLE", FUN):
                raise Unsupported("`%s` is a static tuple / function after an if" % nm)
            live.append((nm, self.join_ty(tb.ty, te.ty)))
        if not live:
            # no variable survives: the statement can only raise
            bl, _ = self.in_branch(list(s.body), dict(env), [])
            el, _ = self.in_branch(list(s.orelse), dict(env), [])
            return ["if %s then" % c.code] + _ind(bl) + ["else"] + _ind(el)
        bl, _ = self.in_branch(list(s.body), dict(env), None if b_end else live)
        el, _ = self.in_branch(list(s.orelse), dict(env), None if e_end else live)
        pat = lean_name(live[0][0]) if len(live) == 1 else "(" + ", ".join(lean_name(nm) for nm, _ in live) + ")"
        lines = ["let %s ← (do" % pat] + _ind(["if %s then" % c.code] + _ind(bl) + ["else"] + _ind(el)) \
            + ["  : Except Err (%s))" % self.ty(tuple(t for _, t in live) if len(live) > 1 else live[0][1])]
        for nm, t in live:
            self.forget(lean_name(nm))
            env[nm] = V(lean_name(nm), t)
        for nm in names:
            if nm not in [x for x, _ in live]:
                env.pop(nm, None)
        return lines

    def return_stmt(self, s, env):
        pre = []
        if s.value is None:
            raise Unsupported("bare return")
        v = self.expr(s.value, env, pre)
        r = self.hooks.return_value(v, pre)
        if r is not None:
            return pre + ["pure %s" % r]
        if isinstance(self.ret, tuple):
            if v.ty != "TUPLE" or len(v.items) != len(self.ret):
                raise Unsupported("return value %s" % ast.unparse(s.value)[:60])
            vals = [self.to(x, t, pre).code for x, t in zip(v.items, self.ret)]
            return pre + ["pure (%s)" % ", ".join(vals)]
        return pre + ["pure %s" % self.to(v, self.ret, pre).code]

    def assign(self, target, value, env):
        self.cache_scope()
        r = self.hooks.assign(target, value, env)
        if r is not None:
            return r
        pre = []
        if isinstance(target, ast.Tuple):
            names = [self.target_name(t) for t in target.elts]
            if any(n is None for n in names):
                raise Unsupported("assignment target %s" % ast.unparse(target)[:60])
            v = self.expr(value, env, pre)
            if v.ty == "TUPLE" and len(v.items) == len(names):
                # all right-hand sides are evaluated first
                used = {n.id for x in ast.walk(value) for n in [x] if isinstance(n, ast.Name)}
                lines = pre
                if any(n in used for n in names):
                    tmps = []
                    for x in v.items:
                        t = self.tmp()
                        x = V("Val.none", VAL) if x.ty == NONE else x
                        lines.append("let %s : %s := %s" % (t, self.ty(x.ty), x.code))
                        tmps.append(V(t, x.ty))
                    items = tmps
                else:
                    items = v.items
                for n, x in zip(names, items):
                    lines = self.let(n, x, env, lines)
                return lines
            if v.ty == "RESULT":                 # a call returning a Lean tuple
                tys = v.items
                if len(tys) != len(names):
                    raise Unsupported("unpacking %d values into %d names" % (len(tys), len(names)))
                lns = [lean_name(n) for n in names]
                for n, ln, t in zip(names, lns, tys):
                    self.forget(ln)
                    env[n] = V(ln, t)
                return pre + ["let (%s) ← %s" % (", ".join(lns), v.code)]
            raise Unsupported("tuple assignment %s" % ast.unparse(target)[:60])
        if isinstance(target, ast.Subscript) and isinstance(target.slice, ast.Slice) and target.slice.step is None \
                and target.slice.lower is not None and target.slice.upper is not None:
            nm = self.target_name(target.value)
            if nm in env and env[nm].ty == VEC:
                lo = self.to(self.expr(target.slice.lower, env, pre), INT, pre)
                hi = self.to(self.expr(target.slice.upper, env, pre), INT, pre)
                v = self.expr(value, env, pre)
                if v.ty != VEC:
                    raise Unsupported("slice assignment of a %s" % v.ty)
                ln = lean_name(nm)
                line = "let %s ← PyIC.setSliceVec %s %s %s %s" % (ln, env[nm].code, lo.code, hi.code, v.code)
                self.forget(ln)
                env[nm] = V(ln, VEC)
                return pre + [line]
        name = self.target_name(target)
        if name is None:
            raise Unsupported("assignment target %s" % ast.unparse(target)[:60])
        v = self.expr(value, env, pre)
        if v.ty == "RESULT":
            raise Unsupported("a tuple result bound to one name")
        return self.let(name, v, env, pre)

    def cache_scope(self):
        """coercions are cached per statement only"""
        self.cache = {}

    def augassign(self, s, env):
        self.cache_scope()
        r = self.hooks.augassign(s, env)
        if r is not None:
            return r
        t = s.target
        if isinstance(t, ast.Subscript) and isinstance(s.op, ast.Add) and isinstance(t.slice, ast.Tuple) \
                and len(t.slice.elts) == 2:
            nm = self.target_name(t.value)
            if nm in env and env[nm].ty == MAT:
                pre = []
                i = self.to(self.expr(t.slice.elts[0], env, pre), INT, pre)
                j = self.to(self.expr(t.slice.elts[1], env, pre), INT, pre)
                g = self.to(self.expr(s.value, env, pre), NUM, pre)
                ln = lean_name(nm)
                line = "let %s ← PyIC.addAt %s %s %s %s" % (ln, env[nm].code, i.code, j.code, g.code)
                self.forget(ln)
                env[nm] = V(ln, MAT)
                return pre + [line]
        name = self.target_name(s.target)
        if name is None or name not in env:
            raise Unsupported("augmented assignment %s" % ast.unparse(s)[:60])
        pre = []
        v = self.binop(ast.BinOp(left=s.target, op=s.op, right=s.value), env, pre)
        return self.let(name, v, env, pre)

    def expr_stmt(self, s, env):
        self.cache_scope()
        r = self.hooks.expr_stmt(s, env)
        if r is not None:
            return r
        c = s.value
        if isinstance(c, ast.Call):
            fn = ast.unparse(c.func)
            if fn in ("warn", "warnings.warn"):
                self.note("warn(...) skipped (a warning has no effect on the result)")
                return []
            if isinstance(c.func, ast.Name) and c.func.id in ("ValueError", "TypeError", "RuntimeError"):
                self.note("`%s(...)` without `raise` has no effect" % c.func.id)
                return []
            if isinstance(c.func, ast.Attribute) and c.func.attr == "append" and len(c.args) == 1 and not c.keywords:
                nm = self.target_name(c.func.value)
                if nm in env and env[nm].ty == INTS:
                    pre = []
                    v = self.to(self.expr(c.args[0], env, pre), INT, pre)
                    ln = lean_name(nm)
                    self.forget(ln)
                    env[nm] = V(ln, INTS)
                    return pre + ["let %s : List Int := %s ++ [%s]" % (ln, env[nm].code, v.code)]
        raise Unsupported("statement %s" % ast.unparse(s)[:60])

    def try_stmt(self, s, env):
        """`try: body  except ValueError: handler` where both re-bind the same variables"""
        self.cache_scope()
        if s.orelse or s.finalbody or len(s.handlers) != 1:
            raise Unsupported("try statement shape")
        h = s.handlers[0]
        if not (isinstance(h.type, ast.Name) and h.type.id == "ValueError" and h.name is None):
            raise Unsupported("exception handler %s" % ast.unparse(h)[:60])
        if self.returns(s.body) or self.returns(h.body):
            raise Unsupported("return inside try")
        save = self.ntmp
        benv, henv = dict(env), dict(env)
        self.in_branch(list(s.body), benv, [])
        self.in_branch(list(h.body), henv, [])
        self.ntmp = save
        names = self.assigned(list(s.body) + list(h.body))
        live = []
        for nm in names:
            tb, th = benv.get(nm), henv.get(nm)
            if tb is None or th is None:
                continue
            if tb.ty in ("TUPLE", FUN) or th.ty in ("TUPLE", FUN):
                raise Unsupported("`%s` is a static tuple / function after a try" % nm)
            live.append((nm, self.join_ty(tb.ty, th.ty)))
        if not live:
            raise Unsupported("a try statement without effect")
        bl, _ = self.in_branch(list(s.body), dict(env), live)
        hl, _ = self.in_branch(list(h.body), dict(env), live)
        pat = lean_name(live[0][0]) if len(live) == 1 else "(" + ", ".join(lean_name(nm) for nm, _ in live) + ")"
        ty = tuple(t for _, t in live) if len(live) > 1 else live[0][1]
        lines = ["let %s ← PyIC.tryExcept" % pat] + _ind(self.sub_do(bl, ty), 4) + ["    PyIC.isValueError"] \
            + _ind(self.sub_do(hl, ty), 4)
        for nm, t in live:
            self.forget(lean_name(nm))
            env[nm] = V(lean_name(nm), t)
        return lines

    def while_stmt(self, s, env):
        """`while test: body` (the body may `break`): `PyIC.whileLoop` over the tuple of the variables the
        body re-binds, bounded by the parameter `fuel`"""
        self.cache_scope()
        if s.orelse:
            raise Unsupported("while ... else")
        carried = [n for n in self.assigned(s.body) if n in env and env[n].ty not in ("TUPLE", FUN, DTX)]
        st = [(n, env[n].ty) for n in carried]
        if not st:
            raise Unsupported("a while loop without effect")
        if any(isinstance(n, ast.Return) for x in s.body for n in ast.walk(x)):
            raise Unsupported("return inside a while loop")
        names, tys = [n for n, _ in st], [t for _, t in st]
        sty = self.ty(tuple(tys) if len(tys) > 1 else tys[0])
        spat = lean_name(names[0]) if len(st) == 1 else "(" + ", ".join(lean_name(n) for n in names) + ")"
        cenv = dict(env)
        for n, t in st:
            cenv[n] = V(lean_name(n), t)
        cpre = []
        c = self.test(s.test, cenv, cpre)
        if c.lit is not None:
            raise Unsupported("a while loop with a constant test")
        self.cache = {}
        bl, _ = self.in_branch(list(s.body), dict(cenv), ("loop", st))
        unpack = ["let %s := st" % spat] if len(st) > 1 else []
        var = "st" if len(st) > 1 else spat
        init = self.pack([env[n].code for n in names])
        lines = ["let %s ← PyIC.whileLoop" % spat,
                 "    (fun (%s : %s) => (do" % (var, sty)] + _ind(unpack + cpre + ["pure %s" % c.code], 8) \
            + ["        : Except Err Bool))",
               "    (fun (%s : %s) => (do" % (var, sty)] + _ind(unpack + bl, 8) \
            + ["        : Except Err ((%s) × Bool)))" % sty,
               "    fuel %s" % init]
        for n, t in st:
            self.forget(lean_name(n))
            env[n] = V(lean_name(n), t)
        self.uses_fuel = True
        return lines

    def for_stmt(self, s, env):
        self.cache_scope()
        if s.orelse:
            raise Unsupported("for ... else")
        pre = []
        src, ety = self.iterable(s.iter, env, pre)
        benv = dict(env)
        pat, bound = self.bind_target(s.target, ety, benv)
        carried = [n for n in self.assigned(s.body) if n in env and n not in bound
                   and env[n].ty not in ("TUPLE", FUN)]
        st = [(n, env[n].ty) for n in carried]
        for n, t in st:
            benv[n] = V(lean_name(n), t)
        if self.returns(s.body):
            raise Unsupported("return inside a loop")
        self.loop_targets = self.loop_targets + bound
        try:
            return self.for_body(s, env, benv, st, pre, src, pat)
        finally:
            self.loop_targets = self.loop_targets[:len(self.loop_targets) - len(bound)]

    def for_body(self, s, env, benv, st, pre, src, pat):
        if not st:
            bl, ended = self.in_branch(list(s.body), benv, [])
            return pre + ["List.forM %s fun %s => (do" % (src.code, pat)] + _ind(bl, 4) + ["    : Except Err Unit)"]
        names, tys = [n for n, _ in st], [t for _, t in st]
        sty = self.ty(tuple(tys) if len(tys) > 1 else tys[0])
        spat = lean_name(names[0]) if len(st) == 1 else "(" + ", ".join(lean_name(n) for n in names) + ")"
        bl, ended = self.in_branch(list(s.body), benv, st)
        init = self.pack([env[n].code for n in names])
        lines = pre + ["let %s ← List.foldlM (fun (%s : %s) %s => (do" % (
            spat, spat if len(st) == 1 else "st", sty, pat)]
        if len(st) > 1:
            lines += ["    let %s := st" % spat]
        lines += _ind(bl, 4) + ["    : Except Err (%s))) %s %s" % (sty, init, src.code)]
        for n, t in st:
            self.forget(lean_name(n))
            env[n] = V(lean_name(n), t)
        return lines


class Hooks:
    """job-specific extensions of the core translator; each returns None when it does not apply"""
    tr = None
    declared = {}                   # python name -> static type it must have

    def name(self, node, env):
        return None

    def attribute(self, node, env, pre):
        return None

    def subscript(self, node, env, pre):
        return None

    def compare(self, op, a, b, node, pre):
        return None

    def binop(self, node, a, b, env, pre):
        return None

    def call(self, node, env, pre):
        return None

    def isinstance(self, x, cls, node):
        return None

    def stmt(self, s, rest, env, tail):
        return None

    def assign(self, target, value, env):
        return None

    def augassign(self, s, env):
        return None

    def expr_stmt(self, s, env):
        return None

    def return_value(self, v, pre):
        return None


class ICHooks(Hooks):
    """calls of the generated siblings (`_parse_spec`, `self._parse_input_spec`, `self._parse_output_spec`),
    `isinstance` of a subsystem against `TransferFunction`"""
    PARSE_INPUT_FIELDS = ["self.syslist", "self.input_offset"]
    PARSE_OUTPUT_FIELDS = ["self.syslist", "self.input_offset", "self.output_offset"]

    def __init__(self, declared=None):
        self.declared = declared or {}

    def fields(self, names, env):
        out = []
        for n in names:
            if n not in env:
                raise Unsupported("`%s` is read by a method that is called here but is not yet assigned" % n)
            out.append(env[n].code)
        return " ".join(out)

    def call(self, node, env, pre):
        tr, f = self.tr, node.func
        if isinstance(f, ast.Name) and f.id == "_parse_spec":
            if len(node.args) != 3 or any(k.arg != "dictname" for k in node.keywords) or len(node.keywords) > 1:
                raise Unsupported("call %s" % ast.unparse(node)[:80])
            sl = tr.to(tr.expr(node.args[0], env, pre), SYSL, pre)
            sp = tr.to(tr.expr(node.args[1], env, pre), VAL, pre)
            sn = tr.to(tr.expr(node.args[2], env, pre), STRING, pre)
            dn = "none"
            if node.keywords:
                d = tr.expr(node.keywords[0].value, env, pre)
                if d.ty == NONE:
                    dn = "none"
                else:
                    dn = "(some %s)" % tr.to(d, STRING, pre).code
            return V("icParseSpec %s %s %s %s" % (sl.code, sp.code, sn.code, dn), "RESULT", items=[INT, INTS, NUM])
        if isinstance(f, ast.Attribute) and isinstance(f.value, ast.Name) and f.value.id == "self" \
                and not node.keywords and len(node.args) == 1:
            if f.attr == "_parse_input_spec":
                x = tr.to(tr.expr(node.args[0], env, pre), VAL, pre)
                return tr.bind(pre, "icParseInputSpec %s %s" % (self.fields(self.PARSE_INPUT_FIELDS, env), x.code), INTS)
            if f.attr == "_parse_output_spec":
                x = tr.to(tr.expr(node.args[0], env, pre), VAL, pre)
                return V("icParseOutputSpec %s %s" % (self.fields(self.PARSE_OUTPUT_FIELDS, env), x.code),
                         "RESULT", items=[INTS, NUM])
        return None

    def isinstance(self, x, cls, node):
        if x.ty == SYS and isinstance(cls, ast.Name) and cls.id == "TransferFunction":
            self.tr.note("`%s` is False: transfer functions are outside the model (subsystems are given by "
                         "their signal lists)" % ast.unparse(node))
            return V("false", BOOL, lit=False)
        return None


class OpsHooks(ICHooks):
    """the operator forms of `NonlinearIOSystem`: the operands are I/O systems given by their signal
    lists (`SysSig`), so `_convert_to_iosystem(x)` is `x` and `isinstance(x, InputOutputSystem)` is True;
    timebases (`common_timebase`, `.dt`) and `params` are outside the model; `InterconnectedSystem(...)`
    is the generated `icInit` (keywords other than connections / inplist / outlist / inputs / outputs are
    ignored), `x.set_connect_map(M)` the generated `icSetConnectMap`; `a - b` on systems is the
    generated `__sub__`"""
    OPS = {ast.Sub: "icSub"}

    def __init__(self):
        ICHooks.__init__(self)

    def isinstance(self, x, cls, node):
        if x.ty == SYS and isinstance(cls, ast.Name) and cls.id == "InputOutputSystem":
            self.tr.note("`%s` is True: the operand is an I/O system" % ast.unparse(node))
            return V("true", BOOL, lit=True)
        return ICHooks.isinstance(self, x, cls, node)

    def attribute(self, node, env, pre):
        if node.attr == "dt" and isinstance(node.value, ast.Name) and node.value.id in env \
                and env[node.value.id].ty == SYS:
            return V("PyIC.dtNotModelled", DTX)
        return None

    def call(self, node, env, pre):
        tr, f = self.tr, node.func
        if isinstance(f, ast.Name) and f.id == "_convert_to_iosystem" and len(node.args) == 1 and not node.keywords:
            x = tr.expr(node.args[0], env, pre)
            if x.ty == SYS:
                tr.note("`_convert_to_iosystem(%s)`: the operand is an I/O system already (numbers, arrays and "
                        "StateSpace operands are outside the model)" % ast.unparse(node.args[0]))
                return x
            raise Unsupported("_convert_to_iosystem of a %s" % x.ty)
        if isinstance(f, ast.Name) and f.id == "common_timebase":
            tr.note("`%s`: timebases are outside the model (C05)" % ast.unparse(node)[:60])
            return V("PyIC.dtNotModelled", DTX)
        if isinstance(f, ast.Name) and f.id == "InterconnectedSystem":
            if len(node.args) != 1:
                raise Unsupported("InterconnectedSystem(%d positional arguments)" % len(node.args))
            sl = tr.expr(node.args[0], env, pre)
            if sl.ty == "TUPLE" and all(x.ty == SYS for x in sl.items):
                sl = V("[%s]" % ", ".join(x.code for x in sl.items), SYSL)
            if sl.ty != SYSL:
                raise Unsupported("system list of type %s" % sl.ty)
            kw = {}
            for k in node.keywords:
                if k.arg is None:
                    raise Unsupported("**kwargs in a constructor call")
                kw[k.arg] = k.value
            args = []
            for key in ("connections", "inplist", "outlist", "inputs", "outputs"):
                if key in kw:
                    args.append(tr.to(tr.expr(kw.pop(key), env, pre), VAL, pre).code)
                else:
                    args.append("Val.none")
            if kw:
                tr.note("keyword(s) %s of InterconnectedSystem(...) ignored (outside the model)" % ", ".join(sorted(kw)))
            return tr.bind(pre, "icInit %s %s" % (sl.code, " ".join(args)), ICSYS)
        return ICHooks.call(self, node, env, pre)

    def binop(self, node, a, b, env, pre):
        if a.ty == SYS and b.ty == SYS and type(node.op) in self.OPS:
            return self.tr.bind(pre, "%s %s %s" % (self.OPS[type(node.op)], a.code, b.code), ICSYS)
        return None

    def expr_stmt(self, s, env):
        tr, c = self.tr, s.value
        if isinstance(c, ast.Call) and isinstance(c.func, ast.Name) and c.func.id == "common_timebase":
            tr.note("`%s`: timebases are outside the model (C05)" % ast.unparse(c)[:60])
            return []
        if isinstance(c, ast.Call) and isinstance(c.func, ast.Attribute) and c.func.attr == "set_connect_map" \
                and isinstance(c.func.value, ast.Name) and len(c.args) == 1 and not c.keywords:
            nm = c.func.value.id
            if nm in env and env[nm].ty == ICSYS:
                pre = []
                m = tr.expr(c.args[0], env, pre)
                if m.ty != MAT:
                    raise Unsupported("set_connect_map(%s)" % m.ty)
                t = tr.bind(pre, "icSetConnectMap %s.1 %s" % (env[nm].code, m.code), MAT)
                ln = lean_name(nm)
                line = "let %s : %s := (%s, %s.2.1, %s.2.2)" % (ln, tr.ty(ICSYS), t.code, env[nm].code, env[nm].code)
                env[nm] = V(ln, ICSYS)
                return pre + [line]
        return None

    def return_value(self, v, pre):
        return None


class StaticHooks(Hooks):
    """`_compute_static_io`, `_rhs`, `_out`: 1-D arrays are `List K`, the subsystems' `_out` / `_rhs` are the
    fields `out` / `rhs` of `PyIC.Subsys` (parameters), `np.array(x, ndmin=1)` and `.reshape((-1,))` of a 1-D
    array are the array itself"""
    STATIC_FIELDS = ["self.connect_map", "self.input_map", "self.syslist"]

    def __init__(self):
        self.declared = {}

    def call(self, node, env, pre):
        tr, f = self.tr, node.func
        fn = ast.unparse(f)
        if fn == "np.dot" and len(node.args) == 2 and not node.keywords:
            a, b = [tr.expr(x, env, pre) for x in node.args]
            if a.ty == MAT and b.ty == VEC:
                return tr.bind(pre, "PyIC.matVec %s %s" % (a.code, b.code), VEC)
            raise Unsupported("np.dot(%s, %s)" % (a.ty, b.ty))
        if fn == "np.zeros" and len(node.args) == 1 and isinstance(node.args[0], ast.Tuple) \
                and len(node.args[0].elts) == 1 and not node.keywords:
            n = tr.expr(node.args[0].elts[0], env, pre)
            if n.ty == NAT:
                return V("(PyIC.zerosVec %s)" % n.code, VEC)
            raise Unsupported("np.zeros((%s,))" % n.ty)
        if fn == "np.array" and len(node.args) == 1 and [k.arg for k in node.keywords] == ["ndmin"]:
            x = tr.expr(node.args[0], env, pre)
            if x.ty == VEC:
                tr.note("`np.array(x, ndmin=1)` of a 1-D array is the array")
                return x
        if isinstance(f, ast.Attribute) and f.attr == "reshape" and len(node.args) == 1 \
                and ast.unparse(node.args[0]) == "(-1,)":
            x = tr.expr(f.value, env, pre)
            if x.ty == VEC:
                return x
        if isinstance(f, ast.Attribute) and f.attr in ("_out", "_rhs") and len(node.args) == 3 and not node.keywords:
            recv = tr.expr(f.value, env, pre)
            if recv.ty == SUB:
                t, a, b = [tr.expr(x, env, pre) for x in node.args]
                if (t.ty, a.ty, b.ty) != (TIME, VEC, VEC):
                    raise Unsupported("arguments of %s: %s" % (f.attr, (t.ty, a.ty, b.ty)))
                return V("(%s.%s %s %s %s)" % (recv.code, f.attr[1:], t.code, a.code, b.code), VEC)
        if isinstance(f, ast.Attribute) and f.attr == "all" and not node.args and isinstance(f.value, ast.Compare) \
                and len(f.value.ops) == 1 and isinstance(f.value.ops[0], ast.Eq):
            a = tr.expr(f.value.left, env, pre)
            b = tr.expr(f.value.comparators[0], env, pre)
            if a.ty == VEC and b.ty == VEC:
                return V("(PyIC.eqAll %s %s)" % (a.code, b.code), BOOL)
        if fn == "self._compute_static_io" and len(node.args) == 3 and not node.keywords:
            t, a, b = [tr.expr(x, env, pre) for x in node.args]
            if (t.ty, a.ty, b.ty) != (TIME, VEC, VEC):
                raise Unsupported("arguments of _compute_static_io")
            fields = " ".join(env[n].code for n in self.STATIC_FIELDS)
            tr.uses_fuel = True
            return V("icComputeStaticIO fuel %s %s %s %s" % (fields, t.code, a.code, b.code), "RESULT",
                     items=[VEC, VEC])
        return None


def _target_name(t):
    if isinstance(t, ast.Name):
        return t.id
    if isinstance(t, ast.Attribute) and isinstance(t.value, ast.Name) and t.value.id == "self":
        return "self." + t.attr
    return None


def names_read(node, method_fields=None):
    """local names and `self.x` attributes an expression / statement reads"""
    out = set()
    for n in ast.walk(node):
        if isinstance(n, ast.Name) and isinstance(n.ctx, ast.Load) and n.id != "self":
            out.add(n.id)
        elif isinstance(n, ast.Attribute) and isinstance(n.value, ast.Name) and n.value.id == "self":
            if isinstance(n.ctx, ast.Load):
                out.add("self." + n.attr)
            if method_fields and n.attr in method_fields:
                out.update(method_fields[n.attr])
    return out


MUTATORS = ("append", "extend", "insert", "pop", "remove", "clear", "update", "sort", "reverse")


class Slicer:
    """backward slice of a function body with respect to the names that are live at its end: a simple
    statement is kept iff it writes a live name; an `if` whose branches only raise is kept iff its tests
    read live names only; compound statements are kept iff they contain a kept statement"""

    def __init__(self, method_fields, special):
        self.keep = set()
        self.locals = set()                       # names the function binds (parameters, assignments)
        self.method_fields = method_fields        # method name -> the `self.x` fields it reads
        self.special = special                    # stmt -> (writes, reads) for statements read by rule

    def reads(self, node):
        return names_read(node, self.method_fields)

    def simple_rw(self, s):
        """(kills, writes without killing, reads) of a simple statement"""
        sp = self.special(s)
        if sp is not None:
            return sp[0], set(), sp[1]
        kills, mods, reads = set(), set(), set()
        if isinstance(s, ast.Assign):
            reads |= self.reads(s.value)
            for t in s.targets:
                for x in (t.elts if isinstance(t, (ast.Tuple, ast.List)) else [t]):
                    if isinstance(x, ast.Subscript):
                        nm = _target_name(x.value)
                        reads |= self.reads(x.slice)
                        if nm:
                            mods.add(nm)
                    else:
                        nm = _target_name(x)
                        if nm:
                            kills.add(nm)
        elif isinstance(s, ast.AugAssign):
            reads |= self.reads(s.value)
            x = s.target
            if isinstance(x, ast.Subscript):
                reads |= self.reads(x.slice)
                x = x.value
            nm = _target_name(x)
            if nm:
                mods.add(nm)
        elif isinstance(s, ast.Expr) and isinstance(s.value, ast.Call):
            c = s.value
            reads |= self.reads(c)
            if isinstance(c.func, ast.Attribute) and c.func.attr in MUTATORS:
                nm = _target_name(c.func.value)
                if nm:
                    mods.add(nm)
        return kills, mods, reads | mods

    def raise_only(self, s):
        """the tests of an `if / elif` chain whose branches only raise, else None"""
        tests = []
        while True:
            if not (isinstance(s, ast.If) and s.body and all(isinstance(x, ast.Raise) for x in s.body)):
                return None
            tests.append(s.test)
            if not s.orelse:
                return tests
            if len(s.orelse) == 1 and isinstance(s.orelse[0], ast.If):
                s = s.orelse[0]
                continue
            if all(isinstance(x, ast.Raise) for x in s.orelse):
                return tests
            return None

    def run(self, stmts, live):
        live = set(live)
        for s in reversed(stmts):
            if isinstance(s, ast.Return):
                self.keep.add(id(s))
                live |= self.reads(s) if s.value is not None else set()
            elif isinstance(s, ast.If):
                tests = self.raise_only(s)
                if tests is not None:
                    r = set().union(*[self.reads(t) for t in tests]) & self.locals
                    if r <= live:
                        self.mark_all(s)
                        live |= r
                    continue
                before = len(self.keep)
                lb = self.run(s.body, live)
                le = self.run(s.orelse, live)
                if len(self.keep) > before:
                    self.keep.add(id(s))
                    live = lb | le | self.reads(s.test)
            elif isinstance(s, ast.For):
                targets = {n for n in [_target_name(x) for x in (
                    s.target.elts if isinstance(s.target, ast.Tuple) else [s.target])] if n}
                before = len(self.keep)
                out = set(live)
                while True:
                    lb = self.run(s.body, out)
                    new = live | (lb - targets)
                    if new <= out:
                        break
                    out |= new
                if len(self.keep) > before:
                    self.keep.add(id(s))
                    live = live | (lb - targets) | self.reads(s.iter)
            elif isinstance(s, ast.Try):
                before = len(self.keep)
                parts = [self.run(s.body, live)] + [self.run(h.body, live) for h in s.handlers]
                if len(self.keep) > before:
                    self.keep.add(id(s))
                    live = set().union(*parts)
            elif isinstance(s, (ast.Assign, ast.AugAssign, ast.Expr)):
                kills, mods, reads = self.simple_rw(s)
                if (kills | mods) & live:
                    self.keep.add(id(s))
                    live = (live - kills) | reads
            # everything else (imports, nested defs, pass, raise at top level, ...) is outside the slice
        return live

    def mark_all(self, s):
        for n in ast.walk(s):
            if isinstance(n, ast.stmt):
                self.keep.add(id(n))


class InitSlice(ICHooks):
    """`InterconnectedSystem.__init__` is translated as a SLICE (`Slicer`): the statements that the
    three maps `self.connect_map`, `self.input_map`, `self.output_map` depend on (the arguments, the
    counters and offsets, the loops that fill the maps, the checks on those values that raise); every
    other statement (timebase, names and labels, duplicates, states, parameters, ...) is skipped and
    recorded in the generated file.  Two statements are read by rule: `name, inputs, outputs, states,
    _ = _process_iosys_keywords(kwargs)` binds `inputs` / `outputs` to the parameters of the generated
    function (the value of the keyword after keyword processing, `None` when absent), and
    `super().__init__(..., inputs=e1, outputs=e2, ...)` sets `self.ninputs`, `self.noutputs` to
    `PyIC.signalCount e1 / e2`."""
    RESULT = ["self.connect_map", "self.input_map", "self.output_map"]

    def __init__(self):
        ICHooks.__init__(self, {"self.input_offset": INTS, "self.output_offset": INTS})
        self.skipped = []
        self.slicer = Slicer({"_parse_input_spec": self.PARSE_INPUT_FIELDS,
                              "_parse_output_spec": self.PARSE_OUTPUT_FIELDS}, self.special)

    def special(self, s):
        if isinstance(s, ast.Assign) and isinstance(s.value, ast.Call) and isinstance(s.value.func, ast.Name) \
                and s.value.func.id == "_process_iosys_keywords":
            return {"inputs", "outputs"}, set()
        if isinstance(s, ast.Expr) and isinstance(s.value, ast.Call) and ast.unparse(s.value.func) == "super().__init__":
            kw = {k.arg: k.value for k in s.value.keywords if k.arg}
            r = set()
            for key in ("inputs", "outputs"):
                if key in kw:
                    r |= names_read(kw[key])
            return {"self.ninputs", "self.noutputs"}, r
        return None

    def prepare(self, fn):
        loc = {a.arg for a in fn.args.args}
        for n in ast.walk(fn):
            if isinstance(n, (ast.Name, ast.Attribute)) and isinstance(n.ctx, ast.Store):
                nm = _target_name(n)
                if nm:
                    loc.add(nm)
        self.slicer.locals = loc
        self.slicer.run(list(fn.body), set(self.RESULT))

    def stmt(self, s, rest, env, tail):
        tr = self.tr
        if id(s) not in self.slicer.keep:
            if not tr.is_doc(s):
                self.skipped.append(ast.unparse(s).split("\n")[0][:70])
            return [], False
        if isinstance(s, ast.Assign) and isinstance(s.value, ast.Call) and isinstance(s.value.func, ast.Name) \
                and s.value.func.id == "_process_iosys_keywords":
            t = s.targets[0]
            names = [x.id if isinstance(x, ast.Name) else None for x in t.elts] if isinstance(t, ast.Tuple) else []
            if len(s.targets) != 1 or len(names) != 5 or names[1] != "inputs" or names[2] != "outputs":
                raise Unsupported("the unpacking of _process_iosys_keywords: %s" % ast.unparse(s)[:80])
            env["inputs"] = V("inputs", VAL)
            env["outputs"] = V("outputs", VAL)
            tr.note("`%s`: `inputs` / `outputs` are the parameters of the generated function from here on"
                    % ast.unparse(s)[:90])
            return [], False
        if isinstance(s, ast.Expr) and isinstance(s.value, ast.Call) and ast.unparse(s.value.func) == "super().__init__":
            kw = {k.arg: k.value for k in s.value.keywords if k.arg}
            if "inputs" not in kw or "outputs" not in kw:
                raise Unsupported("super().__init__ without inputs= / outputs=")
            lines = []
            for key, attr in (("inputs", "self.ninputs"), ("outputs", "self.noutputs")):
                pre = []
                v = tr.to(tr.expr(kw[key], env, pre), VAL, pre)
                r = tr.bind(pre, "PyIC.signalCount %s" % v.code, NAT)
                lines += tr.let(attr, r, env, pre)
            tr.note("`super().__init__(..., inputs=%s, outputs=%s, ...)` sets `self.ninputs` / `self.noutputs` "
                    "(`PyIC.signalCount`)" % (ast.unparse(kw["inputs"]), ast.unparse(kw["outputs"])))
            return lines, False
        return None


# -------------------------------------------------------------------------------------------------
# jobs
# -------------------------------------------------------------------------------------------------
def check_params(fn, expected, defaults):
    a = fn.args
    if a.vararg or a.kwonlyargs or a.posonlyargs:
        raise Unsupported("signature of %s" % fn.name)
    got = [x.arg for x in a.args]
    if got != expected:
        raise Unsupported("parameters %s of %s, expected %s" % (got, fn.name, expected))
    dflt = {}
    for name, d in zip(got[len(got) - len(a.defaults):], a.defaults):
        if not isinstance(d, ast.Constant) and not (isinstance(d, ast.UnaryOp) and isinstance(d.operand, ast.Constant)):
            raise Unsupported("default value of %s" % name)
        dflt[name] = ast.literal_eval(d)
    if {k: repr(v) for k, v in dflt.items()} != {k: repr(v) for k, v in defaults.items()}:
        raise Unsupported("default values %r of %s, expected %r" % (dflt, fn.name, defaults))


def sha_of(src, fn):
    return hashlib.sha256(ast.get_source_segment(src, fn).encode()).hexdigest()


HEADER = ("-- GENERATED on every run by harness/core/py2lean_ic.py from %s (%s).  Do not edit.\n"
          "%s\nnamespace CtrlVerif.Generated\n\nopen CtrlVerif CtrlVerif.IC CtrlVerif.PyIC\n\n"
          "variable {K : Type} [Field K] [DecidableEq K]\n\n")


def render_def(doc, sig, lines):
    return "/-- %s -/\n%s :=\n  do\n%s\n" % (doc, sig, "\n".join(_ind(lines, 4)))


def failed_def(why, sig):
    return "/-- translation FAILED: %s -/\n%s :=\n  .error .notImplemented\n" % (
        why.replace("\n", " ").replace("-/", "- /")[:300], sig)


def notes_text(tr):
    return "".join("\n  note: %s" % n for n in tr.notes)


# ---- (1) _parse_spec ----------------------------------------------------------------------------
PARSE_SPEC_SIG = ("def icParseSpec (syslist : List SysSig) (spec : Val K) (signame : String) "
                  "(dictname : Option String) :\n    Except Err (Int × List Int × K)")


def translate_parse_spec(repo):
    rel = "control/iosys.py"
    src = open(os.path.join(repo, rel)).read()
    fn = find_def(src, "_parse_spec")
    check_params(fn, ["syslist", "spec", "signame", "dictname"], {"dictname": None})
    tr = Tr()
    tr.ret = (INT, INTS, NUM)
    env = {"syslist": V("syslist", SYSL), "spec": V("spec", VAL), "signame": V("signame", STRING),
           "dictname": V("dictname", OSTRING)}
    lines, ended = tr.seq(list(fn.body), env, None)
    sha = sha_of(src, fn)
    doc = ("`%s:_parse_spec` as the source text says it (sha256 of the function text\n%s).\n"
           "Returns `(system_index, signal_indices, gain)`; strings are `PyIC.Str` (tokenised by the harness)."
           % (rel, sha)) + notes_text(tr)
    return render_def(doc, PARSE_SPEC_SIG, lines), sha


def gen_parse_spec(repo, lean_dir):
    problems = []
    try:
        text, sha = translate_parse_spec(repo)
    except (Unsupported, SyntaxError, OSError, KeyError) as e:
        problems.append("py2lean_ic: control/iosys.py:_parse_spec cannot be translated: %s" % e)
        text, sha = failed_def(str(e), PARSE_SPEC_SIG), "-"
    head = HEADER % ("control/iosys.py", "_parse_spec %s" % sha[:16], "import CtrlVerif.Model.PyIC\n")
    write_if_changed(os.path.join(lean_dir, "CtrlVerif", "Generated", "ICParseSpec.lean"),
                     head + text + "\nend CtrlVerif.Generated\n")
    return problems, {"_parse_spec": sha[:16]}


# ---- (2) InterconnectedSystem._parse_input_spec / _parse_output_spec / __init__ ------------------------
NLSYS = "control/nlsys.py"


class Method:
    """one method of a class of control/nlsys.py: `fields` are the attributes of `self` it reads (they
    become parameters), `params` its other parameters, `ret` the static type(s) of the result"""

    def __init__(self, qual, lean, fields, params, ret, expected, defaults=None, hooks=ICHooks, doc="",
                 result=None, kwarg=None):
        self.qual, self.lean, self.fields, self.params, self.ret = qual, lean, fields, params, ret
        self.expected, self.defaults, self.hooks, self.doc = expected, defaults or {}, hooks, doc
        self.result = result            # names whose final values are the result (a method without `return`)
        self.kwarg = kwarg

    def ret_ty(self, tr):
        if isinstance(self.ret, tuple) and len(self.ret) == 1:
            return tr.ty(self.ret[0])
        return tr.ty(self.ret)

    def signature(self, tr):
        binders = " ".join("(%s : %s)" % (lean_name(n.lstrip("?")), tr.ty(t)) for n, t in self.fields + self.params
                           if t != DTX)
        if getattr(self, "fuel", False):
            binders = "(fuel : Nat) " + binders
        return "def %s %s :\n    Except Err (%s)" % (self.lean, binders, self.ret_ty(tr))

    def translate(self, src):
        fn = find_def(src, self.qual)
        check_params(fn, self.expected, self.defaults)
        if (fn.args.kwarg.arg if fn.args.kwarg else None) != self.kwarg:
            raise Unsupported("**kwargs of %s" % self.qual)
        hooks = self.hooks()
        if hasattr(hooks, "prepare"):
            hooks.prepare(fn)
        tr = Tr(hooks)
        tr.ret = self.ret
        env = {n: V(lean_name(n) if t != DTX else "PyIC.notModelled", t) for n, t in self.fields + self.params
               if not n.startswith("?")}
        tail = None if self.result is None else [(n, t) for n, t in zip(self.result, self.ret)]
        lines, ended = tr.seq(list(fn.body), env, tail)
        sha = sha_of(src, fn)
        doc = "`%s:%s` as the source text says it (sha256 of the function text\n%s).%s" % (
            NLSYS, self.qual, sha, (" " + self.doc) if self.doc else "")
        skipped = getattr(hooks, "skipped", None)
        if skipped:
            doc += "\n  statements outside the slice (skipped): " + "; ".join("`%s`" % x.replace("-/", "- /") for x in skipped)
        doc += notes_text(tr)
        return render_def(doc, self.signature(tr), lines), sha

    def failed(self, why):
        return failed_def(why, self.signature(Tr()))


INIT_METHODS = [
    Method("InterconnectedSystem._parse_input_spec", "icParseInputSpec",
           [("self.syslist", SYSL), ("self.input_offset", INTS)], [("spec", VAL)], INTS, ["self", "spec"],
           doc="`self` is given by the attributes the method reads."),
    Method("InterconnectedSystem._parse_output_spec", "icParseOutputSpec",
           [("self.syslist", SYSL), ("self.input_offset", INTS), ("self.output_offset", INTS)], [("spec", VAL)],
           (INTS, NUM), ["self", "spec"], doc="`self` is given by the attributes the method reads."),
    Method("InterconnectedSystem.__init__", "icInit", [],
           [("syslist", SYSL), ("connections", VAL), ("inplist", VAL), ("outlist", VAL),
            ("?inputs", VAL), ("?outputs", VAL)], (MAT, MAT, MAT),
           ["self", "syslist", "connections", "inplist", "outlist", "params", "warn_duplicate", "connection_type"],
           defaults={"connections": None, "inplist": None, "outlist": None, "params": None,
                     "warn_duplicate": None, "connection_type": None},
           hooks=InitSlice, kwarg="kwargs",
           result=["self.connect_map", "self.input_map", "self.output_map"],
           doc="The SLICE that computes the offsets and the three maps (see `InitSlice` in the translator); "
               "`inputs` / `outputs` are the values of the keywords of that name after `_process_iosys_keywords` "
               "(`None` when absent).  Returns `(connect_map, input_map, output_map)`."),
]


def _op(qual, lean, extra=None, expected=None, defaults=None, doc=""):
    return Method("NonlinearIOSystem." + qual, lean, [], [("self", SYS), ("other", SYS)] + (extra or []), ICSYS,
                  expected or ["self", "other"], defaults=defaults, hooks=OpsHooks, doc=doc)


OPS_METHODS = [
    Method("InterconnectedSystem.set_connect_map", "icSetConnectMap", [("self.connect_map", MAT)],
           [("connect_map", MAT)], (MAT,), ["self", "connect_map"], result=["self.connect_map"],
           doc="Returns the new value of `self.connect_map`."),
    _op("__add__", "icAdd"), _op("__radd__", "icRadd"), _op("__sub__", "icSub"), _op("__rsub__", "icRsub"),
    _op("__mul__", "icMul"), _op("__rmul__", "icRmul"),
    Method("NonlinearIOSystem.__neg__", "icNeg", [], [("self", SYS)], ICSYS, ["self"], hooks=OpsHooks),
    _op("feedback", "icFeedback", extra=[("sign", NUM), ("params", DTX)], expected=["self", "other", "sign", "params"],
        defaults={"other": 1, "sign": -1, "params": None},
        doc="`other` is an I/O system (its default `1` is outside the model), `params` is not modelled."),
]


def gen_ops(repo, lean_dir):
    return gen_methods(repo, lean_dir, "ICOps.lean", OPS_METHODS, ["CtrlVerif.Generated.ICInit"], "ops")


def _static(qual, lean, extra_fields, ret, doc=""):
    m = Method("InterconnectedSystem." + qual, lean,
               [("self.connect_map", MAT), ("self.input_map", MAT), ("self.syslist", SUBS)] + extra_fields,
               [("t", TIME), ("x", VEC), ("u", VEC)], ret, ["self", "t", "x", "u"], hooks=StaticHooks, doc=doc)
    m.fuel = True
    return m


STATIC_METHODS = [
    _static("_compute_static_io", "icComputeStaticIO", [], (VEC, VEC),
            doc="Returns `(ulist, ylist)`; `fuel` bounds the iterations of the `while` loop."),
    _static("_rhs", "icRhs", [("self.nstates", NAT)], VEC),
    _static("_out", "icOut", [("self.output_map", MAT)], VEC),
]


def gen_static(repo, lean_dir):
    return gen_methods(repo, lean_dir, "ICStatic.lean", STATIC_METHODS, ["CtrlVerif.Model.PyIC"], "static")


def gen_methods(repo, lean_dir, out, methods, imports, tag):
    problems, info, parts = [], {}, []
    try:
        src = open(os.path.join(repo, NLSYS)).read()
    except OSError as e:
        src = None
        problems.append("py2lean_ic: %s cannot be read: %s" % (NLSYS, e))
    for m in methods:
        try:
            if src is None:
                raise Unsupported("source not readable")
            text, sha = m.translate(src)
            info[m.qual] = sha[:16]
        except (Unsupported, SyntaxError, KeyError) as e:
            problems.append("py2lean_ic: %s:%s cannot be translated: %s" % (NLSYS, m.qual, e))
            text = m.failed(str(e))
            info[m.qual] = "-"
        parts.append(text)
    head = HEADER % (NLSYS, ", ".join("%s %s" % (k.split(".")[-1], v) for k, v in info.items()),
                     "".join("import %s\n" % i for i in imports))
    write_if_changed(os.path.join(lean_dir, "CtrlVerif", "Generated", out),
                     head + "\n".join(parts) + "\nend CtrlVerif.Generated\n")
    return problems, info


def gen_init(repo, lean_dir):
    return gen_methods(repo, lean_dir, "ICInit.lean", INIT_METHODS, ["CtrlVerif.Generated.ICParseSpec"], "init")


GENERATORS = [gen_parse_spec, gen_init, gen_ops, gen_static]


def regenerate(repo, lean_dir):
    """Rewrite Generated/IC*.lean from the tree `repo`; returns (list of problems, info dict)."""
    problems, info = [], {}
    for g in GENERATORS:
        p, i = g(repo, lean_dir)
        problems += p
        info.update(i)
    return problems, info


if __name__ == "__main__":
    import sys
    repo = sys.argv[1] if len(sys.argv) > 1 else "/repo"
    lean_dir = os.path.join(os.path.dirname(os.path.dirname(os.path.dirname(os.path.abspath(__file__)))), "lean")
    print(regenerate(repo, lean_dir))
