"""Translator Python `ast` -> Lean 4 for the ARGUMENT PROCESSING at the head of `point_to_point` and
`solve_flat_optimal` (control/flatsys/flatsys.py), property C20, tag py2lean-p2phead (DESIGN 10.3,
notes/NOTES-py2lean-p2phead.md).  On every run of `check.py C20` it rewrites
`lean/CtrlVerif/Generated/P2PHead*.lean` from the source text of the tree under check;
`Props/C20GenHead.lean` proves the hand-written model (`Model/FlatParams.lean: p2pParams`,
`Model/FlatHead.lean`) EQUAL to the generated functions.  A semantic edit of a tied statement breaks a proof
obligation; an edit that leaves the supported subset makes the translation fail (the emitted definition is then
`.error .notImplemented` for every argument, which cannot equal the model) - reported the same way.

BLOCKS (located among the TOP-LEVEL statements of the function by structural rules that must match as
stated, never by line number; `f` = point_to_point -> prefix `p2p`, solve_flat_optimal -> prefix `sfo`; every block
also takes in the top-level `tmp = ...` assignments (named temporaries) its statements read, transitively):
  <f>HeadParams    the unique `params = <expr>` (the parameter resolution)
  <f>HeadTime      all `timepts = ... / Tf = ... / T0 = ...` whose value is not a `_process_param(...)` call, in
                   source order; returns (T0, Tf) (p2p; `T0` on entry = the `initial_time` argument) / T0 (sfo)
  <f>HeadBasis     the unique `if basis is None: ...` and the unique `if` that tests `basis.nvars`; returns basis
  p2pHeadRoute     the unique `if` whose test reads `ncoefs` (with its elif chain) and the FIRST later `if` whose
                   test reads only `cost` / `trajectory_constraints`; returns the value of that test
                   (True = the optimiser route); `warnings.warn` dropped
  <f>HeadKwargs    all simple statements containing `kwargs.pop('key', default)` (the `minimize_*` keywords), the
                   unique `if kwargs:` (unknown keywords -> TypeError) and, in solve_flat_optimal, the unique `if`
                   reading only trajectory_cost / terminal_cost; what remains in `kwargs` AFTER the alias processing
                   (`_process_kwargs` / `_process_param`, NOT translated) is the argument
  processParam     the whole body of `_process_param` (control/config.py): `name in kwargs`, `kwargs.pop`, the two
                   loops over the legacy names and the aliases; `alias_mapping[name]` is a parameter
  optimalAliases   the literal `_optimal_aliases` (control/optimal.py)
  <f>AliasCalls    all `v = _process_param('name', param, kwargs, _optimal_aliases[, sigval=c])` as a TABLE (target,
                   name, parameter, sigval, default of the parameter in the signature), in source order
  p2pHeadBoundary  all `<v> = _check_convert_array(<v>, [...], msg, squeeze=True)`; returns (x0, u0, xf, uf)

Value model: `lean/CtrlVerif/Model/PyP2PHead.lean` (hand-written, trusted), `PyNL.Dict`, `PyArith.getItem`.
`raise ValueError(msg)` is classified by the rule of harness/families/c20.py: classify_exc ("too small" ->
badArg, else shape), `TypeError` -> badArg, `IndexError` -> indexRange.  Sub-expressions that can raise are
bound to temporaries left to right in Python's order.  Output is deterministic, carries the sha256 of the
translated text, and is rewritten only when changed.
"""
import ast
import hashlib
import os

from core.py2lean import Unsupported
from core.py2lean_nl import find_function, seg, once

REL = "control/flatsys/flatsys.py"

K, NAT, BOOL, LIT = "K", "NAT", "BOOL", "LIT"
TIMEARG, LISTK, DICT, OPTDICT, BASIS, OPTBASIS, OPTOBJ, OPTNAT, BVAL, KWDICT = (
    "TIMEARG", "LISTK", "DICT", "OPTDICT", "BASIS", "OPTBASIS", "OPTOBJ", "OPTNAT", "BVAL", "KWDICT")
VAL, STR, STRLIST, ALIASES = "VAL", "STR", "STRLIST", "ALIASES"

LTY = {K: "K", NAT: "Nat", BOOL: "Bool", TIMEARG: "PyHead.TimeArg K", LISTK: "List K",
       DICT: "PyNL.Dict κ ν", OPTDICT: "Option (PyNL.Dict κ ν)", BASIS: "Basis K",
       OPTBASIS: "Option (Basis K)", OPTOBJ: "Option Unit", OPTNAT: "Option Nat", BVAL: "PyHead.BVal K",
       KWDICT: "PyNL.Dict String ν", VAL: "ν", STR: "String", STRLIST: "List String",
       ALIASES: "List String × List String"}
UNOPT = {OPTDICT: DICT, OPTBASIS: BASIS}
SYS_ATTRS = {"params": ("sys_params", DICT), "nstates": ("sys_nstates", NAT), "ninputs": ("sys_ninputs", NAT)}


def _ind(lines, n=2):
    return [" " * n + l for l in lines]


def classify_raise(node):
    exc = node.exc
    name = None
    msg = ""
    if isinstance(exc, ast.Call):
        name = exc.func.id if isinstance(exc.func, ast.Name) else getattr(exc.func, "attr", None)
        for a in exc.args:
            if isinstance(a, ast.Constant) and isinstance(a.value, str):
                msg += a.value
    elif isinstance(exc, ast.Name):
        name = exc.id
    if name == "ValueError":
        return "Err.badArg" if "too small" in msg or "index too high" in msg else "Err.shape"
    if name == "TypeError":
        return "Err.badArg"
    if name == "IndexError":
        return "Err.indexRange"
    raise Unsupported("raise of %s" % name)


class Tr:
    def __init__(self, fname=None, params=()):
        self.n = 0
        self.notes = []
        self.fname = fname          # name of the generated function (prefix of its loop-body definitions)
        self.params = list(params)  # parameters every loop-body definition receives (besides what it reads)
        self.predefs = []
        self.nloops = 0

    def tmp(self):
        self.n += 1
        return "t%d" % self.n

    # ---- coercions
    def as_nat(self, v):
        code, ty = v
        if ty == NAT:
            return code
        if ty == LIT and code >= 0:
            return "(%d : Nat)" % code
        raise Unsupported("not a natural number: %s" % (code,))

    def as_K(self, v):
        code, ty = v
        if ty == K:
            return code
        if ty == LIT:
            return "(%d : K)" % code if code >= 0 else "(-%d : K)" % -code
        raise Unsupported("not a number: %s" % (code,))

    def none_test(self, node, env):
        """`X is None` / `X is not None` on a name -> (name, is_none) or None"""
        if (isinstance(node, ast.Compare) and len(node.ops) == 1 and isinstance(node.ops[0], (ast.Is, ast.IsNot))
                and isinstance(node.comparators[0], ast.Constant) and node.comparators[0].value is None
                and isinstance(node.left, ast.Name)):
            return node.left.id, isinstance(node.ops[0], ast.Is)
        return None

    # ---- expressions: returns (code, ty); effects appended to pre
    def expr(self, node, env, pre):
        if isinstance(node, ast.Name):
            if node.id not in env:
                raise Unsupported("unknown name %s" % node.id)
            return env[node.id]
        if isinstance(node, ast.Constant):
            if isinstance(node.value, bool):
                return ("true" if node.value else "false"), BOOL
            if isinstance(node.value, int):
                return node.value, LIT
            raise Unsupported("constant %r" % (node.value,))
        if isinstance(node, ast.UnaryOp) and isinstance(node.op, ast.USub):
            c, ty = self.expr(node.operand, env, pre)
            if ty == LIT:
                return -c, LIT
            raise Unsupported("unary minus")
        if isinstance(node, ast.UnaryOp) and isinstance(node.op, ast.Not):
            c, ty = self.expr(node.operand, env, pre)
            if ty != BOOL:
                raise Unsupported("not on a non-boolean")
            return "(!%s)" % c, BOOL
        if isinstance(node, ast.Attribute) and isinstance(node.value, ast.Name):
            if node.value.id == "sys" and node.attr in SYS_ATTRS:
                return SYS_ATTRS[node.attr]
            if node.attr == "nvars" and env.get(node.value.id, (None, None))[1] == BASIS:
                return "(PyHead.basisNvars %s)" % env[node.value.id][0], OPTNAT
            raise Unsupported("attribute %s" % ast.unparse(node))
        if isinstance(node, ast.BinOp) and isinstance(node.op, (ast.Add, ast.Mult)):
            a = self.expr(node.left, env, pre)
            b = self.expr(node.right, env, pre)
            op = "+" if isinstance(node.op, ast.Add) else "*"
            if a[1] == LIT and b[1] == LIT:
                return (a[0] + b[0] if op == "+" else a[0] * b[0]), LIT
            return "(%s %s %s)" % (self.as_nat(a), op, self.as_nat(b)), NAT
        if isinstance(node, ast.Compare):
            return self.compare(node, env, pre)
        if isinstance(node, ast.BoolOp):
            vals = [self.expr(v, env, pre) for v in node.values]
            if all(t == BOOL for _, t in vals):
                op = " && " if isinstance(node.op, ast.And) else " || "
                return "(" + op.join(c for c, _ in vals) + ")", BOOL
            if isinstance(node.op, ast.Or) and len(vals) == 2 and vals[0][1] == OPTDICT and vals[1][1] == DICT:
                return "(PyHead.dictOr %s %s)" % (vals[0][0], vals[1][0]), DICT
            raise Unsupported("boolean operator on %s" % [t for _, t in vals])
        if isinstance(node, ast.IfExp):
            return self.ifexp(node, env, pre)
        if isinstance(node, ast.Dict):
            if any(k is not None for k in node.keys):
                raise Unsupported("dict display with keys")
            parts = []
            for v in node.values:
                c, ty = self.expr(v, env, pre)
                if ty != DICT:
                    raise Unsupported("`**` of something that is not (known to be) a dict: %s" % ast.unparse(v))
                parts.append(c)
            return "(PyHead.dictDisplay [%s])" % ", ".join(parts), DICT
        if isinstance(node, ast.Subscript):
            xs, ty = self.expr(node.value, env, pre)
            i = self.expr(node.slice, env, pre)
            if ty != LISTK or i[1] != LIT:
                raise Unsupported("subscript %s" % ast.unparse(node))
            t = self.tmp()
            pre.append("let %s ← PyArith.getItem %s (%d : Int)" % (t, xs, i[0]))
            return t, K
        if isinstance(node, ast.Call):
            return self.call(node, env, pre)
        raise Unsupported("expression %s" % ast.unparse(node))

    def compare(self, node, env, pre):
        nt = self.none_test(node, env)
        if nt is not None:
            name, is_none = nt
            if name not in env:
                raise Unsupported("unknown name %s" % name)
            c, ty = env[name]
            if ty in (OPTDICT, OPTBASIS, OPTOBJ, OPTNAT):
                return "(%s.%s)" % (c, "isNone" if is_none else "isSome"), BOOL
            if ty in (DICT, BASIS, LISTK, K, NAT):
                return ("false" if is_none else "true"), BOOL
            raise Unsupported("`is None` on %s" % ty)
        if len(node.ops) != 1:
            raise Unsupported("chained comparison")
        op = node.ops[0]
        a = self.expr(node.left, env, pre)
        if isinstance(op, (ast.In, ast.NotIn)):
            b = self.expr(node.comparators[0], env, pre)
            if a[1] != STR or b[1] != KWDICT:
                raise Unsupported("membership test %s" % ast.unparse(node))
            c = "(PyHead.dictContains %s %s)" % (b[0], a[0])
            return (c if isinstance(op, ast.In) else "(!%s)" % c), BOOL
        if a[1] == VAL and isinstance(op, (ast.Eq, ast.NotEq)):
            b = self.expr(node.comparators[0], env, pre)
            if b[1] != VAL:
                raise Unsupported("comparison of a value with %s" % b[1])
            return "(decide (%s %s %s))" % (a[0], "=" if isinstance(op, ast.Eq) else "≠", b[0]), BOOL
        if isinstance(op, (ast.Is, ast.IsNot)) and a[1] == OPTNAT and isinstance(node.comparators[0], ast.Constant) \
                and node.comparators[0].value is None:
            return "(%s.%s)" % (a[0], "isNone" if isinstance(op, ast.Is) else "isSome"), BOOL
        b = self.expr(node.comparators[0], env, pre)
        sym = {ast.Lt: "<", ast.LtE: "≤", ast.Gt: ">", ast.GtE: "≥", ast.Eq: "=", ast.NotEq: "≠"}.get(type(op))
        if sym is None:
            raise Unsupported("comparison %s" % ast.unparse(node))
        if a[1] == OPTNAT and b[1] in (NAT, LIT) and sym in ("=", "≠"):
            return "(decide (%s %s some %s))" % (a[0], sym, self.as_nat(b)), BOOL
        return "(decide (%s %s %s))" % (self.as_nat(a), sym, self.as_nat(b)), BOOL

    def ifexp(self, node, env, pre):
        nt = self.none_test(node.test, env)
        if nt is not None and nt[0] in env and env[nt[0]][1] in UNOPT:
            name, is_none = nt
            c, ty = env[name]
            env_some = dict(env)
            env_some[name] = (name, UNOPT[ty])
            p_none, p_some = [], []
            none_node, some_node = (node.body, node.orelse) if is_none else (node.orelse, node.body)
            env_none = dict(env)
            env_none.pop(name)           # a use of the None value as a dict / basis is an error of the source
            vn = self.expr(none_node, env_none, p_none)
            vs = self.expr(some_node, env_some, p_some)
            if p_none or p_some or vn[1] != vs[1]:
                raise Unsupported("conditional expression on `%s is None` with effects / different types" % name)
            return "(match %s with | none => %s | some %s => %s)" % (c, vn[0], name, vs[0]), vn[1]
        t, tty = self.expr(node.test, env, pre)
        if tty != BOOL:
            raise Unsupported("test of a conditional expression")
        pa, pb = [], []
        a = self.expr(node.body, env, pa)
        b = self.expr(node.orelse, env, pb)
        ty = a[1] if a[1] != LIT else b[1]
        if ty == LIT:
            ty = K
        if ty == K:
            ca, cb = self.as_K(a), self.as_K(b)
        elif ty == NAT:
            ca, cb = self.as_nat(a), self.as_nat(b)
        elif a[1] == b[1]:
            ca, cb = a[0], b[0]
        else:
            raise Unsupported("conditional expression with branches of different types")
        if not pa and not pb:
            return "(if %s = true then %s else %s)" % (t, ca, cb), ty
        x = self.tmp()
        pre.append("let %s ← (if %s = true then (do" % (x, t))
        pre.extend(_ind(pa + ["pure %s" % ca], 4))
        pre.append("    : Except Err (%s)) else (do" % LTY[ty])
        pre.extend(_ind(pb + ["pure %s" % cb], 4))
        pre.append("    : Except Err (%s)))" % LTY[ty])
        return x, ty

    def call(self, node, env, pre):
        f = node.func
        fname = f.id if isinstance(f, ast.Name) else (
            f.value.id + "." + f.attr if isinstance(f, ast.Attribute) and isinstance(f.value, ast.Name) else None)
        if fname in ("np.atleast_1d", "numpy.atleast_1d") and len(node.args) == 1 and not node.keywords:
            c, ty = self.expr(node.args[0], env, pre)
            if ty == TIMEARG:
                return "(PyHead.atleast1d %s)" % c, LISTK
            if ty == LISTK:
                return c, LISTK
            raise Unsupported("atleast_1d of %s" % ty)
        if fname == "len" and len(node.args) == 1:
            c, ty = self.expr(node.args[0], env, pre)
            if ty != LISTK:
                raise Unsupported("len of %s" % ty)
            return "%s.length" % c, NAT
        if fname == "PolyFamily" and len(node.args) == 1 and not node.keywords:
            return "(PyHead.polyFamily %s)" % self.as_nat(self.expr(node.args[0], env, pre)), BASIS
        if fname == "_check_convert_array":
            kws = {k.arg: k.value for k in node.keywords}
            if len(node.args) != 3 or set(kws) != {"squeeze"} or not (
                    isinstance(kws["squeeze"], ast.Constant) and kws["squeeze"].value is True):
                raise Unsupported("_check_convert_array call form")
            c, ty = self.expr(node.args[0], env, pre)
            if ty != BVAL or not isinstance(node.args[1], ast.List):
                raise Unsupported("_check_convert_array arguments")
            shapes = []
            for s in node.args[1].elts:
                if not isinstance(s, ast.Tuple):
                    raise Unsupported("legal shape %s" % ast.unparse(s))
                shapes.append("[%s]" % ", ".join(self.as_nat(self.expr(d, env, pre)) for d in s.elts))
            t = self.tmp()
            pre.append("let %s ← PyHead.checkConvertArray %s [%s]" % (t, c, ", ".join(shapes)))
            return t, LISTK
        raise Unsupported("call %s" % ast.unparse(node)[:80])

    # ---- statements
    def assigned(self, stmts):
        out = []

        def add(x):
            if x not in out:
                out.append(x)
        for s in stmts:
            if kwpops(s):
                add("kwargs")               # `kwargs.pop(...)` changes the caller's dict
            if isinstance(s, ast.Assign):
                for t in s.targets:
                    if isinstance(t, ast.Subscript) and kwpops(s):
                        continue
                    if not isinstance(t, ast.Name):
                        raise Unsupported("assignment target %s" % ast.unparse(t))
                    add(t.id)
            elif isinstance(s, ast.If):
                for x in self.assigned(s.body) + self.assigned(s.orelse):
                    add(x)
            elif isinstance(s, ast.For):
                for x in self.assigned(s.body):
                    add(x)
        return out

    def let(self, name, v, env, lines):
        code, ty = v
        if ty == LIT:
            code, ty = self.as_K(v), K
        lines.append("let %s : %s := %s" % (name, LTY[ty], code))
        env[name] = (name, ty)

    def stmts(self, stmts, env, lines):
        """translate into do-lines; returns False when the block ends in a raise"""
        for s in stmts:
            if isinstance(s, ast.Assign) and not kwpops(s) and isinstance(s.targets[0], ast.Name):
                if len(s.targets) != 1 or not isinstance(s.targets[0], ast.Name):
                    raise Unsupported("assignment %s" % ast.unparse(s)[:60])
                if isinstance(s.value, ast.Constant) and s.value.value is None:
                    tgt = s.targets[0].id
                    if tgt in env and env[tgt][1] in (OPTOBJ, OPTDICT, OPTBASIS):
                        self.let(tgt, ("none", env[tgt][1]), env, lines)
                        continue
                    raise Unsupported("assignment of None to %s" % tgt)
                pre = []
                v = self.expr(s.value, env, pre)
                lines.extend(pre)
                self.let(s.targets[0].id, v, env, lines)
            elif (isinstance(s, ast.Assign) and len(s.targets) == 1 and isinstance(s.targets[0], ast.Name)
                  and kwpops(s) == [s.value] and len(s.value.args) == 1 and not s.value.keywords):
                # `v = kwargs.pop(key)`: KeyError when absent; the key leaves the dict
                pre = []
                k = self.expr(s.value.args[0], env, pre)
                if pre or k[1] != STR or env.get("kwargs", (None, None))[1] != KWDICT:
                    raise Unsupported("kwargs.pop(%s)" % ast.unparse(s.value.args[0]))
                t = self.tmp()
                lines.append("let %s ← PyHead.dictPop kwargs %s" % (t, k[0]))
                self.let(s.targets[0].id, ("%s.1" % t, VAL), env, lines)
                self.let("kwargs", ("%s.2" % t, KWDICT), env, lines)
            elif (isinstance(s, ast.Assign) and len(s.targets) == 1 and isinstance(s.targets[0], ast.Tuple)
                  and len(s.targets[0].elts) == 2 and all(isinstance(e, ast.Name) for e in s.targets[0].elts)
                  and isinstance(s.value, ast.Subscript) and isinstance(s.value.value, ast.Name)
                  and env.get(s.value.value.id, (None, None))[1] == "ALIASTABLE"
                  and isinstance(s.value.slice, ast.Name) and s.value.slice.id == "name"):
                # `a, b = alias_mapping[name]`: the entry of the table is the parameter `alias_entry`
                self.let(s.targets[0].elts[0].id, ("alias_entry.1", STRLIST), env, lines)
                self.let(s.targets[0].elts[1].id, ("alias_entry.2", STRLIST), env, lines)
                self.notes.append("`alias_mapping[name]` is the parameter `alias_entry` (the table itself: "
                                  "`optimalAliases`, generated from control/optimal.py)")
            elif kwpops(s):
                self.kwpop_stmt(s, env, lines)
            elif isinstance(s, ast.For):
                self.for_stmt(s, env, lines)
            elif isinstance(s, ast.Return):
                raise Unsupported("return inside the translated statements")
            elif isinstance(s, ast.Raise):
                lines.append("throw %s" % classify_raise(s))
                return False
            elif isinstance(s, ast.Expr) and isinstance(s.value, ast.Call) \
                    and ast.unparse(s.value.func) == "warnings.warn":
                self.notes.append("`%s` dropped: a warning does not change the result" % ast.unparse(s)[:70])
            elif isinstance(s, ast.If):
                self.if_stmt(s, env, lines)
            elif isinstance(s, ast.Pass):
                pass
            else:
                raise Unsupported("statement %s" % ast.unparse(s)[:60])
        return True

    def for_stmt(self, s, env, lines):
        if s.orelse or not isinstance(s.target, ast.Name):
            raise Unsupported("for statement form")
        pre = []
        xs = self.expr(s.iter, env, pre)
        if pre or xs[1] != STRLIST:
            raise Unsupported("for over %s" % ast.unparse(s.iter))
        asg = self.assigned(s.body)
        carried = [x for x in env if x in asg]         # in the order of their first definition
        if not carried:
            raise Unsupported("loop without state")
        tys = [env[x][1] for x in carried]
        sty = " × ".join(LTY[t_] for t_ in tys)
        st = self.tmp()
        e = dict(env)
        bl = []
        for i, (x, ty0) in enumerate(zip(carried, tys)):
            proj = ".".join(["2"] * i + (["1"] if i < len(carried) - 1 else []))
            bl.append("let %s : %s := %s%s" % (x, LTY[ty0], st, "." + proj if proj else ""))
            e[x] = (x, ty0)
        for x in list(e):
            if x not in carried and e[x][1] in LTY:
                e[x] = (x, e[x][1])
        e[s.target.id] = (s.target.id, STR)
        if not self.stmts(s.body, e, bl):
            raise Unsupported("loop body ends in raise")
        for x, ty0 in zip(carried, tys):
            if e[x][1] != ty0:
                raise Unsupported("variable %s changes its type in the loop" % x)
        bl.append("pure (%s)" % ", ".join(carried))
        pat = "(%s)" % ", ".join(carried) if len(carried) != 1 else carried[0]
        # the loop body becomes a definition of its own (so that a proof can address it without quoting its text):
        # it receives the function's parameters and the other variables it reads
        reads = {n.id for b in s.body for n in ast.walk(b) if isinstance(n, ast.Name) and isinstance(n.ctx, ast.Load)}
        cap = [x for x in env if x not in carried and x != s.target.id and env[x][1] in LTY
               and (x in self.params or x in reads)]
        if self.fname is None:
            raise Unsupported("loop in a block without a name")
        self.nloops += 1
        lname = "%s_loop%d" % (self.fname, self.nloops)
        self.predefs.append(
            "/-- body of loop %d of `%s` (`for %s in %s`), state (%s). -/\ndef %s %s(%s : %s) (%s : String) :\n"
            "    Except Err (%s) :=\n  do\n"
            % (self.nloops, self.fname, s.target.id, ast.unparse(s.iter), ", ".join(carried), lname,
               "".join("(%s : %s) " % (x, LTY[env[x][1]]) for x in cap), st, sty, s.target.id, sty)
            + "\n".join(_ind(bl, 4)) + "\n")
        lines.append("let %s ← List.foldlM (%s%s) (%s) %s"
                     % (pat, lname, "".join(" " + env[x][0] for x in cap), ", ".join(carried), xs[0]))

    def kwpop_stmt(self, s, env, lines):
        """`minimize_kwargs[...] = kwargs.pop('key', default)` / `minimize_kwargs.update(kwargs.pop('key', default))`:
        the key leaves `kwargs`; the value goes into `minimize_kwargs`, which is not modelled"""
        pops = kwpops(s)
        ok_form = (isinstance(s, ast.Assign) and len(s.targets) == 1 and isinstance(s.targets[0], ast.Subscript)
                   and isinstance(s.targets[0].value, ast.Name) and s.targets[0].value.id == "minimize_kwargs"
                   and s.value is pops[0]) or (
            isinstance(s, ast.Expr) and isinstance(s.value, ast.Call)
            and ast.unparse(s.value.func) == "minimize_kwargs.update" and s.value.args == [pops[0]]
            and not s.value.keywords)
        c = pops[0]
        if len(pops) != 1 or not ok_form or len(c.args) != 2 or c.keywords or not (
                isinstance(c.args[0], ast.Constant) and isinstance(c.args[0].value, str)):
            raise Unsupported("statement with kwargs.pop: %s" % ast.unparse(s)[:70])
        if env.get("kwargs", (None, None))[1] != KWDICT:
            raise Unsupported("kwargs is not the keyword dict")
        lines.append('let kwargs : %s := (PyHead.dictErase kwargs "%s")' % (LTY[KWDICT], c.args[0].value))
        note = "the values popped from kwargs go into `minimize_kwargs` (handed to scipy.optimize.minimize; not modelled)"
        if note not in self.notes:
            self.notes.append(note)

    def if_stmt(self, s, env, lines):
        nt = self.none_test(s.test, env)
        if (nt is not None and nt[1] and nt[0] in env and env[nt[0]][1] in UNOPT and not s.orelse
                and len(s.body) == 1 and isinstance(s.body[0], ast.Assign) and len(s.body[0].targets) == 1
                and isinstance(s.body[0].targets[0], ast.Name) and s.body[0].targets[0].id == nt[0]):
            # `if X is None: X = default`
            name = nt[0]
            c, ty = env[name]
            pre = []
            env_none = dict(env)
            env_none.pop(name)
            v = self.expr(s.body[0].value, env_none, pre)
            if pre or v[1] != UNOPT[ty]:
                raise Unsupported("default of %s" % name)
            lines.append("let %s : %s := (match %s with | none => %s | some %s => %s)"
                         % (name, LTY[UNOPT[ty]], c, v[0], name, name))
            env[name] = (name, UNOPT[ty])
            return
        pre = []
        t, tty = self.expr(s.test, env, pre)
        if tty == KWDICT:                       # truth value of a dict: non-empty
            t, tty = "(!%s.isEmpty)" % t, BOOL
        if tty != BOOL:
            raise Unsupported("test of an if statement: %s" % ast.unparse(s.test)[:60])
        lines.extend(pre)
        asg = self.assigned([s])
        # state of the statement: re-assigned variables in the order of their first definition, then the
        # variables first defined here (they must be defined on every branch that does not raise)
        branches, envs = [], []
        for body in (s.body, s.orelse):
            e = dict(env)
            bl = []
            ok = self.stmts(body, e, bl)
            if ok:
                envs.append(e)
            branches.append((bl, ok))
        # a variable first defined here is kept only when every branch that does not raise defines it (otherwise it
        # is local to its branch: a later use is an unknown name)
        carried = [x for x in env if x in asg] + [x for x in asg if x not in env and envs
                                                  and all(x in e for e in envs)]
        ret = "pure (%s)" % ", ".join(carried) if carried else "pure ()"
        branches = [bl + [ret] if ok else bl for bl, ok in branches]
        if carried and not envs:
            raise Unsupported("both branches raise")
        tys = [envs[0][x][1] for x in carried] if envs else []
        for e in envs:
            for x, ty0 in zip(carried, tys):
                if e[x][1] != ty0:
                    raise Unsupported("variable %s has different types on the branches" % x)
        rty = " × ".join(LTY[t_] for t_ in tys) if carried else "Unit"
        pat = "(%s)" % ", ".join(carried) if len(carried) != 1 else carried[0]
        lines.append("let %s ← (if %s = true then (do" % (pat if carried else "_", t))
        lines.extend(_ind(branches[0], 4))
        lines.append("    : Except Err (%s)) else (do" % rty)
        lines.extend(_ind(branches[1], 4))
        lines.append("    : Except Err (%s)))" % rty)
        for x, ty0 in zip(carried, tys):
            env[x] = (x, ty0)


def kwpops(s):
    """the calls `kwargs.pop(...)` inside a simple statement"""
    if not isinstance(s, (ast.Assign, ast.Expr)):
        return []
    return [n for n in ast.walk(s) if isinstance(n, ast.Call) and isinstance(n.func, ast.Attribute)
            and n.func.attr == "pop" and isinstance(n.func.value, ast.Name) and n.func.value.id == "kwargs"]


def top_assigns(fn, names):
    out = []
    for s in fn.body:
        if isinstance(s, ast.Assign) and len(s.targets) == 1 and isinstance(s.targets[0], ast.Name) \
                and s.targets[0].id in names:
            if isinstance(s.value, ast.Call) and ast.unparse(s.value.func).endswith("_process_param"):
                continue
            out.append(s)
    return out


def _is_process_param(s):
    return isinstance(s.value, ast.Call) and ast.unparse(s.value.func).endswith("_process_param")


def with_deps(fn, stmts, base, extra=()):
    """the located statements plus the top-level assignments `tmp = ...` (named temporaries) they read,
    transitively, in source order; `base` = the names the block receives from outside"""
    out = list(stmts)
    chosen = {id(s) for s in out}
    changed = True
    while changed:
        changed = False
        needed = set()
        for s in out + list(extra):
            needed |= {n.id for n in ast.walk(s) if isinstance(n, ast.Name) and isinstance(n.ctx, ast.Load)}
        needed -= set(base)
        for s in fn.body:
            if id(s) in chosen:
                continue
            if isinstance(s, ast.Assign) and len(s.targets) == 1 and isinstance(s.targets[0], ast.Name) \
                    and s.targets[0].id in needed and not _is_process_param(s):
                chosen.add(id(s))
                out.append(s)
                changed = True
    return sorted(out, key=lambda s: s.lineno)


def names_in(node):
    return {n.id for n in ast.walk(node) if isinstance(n, ast.Name)}


def finish(tr, lines, env, rets):
    for r in rets:
        if r not in env:
            raise Unsupported("%s is not defined by the translated statements" % r)
    return lines + ["pure (%s)" % ", ".join(env[r][0] for r in rets)]


def job_params(src, fn):
    s = once(top_assigns(fn, {"params"}), "top-level `params = ...`")
    ss = with_deps(fn, [s], {"params"})
    tr = Tr()
    env = {"params": ("params", OPTDICT)}
    lines = []
    tr.stmts(ss, env, lines)
    if env["params"][1] != DICT:
        raise Unsupported("`params` is not a dict after the statement")
    return dict(text=seg(src, ss), lines=finish(tr, lines, env, ["params"]), notes=tr.notes)


def job_time(src, fn, p2p):
    ss = top_assigns(fn, {"timepts", "Tf", "T0"})
    if not ss:
        raise Unsupported("no top-level assignment of timepts / Tf / T0")
    ss = with_deps(fn, ss, {"timepts", "T0", "Tf"})
    tr = Tr()
    env = {"timepts": ("timepts", TIMEARG)}
    if p2p:
        env["T0"] = ("T0", K)
    lines = []
    tr.stmts(ss, env, lines)
    rets = ["T0", "Tf"] if p2p else ["T0"]
    for r in rets:
        if r in env and env[r][1] != K:
            raise Unsupported("%s is not a number" % r)
    return dict(text=seg(src, ss), lines=finish(tr, lines, env, rets), notes=tr.notes)


def job_basis(src, fn):
    tr = Tr()
    ifs = [s for s in fn.body if isinstance(s, ast.If)]
    d = once([s for s in ifs if tr.none_test(s.test, {}) == ("basis", True)], "top-level `if basis is None:`")
    nv = once([s for s in ifs if any(isinstance(n, ast.Attribute) and n.attr == "nvars" for n in ast.walk(s.test))],
              "top-level `if` testing basis.nvars")
    ss = with_deps(fn, [d, nv], {"basis"})
    env = {"basis": ("basis", OPTBASIS)}
    lines = []
    tr.stmts(ss, env, lines)
    if env["basis"][1] != BASIS:
        raise Unsupported("basis may still be None")
    return dict(text=seg(src, ss), lines=finish(tr, lines, env, ["basis"]), notes=tr.notes)


def job_route(src, fn):
    tr = Tr()
    ifs = [s for s in fn.body if isinstance(s, ast.If)]
    size = once([s for s in ifs if "ncoefs" in names_in(s.test)], "top-level `if` reading ncoefs")
    routes = [s for s in ifs if names_in(s.test) and names_in(s.test) <= {"cost", "trajectory_constraints"}
              and s.lineno > size.lineno]
    if not routes:
        raise Unsupported("no top-level `if` reading only cost / trajectory_constraints after the size test")
    route = routes[0]        # the first one guards the optimisation; a later one only stores its result
    env = {"ncoefs": ("ncoefs", NAT), "cost": ("cost", OPTOBJ),
           "trajectory_constraints": ("trajectory_constraints", OPTOBJ)}
    lines = []
    ss = with_deps(fn, [size], set(env), extra=[route.test])
    tr.stmts(ss, env, lines)
    pre = []
    t, tty = tr.expr(route.test, env, pre)
    if tty != BOOL or pre:
        raise Unsupported("route test")
    tr.notes.append("returns the value of the test `%s` (True: the optimiser branch)" % ast.unparse(route.test))
    lines.append("pure %s" % t)
    return dict(text=seg(src, ss) + "\nif " + ast.unparse(route.test) + ": ...", lines=lines, notes=tr.notes)


def job_boundary(src, fn):
    names = ["x0", "u0", "xf", "uf"]
    ss = [s for s in top_assigns(fn, set(names))
          if isinstance(s.value, ast.Call) and ast.unparse(s.value.func).endswith("_check_convert_array")]
    ss = with_deps(fn, ss, set(names))
    tr = Tr()
    env = {n: (n, BVAL) for n in names}
    lines = []
    tr.stmts(ss, env, lines)
    for n in names:
        if env[n][1] != LISTK:
            raise Unsupported("%s is not converted by _check_convert_array" % n)
    return dict(text=seg(src, ss), lines=finish(tr, lines, env, names), notes=tr.notes)


def job_kwargs(src, fn, sfo):
    tr = Tr()
    ifs = [s for s in fn.body if isinstance(s, ast.If)]
    pops = [s for s in fn.body if kwpops(s)]
    left = once([s for s in ifs if isinstance(s.test, ast.Name) and s.test.id == "kwargs"], "top-level `if kwargs:`")
    ss = pops + [left]
    env = {"kwargs": ("kwargs", KWDICT)}
    if sfo:
        costs = {"trajectory_cost", "terminal_cost"}
        ss.append(once([s for s in ifs if names_in(s.test) and names_in(s.test) <= costs],
                       "top-level `if` reading only trajectory_cost / terminal_cost"))
        for c in sorted(costs):
            env[c] = (c, OPTOBJ)
    ss = sorted(ss, key=lambda s: s.lineno)
    lines = []
    tr.stmts(ss, env, lines)
    return dict(text=seg(src, ss), lines=lines + ["pure ()"], notes=tr.notes)


CONFIG = "control/config.py"
OPTIMAL = "control/optimal.py"


def job_process_param(repo):
    src = open(os.path.join(repo, CONFIG)).read()
    fn = find_function(ast.parse(src), "_process_param")
    args = [a.arg for a in fn.args.args]
    if args != ["name", "defval", "kwargs", "alias_mapping", "sigval"] or fn.args.vararg or fn.args.kwarg \
            or fn.args.kwonlyargs:
        raise Unsupported("signature of _process_param: %s" % args)
    d = fn.args.defaults
    if len(d) != 1 or not (isinstance(d[0], ast.Constant) and d[0].value is None):
        raise Unsupported("default of sigval")
    body = [s for s in fn.body if not (isinstance(s, ast.Expr) and isinstance(s.value, ast.Constant)
                                       and isinstance(s.value.value, str))]
    if not body or not isinstance(body[-1], ast.Return) or body[-1].value is None:
        raise Unsupported("_process_param does not end in `return <value>`")
    tr = Tr("processParam", ["name", "defval", "sigval"])
    env = {"name": ("name", STR), "defval": ("defval", VAL), "kwargs": ("kwargs", KWDICT),
           "alias_mapping": ("alias_entry", "ALIASTABLE"), "sigval": ("sigval", VAL)}
    lines = []
    tr.stmts(body[:-1], env, lines)
    pre = []
    r = tr.expr(body[-1].value, env, pre)
    if pre or r[1] != VAL:
        raise Unsupported("returned value")
    tr.notes.append("returns (the value returned, `kwargs` as the call leaves it)")
    lines.append("pure (%s, %s)" % (r[0], env["kwargs"][0]))
    return dict(text=seg(src, body), lines=lines, notes=tr.notes, predefs=tr.predefs)


def job_alias_table(repo):
    src = open(os.path.join(repo, OPTIMAL)).read()
    module = ast.parse(src)
    st = once([s for s in module.body if isinstance(s, ast.Assign) and len(s.targets) == 1
               and isinstance(s.targets[0], ast.Name) and s.targets[0].id == "_optimal_aliases"],
              "module-level `_optimal_aliases = ...`")
    try:
        table = ast.literal_eval(st.value)
    except ValueError as e:
        raise Unsupported("_optimal_aliases is not a literal: %s" % e)
    rows = []
    for k, v in table.items():
        if not (isinstance(k, str) and isinstance(v, tuple) and len(v) == 2
                and all(isinstance(l, list) and all(isinstance(x, str) for x in l) for l in v)):
            raise Unsupported("entry %r of _optimal_aliases" % (k,))
        q = lambda l: "[%s]" % ", ".join('"%s"' % x for x in l)      # noqa: E731
        rows.append('("%s", (%s, %s))' % (k, q(v[0]), q(v[1])))
    return dict(text=seg(src, [st]), lines=rows, notes=[])


def job_alias_calls(src, fn):
    """the call statements `v = _process_param('name', param, kwargs, _optimal_aliases[, sigval=c])` as a table
    (target, name, parameter, sigval, default of the parameter in the signature), in source order"""
    a = fn.args
    pos = a.posonlyargs + a.args
    sig = {}
    for arg, d in list(zip(pos[len(pos) - len(a.defaults):], a.defaults)) + list(zip(a.kwonlyargs, a.kw_defaults)):
        sig[arg.arg] = d

    def lit(node):
        if node is None or (isinstance(node, ast.Constant) and node.value is None):
            return "none"
        if isinstance(node, ast.Constant) and isinstance(node.value, int) and not isinstance(node.value, bool):
            return "(some %d)" % node.value if node.value >= 0 else "(some (%d))" % node.value
        raise Unsupported("default / sigval %s" % ast.unparse(node))
    rows, ss = [], []
    for s in fn.body:
        if not (isinstance(s, ast.Assign) and isinstance(s.value, ast.Call)
                and ast.unparse(s.value.func).endswith("_process_param")):
            continue
        c = s.value
        kws = {k.arg: k.value for k in c.keywords}
        if not (len(s.targets) == 1 and isinstance(s.targets[0], ast.Name) and len(c.args) == 4
                and isinstance(c.args[0], ast.Constant) and isinstance(c.args[0].value, str)
                and isinstance(c.args[1], ast.Name) and isinstance(c.args[2], ast.Name) and c.args[2].id == "kwargs"
                and isinstance(c.args[3], ast.Name) and c.args[3].id == "_optimal_aliases"
                and set(kws) <= {"sigval"}):
            raise Unsupported("form of %s" % ast.unparse(s)[:70])
        par = c.args[1].id
        if par not in sig:
            raise Unsupported("%s is not a parameter with a default" % par)
        rows.append('("%s", "%s", "%s", %s, %s)' % (s.targets[0].id, c.args[0].value, par,
                                                    lit(kws.get("sigval")), lit(sig[par])))
        ss.append(s)
    if not rows:
        raise Unsupported("no `v = _process_param(...)` statement")
    return dict(text=seg(src, ss) + "\n" + ast.unparse(a), lines=rows, notes=[])


VARS_D = "variable {κ ν : Type}\n\n"
VARS_K = "variable {K : Type} [Field K]\n\n"
P2P, SFO = "point_to_point", "solve_flat_optimal"
SIG_PAR = "(sys_params : PyNL.Dict κ ν) (params : Option (PyNL.Dict κ ν))"
SIG_BAS = "(sys_nstates sys_ninputs : Nat) (basis : Option (Basis K))"

FILES = [
    dict(out="P2PHeadParams.lean", variables=VARS_D, jobs=[
        dict(name="p2pHeadParams", fn=P2P, run=job_params, sig=SIG_PAR, ret="Except Err (PyNL.Dict κ ν)"),
        dict(name="sfoHeadParams", fn=SFO, run=job_params, sig=SIG_PAR, ret="Except Err (PyNL.Dict κ ν)")]),
    dict(out="P2PHeadTime.lean", variables=VARS_K, jobs=[
        dict(name="p2pHeadTime", fn=P2P, run=lambda s, f: job_time(s, f, True),
             sig="(timepts : PyHead.TimeArg K) (T0 : K)", ret="Except Err (K × K)"),
        dict(name="sfoHeadTime", fn=SFO, run=lambda s, f: job_time(s, f, False),
             sig="(timepts : PyHead.TimeArg K)", ret="Except Err K")]),
    dict(out="P2PHeadBasis.lean", variables=VARS_K, jobs=[
        dict(name="p2pHeadBasis", fn=P2P, run=job_basis, sig=SIG_BAS, ret="Except Err (Basis K)"),
        dict(name="sfoHeadBasis", fn=SFO, run=job_basis, sig=SIG_BAS, ret="Except Err (Basis K)")]),
    dict(out="P2PHeadRoute.lean", variables="", jobs=[
        dict(name="p2pHeadRoute", fn=P2P, run=job_route,
             sig="(sys_nstates sys_ninputs ncoefs : Nat) (cost trajectory_constraints : Option Unit)",
             ret="Except Err Bool")]),
    dict(out="P2PHeadKwargs.lean", variables="variable {ν : Type}\n\n", jobs=[
        dict(name="p2pHeadKwargs", fn=P2P, run=lambda s, f: job_kwargs(s, f, False),
             sig="(kwargs : PyNL.Dict String ν)", ret="Except Err Unit"),
        dict(name="sfoHeadKwargs", fn=SFO, run=lambda s, f: job_kwargs(s, f, True),
             sig="(kwargs : PyNL.Dict String ν) (trajectory_cost terminal_cost : Option Unit)",
             ret="Except Err Unit")]),
    dict(out="P2PHeadAlias.lean",
         variables="set_option linter.unusedVariables false\n\nvariable {ν : Type} [DecidableEq ν]\n\n", jobs=[
        dict(name="optimalAliases", fn="_optimal_aliases", rel=OPTIMAL, run=job_alias_table, repo_job=True,
             table=True, sig="",
             ret="List (String × (List String × List String))"),
        dict(name="processParam", fn="_process_param", rel=CONFIG, run=job_process_param, repo_job=True,
             sig="(name : String) (defval : ν) (kwargs : PyNL.Dict String ν) "
                 "(alias_entry : List String × List String) (sigval : ν)",
             ret="Except Err (ν × PyNL.Dict String ν)",
             fail_predefs=["def processParam_loop%d (name : String) (defval : ν) (sigval : ν) "
                           "(st : PyNL.Dict String ν × ν) (kw : String) :\n    Except Err (PyNL.Dict String ν × ν) :=\n"
                           "  .error Err.notImplemented\n" % i for i in (1, 2)])]),
    dict(out="P2PHeadAliasCalls.lean", variables="", jobs=[
        dict(name="p2pAliasCalls", fn=P2P, run=job_alias_calls, table=True, sig="",
             ret="List (String × String × String × Option Int × Option Int)"),
        dict(name="sfoAliasCalls", fn=SFO, run=job_alias_calls, table=True, sig="",
             ret="List (String × String × String × Option Int × Option Int)")]),
    dict(out="P2PHeadBoundary.lean", variables=VARS_K, jobs=[
        dict(name="p2pHeadBoundary", fn=P2P, run=job_boundary,
             sig="(sys_nstates sys_ninputs : Nat) (x0 u0 xf uf : PyHead.BVal K)",
             ret="Except Err (List K × List K × List K × List K)")]),
]


def regenerate(repo, lean_dir, only=None):
    """Rewrite Generated/P2PHead*.lean; returns (list of problems, info dict)."""
    problems, info = [], {}
    gen_dir = os.path.join(lean_dir, "CtrlVerif", "Generated")
    os.makedirs(gen_dir, exist_ok=True)
    src = module = None
    load_error = None
    try:
        src = open(os.path.join(repo, REL)).read()
        module = ast.parse(src)
    except (OSError, SyntaxError) as e:
        load_error = str(e)
    for F in FILES:
        if only and F["out"] not in only:
            continue
        defs, heads = [], []
        for job in F["jobs"]:
            rel = job.get("rel", REL)
            where = "%s[%s: %s]" % (rel, job["fn"], job["name"])
            try:
                if job.get("repo_job"):
                    try:
                        r = job["run"](repo)
                    except (OSError, SyntaxError) as e:
                        raise Unsupported(str(e))
                else:
                    if load_error:
                        raise Unsupported(load_error)
                    r = job["run"](src, find_function(module, job["fn"]))
                sha = hashlib.sha256(r["text"].encode()).hexdigest()
                info[job["name"]] = {"sha": sha, "lines": len(r["text"].split("\n")), "notes": r["notes"]}
                doc = ("/-- block `%s` of `%s:%s` as the source text says it (sha256 of the text of the translated\n"
                       "statements %s).%s -/\n" % (job["name"], rel, job["fn"], sha,
                                                  "".join("\n  note: " + n.replace("-/", "- /") for n in r["notes"])))
                if job.get("table"):
                    defs.append(doc + "def %s :\n    %s :=\n  [" % (job["name"], job["ret"])
                                + ",\n   ".join(r["lines"]) + "]\n")
                else:
                    defs.extend(r.get("predefs", []))
                    defs.append(doc + "def %s %s :\n    %s :=\n  do\n" % (job["name"], job["sig"], job["ret"])
                                + "\n".join(_ind(r["lines"], 4)) + "\n")
                heads.append("%s %s" % (job["name"], sha[:16]))
            except Unsupported as e:
                msg = str(e).replace("\n", " ").replace("-/", "- /")[:300]
                problems.append("py2lean_p2phead: %s cannot be translated: %s" % (where, msg))
                defs.append("/-- translation of `%s` FAILED: %s -/\ndef %s %s :\n    %s :=\n  %s\n"
                            % (where, msg, job["name"], job["sig"], job["ret"],
                               "[]" if job.get("table") else ".error Err.notImplemented"))
                defs.extend(job.get("fail_predefs", []))
                heads.append("%s FAILED" % job["name"])
        text_out = ("-- GENERATED on every run by harness/core/py2lean_p2phead.py from %s (%s).  Do not edit.\n"
                    % (", ".join(sorted({j.get("rel", REL) for j in F["jobs"]})), ", ".join(heads))
                    + "import CtrlVerif.Model.PyP2PHead\n\nnamespace CtrlVerif.Generated\n\nopen CtrlVerif\n\n"
                    + F["variables"] + "\n".join(defs) + "\nend CtrlVerif.Generated\n")
        p = os.path.join(gen_dir, F["out"])
        old = open(p).read() if os.path.exists(p) else None
        if old != text_out:
            with open(p, "w") as f:
                f.write(text_out)
    # `NonlinearIOSystem._update_params` (C08's Generated/NLUpdateLeaf.lean) from the SAME tree:
    # `C20GenHead.generated_params_eq_update_params` compares the two generated functions
    if not only or "NLUpdateLeaf.lean" in only:
        from core import py2lean_nl
        pr_nl, info_nl = py2lean_nl.regenerate(repo, lean_dir, only=("NLUpdateLeaf.lean",))
        problems += [q for q in pr_nl if "[nlUpdateLeaf]" in q]
        if "nlUpdateLeaf" in info_nl:
            info["nlUpdateLeaf"] = info_nl["nlUpdateLeaf"]
    return problems, info


if __name__ == "__main__":
    import sys
    pr, inf = regenerate(sys.argv[1] if len(sys.argv) > 1 else "/repo",
                         os.path.join(os.path.dirname(os.path.abspath(__file__)), "..", "..", "lean"))
    for k, v in inf.items():
        print(k, v["sha"][:16], v["notes"])
    for p in pr:
        print("PROBLEM", p)
