"""Fifth translator Python `ast` -> Lean 4 (DESIGN §10.3 / notes/NOTES-py2lean-timeresp.md): the SIMULATION
BLOCKS of `forced_response` (control/timeresp.py) - the statements that carry property C06 - isolated
inside the (very large) function by structural AST patterns and translated as separate functions.  It
regenerates `lean/CtrlVerif/Generated/TimeResp*.lean` from the source text of the tree the check runs
against on every run; `Props/C06Gen*.lean` prove the hand-written model (`Model/TimeResp.lean`:
`fohMFin fohBlocksFin simFOH simFree simDiscrete gridStep decimation`) EQUAL to the generated
functions, so a semantic edit of a tied statement breaks a proof obligation, and an edit that leaves
the supported subset makes the translation fail (reported the same way: the emitted definition is then
`.error .notImplemented` for every argument, which cannot equal the model).

WHICH STATEMENTS.  `forced_response` is cut at landmarks that are found by their shape, not by line
numbers or variable names:
  * `s = _convert_to_statespace(s)`                       -> the name of the system
  * `a, b, c, d = np.asarray(s.A), ... np.asarray(s.D)`   -> the names of the four matrices
  * `v = <matrix>.shape[k]` at top level                  -> the size definitions (translated, they are the
                                                             first lines of every simulation block)
  * `x = _check_convert_array(x, ..., 'Parameter `T`: ' | '`X0`' | '`U`', ...)`
                                                          -> the names of the time vector, the initial
                                                             state and the input; the three calls
                                                             themselves are argument validation (NOT tied)
  * the top-level `if isctime(s, strict=True): ... else: ...`
  * `return TimeResponseData(tout, yout, xout, U, ...)`   -> the names of the four result arrays
The translated blocks:
  frGrid   the statements between the `T` check and the `X0` check: `n_steps = T.shape[0]`,
           `dt = (T[-1] - T[0]) / (n_steps - 1)`, the equal-spacing test; returns the variables that
           later statements read, in order of assignment: `(n_steps, dt)`
  frFoh    size definitions + the statements between the `U` check and the `if isctime` (allocation of
           `xout`, `xout[:, 0] = X0`, `yout`) + the continuous-time branch with the zero-input test taken
           as FALSE (general first-order-hold algorithm) + the result tuple
  frFree   the same with the zero-input test taken as TRUE (fast path)
  frCont   the same with the test translated (`U is None or np.all(U == 0)`): both paths inline
  frDisc   size definitions + allocation + the discrete-time branch (the `else` of `if isctime`) once per
           kind of `sys.dt` (a number / True / None), with `interpolate` = its default False
Everything before the `T` check (keyword processing, lists of systems, type dispatch, warnings,
conversion to state space, `np.asarray`, the default time vector) and the construction of the
`TimeResponseData` object (C18) is NOT translated.

Value model (`lean/CtrlVerif/Model/PyTR.lean`, `PyMat.lean`, `PyArith.lean`; hand-written, trusted):
  a 2-D ndarray that is sliced / multiplied as a matrix   -> `PMat K`
  a 2-D ndarray that is indexed by column `X[:, i]`       -> `PSig K` (list of columns); `U`, `xout`, `yout`
  its transpose (what dlsim takes / returns)              -> `PSigT K`
  a 1-D float array: `X0`, a column                       -> `PVec K`;   the time vector -> `List K`
  Python / NumPy float -> exact field `K` (`ℚ` for the discrete block: the sampling time of `Dt` is
  rational); int -> `Int`; sizes -> `Nat`; `sys.dt` -> `Dt`
  `sp.linalg.expm`, `sp.signal.dlsim`, `np.nextafter(., np.inf)` are PARAMETERS of the generated
  functions; `while` is `PyTR.whileFuel` with the number of iterations as a parameter `fuel`.
  `np.isclose` / `np.allclose` are exact equality, `%` is `PyTR.fmod`, `int(round(.))` rounds half to
  even, `raise ValueError(...)` is `throw Err.badArg` (the rule of families/c06.py: classify_exc).
Typing is static and follows re-assignments; `U.ndim == 1` is decided from the static type (the input
is taken 2-D, i.e. after `reshape(1, -1)`), `U is None` is False (an array), `interpolate` is its
default.  Effectful sub-expressions (anything that can raise) are bound to temporaries left to right in
Python's order; `and` / `or` short-circuit.  The sha256 of each block's source text is recorded in the
generated file; output is deterministic and rewritten only when changed.
"""
import ast
import hashlib
import os
import re

from core.py2lean import Unsupported
from core.py2lean_ss import module_bindings, V, _ind

MAT, VEC, SIG, SIGT, TIME, NUM, INT, NAT, DT = "MAT", "VEC", "SIG", "SIGT", "TIME", "NUM", "INT", "NAT", "DT"
PROP, SHAPE, TUPLE, NONE, TRUE, FALSE, TRIPLE = "PROP", "SHAPE", "TUPLE", "NONE", "TRUE", "FALSE", "TRIPLE"

REL = "control/timeresp.py"
FUNC = "forced_response"

LEAN_KEYWORDS = {"at", "from", "end", "open", "then", "do", "fun", "match", "with", "in", "if", "let", "have",
                 "show", "by", "local", "where", "def", "theorem", "else", "for", "return", "mut", "K", "Type",
                 "Prop", "Nat", "Int", "import", "namespace", "section", "variable", "instance", "class",
                 "structure", "inductive", "deriving", "using", "calc", "this", "nomatch", "try", "catch",
                 "finally", "unless", "break", "continue", "export", "private", "protected", "partial",
                 "unsafe", "macro", "syntax", "notation", "universe", "abbrev", "example", "axiom", "opaque",
                 "fuel", "expm", "dlsim", "nextafter", "sysdt", "h"}

IMPORTS = {"np": ("import", "numpy"), "sp": ("import", "scipy")}


def lean_name(py):
    if py in LEAN_KEYWORDS or re.fullmatch(r"t\d+", py) or not re.fullmatch(r"[A-Za-z_][A-Za-z0-9_]*", py):
        return py + "_py"
    return py


class Tr:
    """translates statement lists into the lines of a Lean `do` block in `Except Err`"""

    def __init__(self, field, bindings, sysname, sysdt, assume, cps, statics):
        self.F = field                  # "K" | "ℚ"
        self.bindings = bindings
        self.sysname = sysname
        self.sysdt = sysdt              # V for `sys.dt` (NUM / TRUE / NONE) or None
        self.assume = assume            # id(ast.If) -> bool: tests taken as given
        self.cps = cps                  # ids of ast.If translated in continuation style
        self.statics = statics          # python name -> V of a static value (interpolate -> FALSE)
        self.ntmp = 0
        self.notes = []
        self.locals = set()
        self.ty = {MAT: "PMat %s" % field, VEC: "PVec %s" % field, SIG: "PSig %s" % field,
                   SIGT: "PSigT %s" % field, TIME: "List %s" % field, NUM: field, INT: "Int", NAT: "Nat",
                   DT: "Dt"}

    # ------------------------------------------------------------------------------------------
    def tmp(self):
        self.ntmp += 1
        return "t%d" % self.ntmp

    def need(self, name):
        got = self.bindings.get(name)
        if name in self.locals:
            raise Unsupported("`%s` is re-bound inside the function" % name)
        if got != IMPORTS[name]:
            raise Unsupported("`%s` is bound to %s in the module, expected %s" % (name, got, IMPORTS[name]))

    def bind(self, pre, code, ty):
        t = self.tmp()
        pre.append("let %s ← %s" % (t, code))
        return V(t, ty)

    # -- coercions -------------------------------------------------------------------------------
    def ints(self, v):
        return v.ty in (INT, NAT)

    def as_int(self, v):
        if v.lit is not None:
            return "(%d : Int)" % v.lit
        if v.ty == INT:
            return v.code
        if v.ty == NAT:
            return "(%s : Int)" % v.code
        raise Unsupported("expected an int, got %s" % v.ty)

    def nat_ok(self, v):
        return (v.ty == NAT and v.lit is None) or (v.lit is not None and v.lit >= 0 and v.ty in (INT, NAT))

    def as_nat(self, v):
        if v.lit is not None and v.lit >= 0:
            return "(%d : Nat)" % v.lit
        if v.ty == NAT:
            return v.code
        raise Unsupported("expected a size, got %s" % v.ty)

    def as_num(self, v):
        if v.lit is not None and v.ty in (INT, NAT, NUM):
            return "(%d : %s)" % (v.lit, self.F)
        if v.ty == NUM:
            return v.code
        if v.ty in (INT, NAT):
            return "((%s : Int) : %s)" % (self.as_int(v), self.F)
        raise Unsupported("expected a number, got %s" % v.ty)

    def numeric(self, v):
        return v.ty in (NUM, INT, NAT)

    # -- tests --------------------------------------------------------------------------------------
    def test(self, node, env, pre):
        """Python test -> (static truth value or None, Lean Prop code); effects go to `pre`"""
        if isinstance(node, ast.UnaryOp) and isinstance(node.op, ast.Not):
            s, c = self.test(node.operand, env, pre)
            if s is not None:
                return (not s), ("False" if s else "True")
            return None, "(¬ %s)" % c
        if isinstance(node, ast.BoolOp):
            return self.boolop(node, env, pre)
        if isinstance(node, ast.Compare) and len(node.ops) == 1:
            op = node.ops[0]
            if isinstance(op, (ast.Is, ast.IsNot)):
                a = self.expr(node.left, env, pre)
                b = self.expr(node.comparators[0], env, pre)
                if b.ty not in (NONE, TRUE, FALSE):
                    raise Unsupported("`is` against %s" % ast.unparse(node.comparators[0]))
                if a.ty == DT:
                    raise Unsupported("identity test of a timebase of unknown kind")
                same = (a.ty == b.ty)       # arrays, numbers: never None / True / False
                r = same if isinstance(op, ast.Is) else not same
                return r, "True" if r else "False"
            a = self.expr(node.left, env, pre)
            b = self.expr(node.comparators[0], env, pre)
            sym = {ast.Eq: "=", ast.NotEq: "≠", ast.Lt: "<", ast.LtE: "≤", ast.Gt: ">", ast.GtE: "≥"}.get(type(op))
            if sym is None:
                raise Unsupported("comparison %s" % ast.unparse(node))
            if a.lit is not None and b.lit is not None and a.ty in (INT, NAT) and b.ty in (INT, NAT):
                r = {"=": a.lit == b.lit, "≠": a.lit != b.lit, "<": a.lit < b.lit, "≤": a.lit <= b.lit,
                     ">": a.lit > b.lit, "≥": a.lit >= b.lit}[sym]
                return r, "True" if r else "False"
            if self.ints(a) and self.ints(b):
                if self.nat_ok(a) and self.nat_ok(b):
                    return None, "(%s %s %s)" % (self.as_nat(a), sym, self.as_nat(b))
                return None, "(%s %s %s)" % (self.as_int(a), sym, self.as_int(b))
            if self.numeric(a) and self.numeric(b):
                return None, "(%s %s %s)" % (self.as_num(a), sym, self.as_num(b))
            raise Unsupported("comparison of %s and %s" % (a.ty, b.ty))
        if isinstance(node, ast.Name) and node.id in self.statics:
            v = self.statics[node.id]
            if v.ty in (TRUE, FALSE):
                return v.ty == TRUE, "True" if v.ty == TRUE else "False"
        if isinstance(node, ast.Call):
            v = self.expr(node, env, pre)
            if v.ty == PROP:
                return None, v.code
        raise Unsupported("test %s" % ast.unparse(node)[:80])

    def boolop(self, node, env, pre):
        is_and = isinstance(node.op, ast.And)
        parts = []          # (prelude, static, code)
        for sub in node.values:
            npre = []
            s, c = self.test(sub, env, npre)
            parts.append((npre, s, c))
        # static simplification, left to right (an operand after a deciding static one is never evaluated)
        kept = []
        for npre, s, c in parts:
            if s is not None:
                if s != is_and:             # False in `and` / True in `or` decides
                    if not kept:
                        return s, ("True" if s else "False")
                    kept.append((npre, s, c))
                    break
                continue                    # neutral element (its prelude is empty: static tests are pure)
            kept.append((npre, s, c))
        if not kept:
            return is_and, ("True" if is_and else "False")
        if all(not npre for npre, _, _ in kept[1:]):
            pre.extend(kept[0][0])
            codes = [c if s is None else ("True" if s else "False") for _, s, c in kept]
            if len(codes) == 1:
                return None, codes[0]
            return None, "(" + (" ∧ " if is_and else " ∨ ").join(codes) + ")"
        # a later operand has effects: short-circuit evaluation to a Bool
        pre.extend(kept[0][0])

        def chain(items):
            npre, s, c = items[0]
            c = c if s is None else ("True" if s else "False")
            if len(items) == 1:
                return npre + ["pure (decide %s)" % c]
            rest = chain(items[1:])
            if is_and:
                return npre + ["if %s then" % c] + _ind(rest) + ["else", "  pure false"]
            return npre + ["if %s then" % c, "  pure true", "else"] + _ind(rest)
        first = kept[0]
        body = chain([([], first[1], first[2])] + kept[1:])
        t = self.tmp()
        pre.extend(["let %s ← (do" % t] + _ind(body) + ["  : Except Err Bool)"])
        return None, "(%s = true)" % t

    # -- expressions ------------------------------------------------------------------------------
    def expr(self, node, env, pre):
        if isinstance(node, ast.Name):
            if node.id in env:
                return env[node.id]
            if node.id in self.statics:
                return self.statics[node.id]
            raise Unsupported("unknown name %s" % node.id)
        if isinstance(node, ast.Constant):
            if node.value is None:
                return V(None, NONE)
            if node.value is True:
                return V(None, TRUE)
            if node.value is False:
                return V(None, FALSE)
            if type(node.value) is int:
                return V("(%d : Int)" % node.value, INT, lit=node.value)
            if type(node.value) is float and node.value == int(node.value) and abs(node.value) < 2 ** 31:
                return V("(%d : %s)" % (int(node.value), self.F), NUM, lit=int(node.value))
            raise Unsupported("constant %r" % (node.value,))
        if isinstance(node, ast.UnaryOp) and isinstance(node.op, ast.USub):
            v = self.expr(node.operand, env, pre)
            if v.lit is not None:
                return V("(%d : %s)" % (-v.lit, "Int" if v.ty != NUM else self.F), v.ty if v.ty == NUM else INT,
                         lit=-v.lit)
            if v.ty == MAT:
                return V("(PMat.neg %s)" % v.code, MAT)
            if v.ty == NUM:
                return V("(-%s)" % v.code, NUM)
            if self.ints(v):
                return V("(-%s)" % self.as_int(v), INT)
            raise Unsupported("unary minus on %s" % v.ty)
        if isinstance(node, ast.Tuple):
            items = [self.expr(e, env, pre) for e in node.elts]
            return V(None, TUPLE, items=items)
        if isinstance(node, ast.Attribute):
            return self.attribute(node, env, pre)
        if isinstance(node, ast.Subscript):
            return self.subscript(node, env, pre)
        if isinstance(node, ast.BinOp):
            return self.binop(node, env, pre)
        if isinstance(node, ast.Call):
            return self.call(node, env, pre)
        raise Unsupported("expression %s" % ast.unparse(node)[:80])

    def attribute(self, node, env, pre):
        a = node.attr
        if isinstance(node.value, ast.Name) and node.value.id == self.sysname and node.value.id not in env:
            if a == "dt" and self.sysdt is not None:
                return self.sysdt
            raise Unsupported("attribute .%s of the system" % a)
        v = self.expr(node.value, env, pre)
        if a == "shape":
            if v.ty == MAT:
                return V(None, SHAPE, items=[V("%s.r" % v.code, NAT), V("%s.c" % v.code, NAT)])
            if v.ty == SIG:
                return V(None, SHAPE, items=[V("%s.rows" % v.code, NAT), V("%s.cols.length" % v.code, NAT)])
            if v.ty == SIGT:
                return V(None, SHAPE, items=[V("%s.rws.length" % v.code, NAT), V("%s.width" % v.code, NAT)])
            if v.ty == TIME:
                return V(None, SHAPE, items=[V("%s.length" % v.code, NAT)])
            if v.ty == VEC:
                return V(None, SHAPE, items=[V("%s.n" % v.code, NAT)])
        if a == "ndim":
            if v.ty in (MAT, SIG, SIGT):
                return V("(2 : Int)", INT, lit=2)
            if v.ty in (TIME, VEC):
                return V("(1 : Int)", INT, lit=1)
        if a == "T" and v.ty == MAT:
            return V("(PMat.T %s)" % v.code, MAT)
        raise Unsupported("attribute .%s of %s" % (a, v.ty))

    def slice_bound(self, node, env, pre):
        if node is None:
            return "none"
        v = self.expr(node, env, pre)
        return "(some %s)" % self.as_int(v)

    def index_pair(self, sl):
        """`X[a, b]` -> (a, b) index nodes, None otherwise"""
        if isinstance(sl, ast.Tuple) and len(sl.elts) == 2:
            return sl.elts
        return None

    def is_full(self, e):
        return isinstance(e, ast.Slice) and e.lower is None and e.upper is None and e.step is None

    def subscript(self, node, env, pre):
        v = self.expr(node.value, env, pre)
        sl = node.slice
        if v.ty == SHAPE:
            k = None
            if isinstance(sl, ast.UnaryOp) and isinstance(sl.op, ast.USub) and isinstance(sl.operand, ast.Constant):
                k = -sl.operand.value
            elif isinstance(sl, ast.Constant) and type(sl.value) is int:
                k = sl.value
            if k is None or not (-len(v.items) <= k < len(v.items)):
                raise Unsupported("shape index %s" % ast.unparse(sl))
            return v.items[k]
        if v.ty == TIME:
            if isinstance(sl, (ast.Slice, ast.Tuple)):
                raise Unsupported("slice of the time vector")
            i = self.expr(sl, env, pre)
            return self.bind(pre, "PyArith.getItem %s %s" % (v.code, self.as_int(i)), NUM)
        pair = self.index_pair(sl)
        if pair is None:
            raise Unsupported("index %s" % ast.unparse(sl))
        r, c = pair
        if v.ty == SIG:
            if self.is_full(r) and not isinstance(c, ast.Slice):
                i = self.expr(c, env, pre)
                return self.bind(pre, "PSig.getCol %s %s" % (v.code, self.as_int(i)), VEC)
            raise Unsupported("index %s of a signal (only X[:, i])" % ast.unparse(sl))
        if v.ty == SIGT:
            if isinstance(r, ast.Slice) and r.lower is None and r.upper is None and r.step is not None \
                    and self.is_full(c):
                k = self.expr(r.step, env, pre)
                return self.bind(pre, "PSigT.stepRows %s %s" % (v.code, self.as_int(k)), SIGT)
            raise Unsupported("index %s of a time-major array (only X[::k, :])" % ast.unparse(sl))
        if v.ty == MAT:
            if not (isinstance(r, ast.Slice) and isinstance(c, ast.Slice)) or r.step is not None or c.step is not None:
                raise Unsupported("index %s of a matrix (only X[a:b, c:d])" % ast.unparse(sl))
            out = v.code
            if not self.is_full(r):
                out = "(PMat.sliceRows %s %s %s)" % (out, self.slice_bound(r.lower, env, pre),
                                                     self.slice_bound(r.upper, env, pre))
            if not self.is_full(c):
                out = "(PMat.sliceCols %s %s %s)" % (out, self.slice_bound(c.lower, env, pre),
                                                     self.slice_bound(c.upper, env, pre))
            return V(out, MAT)
        raise Unsupported("subscript of %s" % v.ty)

    def binop(self, node, env, pre):
        op = node.op
        a = self.expr(node.left, env, pre)
        b = self.expr(node.right, env, pre)
        ints = self.ints
        if isinstance(op, ast.MatMult):
            if a.ty == MAT and b.ty == MAT:
                return self.bind(pre, "PMat.matmul %s %s" % (a.code, b.code), MAT)
            if a.ty == MAT and b.ty == VEC:
                return self.bind(pre, "PMat.matvec %s %s" % (a.code, b.code), VEC)
            if a.ty == MAT and b.ty == SIG:
                return self.bind(pre, "PMat.matsig %s %s" % (a.code, b.code), SIG)
            raise Unsupported("%s @ %s" % (a.ty, b.ty))
        if isinstance(op, (ast.Add, ast.Sub)):
            plus = isinstance(op, ast.Add)
            if a.ty == MAT and b.ty == MAT:
                return self.bind(pre, "PMat.%s %s %s" % ("add" if plus else "sub", a.code, b.code), MAT)
            if a.ty == VEC and b.ty == VEC and plus:
                return self.bind(pre, "PVec.add %s %s" % (a.code, b.code), VEC)
            if a.ty == SIG and b.ty == SIG and plus:
                return self.bind(pre, "PSig.add %s %s" % (a.code, b.code), SIG)
            if a.ty == TIME and self.numeric(b):
                return V("(PyTR.%s %s %s)" % ("addNum" if plus else "subNum", a.code, self.as_num(b)), TIME)
            if ints(a) and ints(b):
                if a.lit is not None and b.lit is not None:
                    k = a.lit + b.lit if plus else a.lit - b.lit
                    return V("(%d : Int)" % k, INT, lit=k)
                if plus and self.nat_ok(a) and self.nat_ok(b):
                    return V("(%s + %s)" % (self.as_nat(a), self.as_nat(b)), NAT)
                return V("(%s %s %s)" % (self.as_int(a), "+" if plus else "-", self.as_int(b)), INT)
            if self.numeric(a) and self.numeric(b):
                return V("(%s %s %s)" % (self.as_num(a), "+" if plus else "-", self.as_num(b)), NUM)
            raise Unsupported("%s %s %s" % (a.ty, "+" if plus else "-", b.ty))
        if isinstance(op, ast.Mult):
            if self.numeric(a) and b.ty == MAT:
                return V("(PMat.smul %s %s)" % (self.as_num(a), b.code), MAT)
            if a.ty == MAT and self.numeric(b):
                return V("(PMat.mulNum %s %s)" % (a.code, self.as_num(b)), MAT)
            if ints(a) and ints(b):
                if a.lit is not None and b.lit is not None:
                    return V("(%d : Int)" % (a.lit * b.lit), INT, lit=a.lit * b.lit)
                if self.nat_ok(a) and self.nat_ok(b):
                    return V("(%s * %s)" % (self.as_nat(a), self.as_nat(b)), NAT)
                return V("(%s * %s)" % (self.as_int(a), self.as_int(b)), INT)
            if self.numeric(a) and self.numeric(b):
                return V("(%s * %s)" % (self.as_num(a), self.as_num(b)), NUM)
            raise Unsupported("%s * %s" % (a.ty, b.ty))
        if isinstance(op, ast.Div):
            if self.numeric(a) and self.numeric(b):
                return self.bind(pre, "PyArith.div %s %s" % (self.as_num(a), self.as_num(b)), NUM)
            raise Unsupported("%s / %s" % (a.ty, b.ty))
        if isinstance(op, ast.Mod):
            if self.numeric(a) and self.numeric(b) and (a.ty == NUM or b.ty == NUM):
                return self.bind(pre, "PyTR.fmod %s %s" % (self.as_num(a), self.as_num(b)), NUM)
            raise Unsupported("%s %% %s" % (a.ty, b.ty))
        raise Unsupported("operator %s" % type(op).__name__)

    def shape_arg(self, node, env, pre, n):
        if not (isinstance(node, ast.Tuple) and len(node.elts) == n):
            raise Unsupported("shape argument %s" % ast.unparse(node))
        vs = [self.expr(e, env, pre) for e in node.elts]
        if not all(self.nat_ok(v) for v in vs):
            raise Unsupported("shape %s is not made of sizes" % ast.unparse(node))
        return [self.as_nat(v) for v in vs]

    def call(self, node, env, pre, want=None):
        f = ast.unparse(node.func)
        args, kws = node.args, {k.arg: k.value for k in node.keywords}
        if f == "np.zeros" and len(args) == 1 and not kws:
            self.need("np")
            r, c = self.shape_arg(args[0], env, pre, 2)
            if want == SIG:
                return V("(PSig.zeros %s %s)" % (r, c), SIG)
            return V("(PMat.zeros %s %s)" % (r, c), MAT)
        if f in ("np.identity", "np.eye") and len(args) == 1 and not kws:
            self.need("np")
            n = self.expr(args[0], env, pre)
            if self.nat_ok(n):
                return V("(PMat.identity %s)" % self.as_nat(n), MAT)
        if f == "np.block" and len(args) == 1 and isinstance(args[0], ast.List) and not kws \
                and all(isinstance(r, ast.List) for r in args[0].elts):
            self.need("np")
            rows = []
            for r in args[0].elts:
                vs = [self.expr(e, env, pre) for e in r.elts]
                if any(x.ty != MAT for x in vs):
                    raise Unsupported("np.block of %s" % [x.ty for x in vs])
                rows.append("[" + ", ".join(x.code for x in vs) + "]")
            return self.bind(pre, "PMat.block [" + ", ".join(rows) + "]", MAT)
        if f == "sp.linalg.expm" and len(args) == 1 and not kws:
            self.need("sp")
            a = self.expr(args[0], env, pre)
            if a.ty == MAT:
                return self.bind(pre, "PMat.applySq expm %s" % a.code, MAT)
        if f == "np.all" and len(args) == 1 and not kws and isinstance(args[0], ast.Compare) \
                and len(args[0].ops) == 1 and isinstance(args[0].ops[0], ast.Eq):
            self.need("np")
            a = self.expr(args[0].left, env, pre)
            b = self.expr(args[0].comparators[0], env, pre)
            if a.ty == SIG and b.lit == 0:
                return V("(PSig.allZero %s = true)" % a.code, PROP)
        if f == "np.diff" and len(args) == 1 and not kws:
            self.need("np")
            a = self.expr(args[0], env, pre)
            if a.ty == TIME:
                return V("(PyTR.diff %s)" % a.code, TIME)
        if f == "np.allclose" and len(args) == 2 and not kws:
            self.need("np")
            a = self.expr(args[0], env, pre)
            b = self.expr(args[1], env, pre)
            if a.ty == TIME and self.numeric(b):
                return V("(PyTR.allclose %s %s = true)" % (a.code, self.as_num(b)), PROP)
        if f == "np.isclose" and len(args) == 2 and not kws:
            self.need("np")
            a = self.expr(args[0], env, pre)
            b = self.expr(args[1], env, pre)
            if self.numeric(a) and self.numeric(b):
                return V("(PyTR.isclose %s %s)" % (self.as_num(a), self.as_num(b)), PROP)
        if f == "int" and len(args) == 1 and not kws and isinstance(args[0], ast.Call):
            g = ast.unparse(args[0].func)
            inner = args[0]
            if g == "round" and len(inner.args) == 1 and not inner.keywords:
                x = self.expr(inner.args[0], env, pre)
                if x.ty == NUM:
                    return V("(PyTR.roundInt %s)" % x.code, INT)
            if g == "np.floor" and len(inner.args) == 1 and not inner.keywords:
                self.need("np")
                x = self.expr(inner.args[0], env, pre)
                if x.ty == NUM:
                    return V("(PyTR.floorInt %s)" % x.code, INT)
        if f == "np.nextafter" and len(args) == 2 and not kws and ast.unparse(args[1]) == "np.inf":
            self.need("np")
            x = self.expr(args[0], env, pre)
            if x.ty == NUM:
                return V("(nextafter %s)" % x.code, NUM)
        if f == "np.transpose" and len(args) == 1 and not kws:
            self.need("np")
            x = self.expr(args[0], env, pre)
            if x.ty == SIG:
                return V("(PSig.T %s)" % x.code, SIGT)
            if x.ty == SIGT:
                return V("(PSigT.T %s)" % x.code, SIG)
            if x.ty == MAT:
                return V("(PMat.T %s)" % x.code, MAT)
        if f == "sp.signal.dlsim" and len(args) == 4 and not kws:
            self.need("sp")
            d = self.expr(args[0], env, pre)
            u = self.expr(args[1], env, pre)
            t = self.expr(args[2], env, pre)
            x0 = self.expr(args[3], env, pre)
            if d.ty == TUPLE and [i.ty for i in d.items[:4]] == [MAT] * 4 and len(d.items) == 5 \
                    and self.numeric(d.items[4]) and u.ty == SIGT and t.ty == TIME and x0.ty == VEC:
                code = "PyTR.callDlsim dlsim %s %s %s %s %s" % (
                    " ".join(i.code for i in d.items[:4]), self.as_num(d.items[4]), u.code, t.code, x0.code)
                return self.bind(pre, code, TRIPLE)
            raise Unsupported("dlsim(%s)" % ", ".join(x.ty for x in (d, u, t, x0)))
        if f.endswith(".reshape") and isinstance(node.func, ast.Attribute):
            raise Unsupported("reshape (the input is taken 2-D)")
        raise Unsupported("call %s" % ast.unparse(node)[:80])

    # -- statements ---------------------------------------------------------------------------------
    def is_doc(self, s):
        return isinstance(s, ast.Expr) and isinstance(s.value, ast.Constant) and isinstance(s.value.value, str)

    def let(self, name, v, env, pre):
        if v.ty in (SHAPE, PROP, NONE, TRUE, FALSE):
            raise Unsupported("assignment of a %s to `%s`" % (v.ty, name))
        self.locals.add(name)
        if v.ty == TUPLE:
            env[name] = v               # static tuple: no Lean variable
            return pre
        ln = lean_name(name)
        if v.ty == TRIPLE:
            raise Unsupported("the result of dlsim must be unpacked into three names")
        if pre and pre[-1].startswith("let %s ← " % v.code) and re.fullmatch(r"t\d+", v.code or ""):
            last = pre.pop()
            self.ntmp -= 1
            lines = pre + ["let %s ← %s" % (ln, last[len("let %s ← " % v.code):])]
        else:
            code = v.code
            if v.lit is not None:
                code = "(%d : %s)" % (v.lit, "Int" if v.ty != NUM else self.F)
            lines = pre + ["let %s : %s := %s" % (ln, self.ty[v.ty if v.lit is None or v.ty == NUM else INT], code)]
        env[name] = V(ln, v.ty if v.lit is None or v.ty == NUM else INT)
        return lines

    def assigned(self, stmts):
        out = []
        for s in stmts:
            for n in ast.walk(s):
                targets = []
                if isinstance(n, ast.Assign):
                    targets = n.targets
                elif isinstance(n, (ast.AugAssign, ast.AnnAssign)):
                    targets = [n.target]
                elif isinstance(n, ast.For):
                    targets = [n.target]
                for t in targets:
                    for x in ast.walk(t):
                        if isinstance(x, ast.Name) and isinstance(x.ctx, ast.Store) and x.id not in out:
                            out.append(x.id)
                        elif isinstance(x, ast.Subscript) and isinstance(x.value, ast.Name) and x.value.id not in out:
                            out.append(x.value.id)
        return out

    def pack(self, names, env):
        vals = [env[n].code for n in names]
        return vals[0] if len(vals) == 1 else "(" + ", ".join(vals) + ")"

    def pack_ty(self, tys):
        return self.ty[tys[0]] if len(tys) == 1 else " × ".join(self.ty[t] for t in tys)

    def unpack(self, st, names, tys):
        """lines binding the components of the state `st` (right-nested pairs) to the names"""
        if len(names) == 1:
            return []
        out = []
        acc = st
        for k, (n, t) in enumerate(zip(names, tys)):
            last = (k == len(names) - 1)
            out.append("let %s : %s := %s" % (lean_name(n), self.ty[t], acc if last else acc + ".1"))
            acc = acc + ".2"
        return out

    def seq(self, stmts, env, tail):
        """translate a statement list; returns (lines, ended).  `tail`: None = the block must end in
        return / raise; a list of (name, type) = ends with `pure (those variables)`; [] = no value."""
        lines = []
        stmts = [s for s in stmts if not self.is_doc(s) and not isinstance(s, ast.Pass)]
        for idx, s in enumerate(stmts):
            rest = stmts[idx + 1:]
            if isinstance(s, ast.Raise):
                e = s.exc
                if isinstance(e, ast.Call) and isinstance(e.func, ast.Name) and e.func.id in ("ValueError", "TypeError"):
                    return lines + ["throw Err.badArg"], True
                raise Unsupported("raise %s" % ast.unparse(s)[:60])
            if isinstance(s, ast.Assign) and len(s.targets) == 1:
                t = s.targets[0]
                if isinstance(t, ast.Name):
                    pre = []
                    if isinstance(s.value, ast.Call) and ast.unparse(s.value.func) == "np.zeros":
                        v = self.call(s.value, env, pre, want=SIG if t.id in self.sigvars else None)
                    else:
                        v = self.expr(s.value, env, pre)
                    lines += self.let(t.id, v, env, pre)
                    continue
                if isinstance(t, ast.Tuple) and all(isinstance(x, ast.Name) for x in t.elts):
                    names = [x.id for x in t.elts]
                    pre = []
                    v = self.expr(s.value, env, pre)
                    if v.ty == TRIPLE and len(names) == 3:
                        last = pre.pop()
                        self.ntmp -= 1
                        lns = [lean_name(n) for n in names]
                        lines += pre + ["let (%s) ← %s" % (", ".join(lns), last[len("let %s ← " % v.code):])]
                        for n, ln, ty in zip(names, lns, (TIME, SIGT, SIGT)):
                            env[n] = V(ln, ty)
                            self.locals.add(n)
                        continue
                    raise Unsupported("tuple assignment %s" % ast.unparse(s)[:60])
                if isinstance(t, ast.Subscript) and isinstance(t.value, ast.Name):
                    x = self.expr(t.value, env, [])
                    pre = []
                    ln = lean_name(t.value.id)
                    if x.ty == SIG:
                        pair = self.index_pair(t.slice)
                        if pair is None or not self.is_full(pair[0]) or isinstance(pair[1], ast.Slice):
                            raise Unsupported("assignment %s (only X[:, i] = v)" % ast.unparse(t))
                        i = self.expr(pair[1], env, pre)
                        v = self.expr(s.value, env, pre)
                        if v.ty != VEC:
                            raise Unsupported("column assignment of a %s" % v.ty)
                        lines += pre + ["let %s ← PSig.setCol %s %s %s" % (ln, x.code, self.as_int(i), v.code)]
                        env[t.value.id] = V(ln, SIG)
                        continue
                    if x.ty == TIME:
                        if isinstance(t.slice, (ast.Slice, ast.Tuple)):
                            raise Unsupported("assignment %s" % ast.unparse(t))
                        i = self.expr(t.slice, env, pre)
                        v = self.expr(s.value, env, pre)
                        if not self.numeric(v):
                            raise Unsupported("element assignment of a %s" % v.ty)
                        lines += pre + ["let %s ← PyArith.setItem %s %s %s" % (ln, x.code, self.as_int(i), self.as_num(v))]
                        env[t.value.id] = V(ln, TIME)
                        continue
                    raise Unsupported("item assignment on %s" % x.ty)
                raise Unsupported("assignment %s" % ast.unparse(s)[:60])
            if isinstance(s, ast.For):
                lines += self.for_stmt(s, env)
                continue
            if isinstance(s, ast.While):
                lines += self.while_stmt(s, env)
                continue
            if isinstance(s, ast.If):
                if id(s) in self.assume:
                    taken = s.body if self.assume[id(s)] else s.orelse
                    self.notes.append("the test `%s` is taken as %s" % (ast.unparse(s.test)[:70], self.assume[id(s)]))
                    sub, ended = self.seq(list(taken) + rest, env, tail)
                    return lines + sub, ended
                pre = []
                st, cond = self.test(s.test, env, pre)
                if st is True:
                    sub, ended = self.seq(list(s.body) + rest, env, tail)
                    return lines + pre + sub, ended
                if st is False:
                    sub, ended = self.seq(list(s.orelse) + rest, env, tail)
                    return lines + pre + sub, ended
                save = self.ntmp
                benv, eenv = dict(env), dict(env)
                bl, b_end = self.seq(list(s.body), benv, [])
                el, e_end = self.seq(list(s.orelse), eenv, [])
                self.ntmp = save
                if b_end or e_end or id(s) in self.cps:
                    benv, eenv = dict(env), dict(env)
                    bl, b_end = self.seq(list(s.body) + ([] if b_end else rest), benv, tail)
                    el, e_end = self.seq(list(s.orelse) + ([] if e_end else rest), eenv, tail)
                    return (lines + pre + ["if %s then" % cond] + _ind(bl) + ["else"] + _ind(el)), True
                names = [n for n in self.assigned(list(s.body) + list(s.orelse))]
                live = []
                for nm in names:
                    tb, te = benv.get(nm), eenv.get(nm)
                    if tb is None or te is None or tb.ty == TUPLE or te.ty == TUPLE:
                        continue
                    if tb.ty != te.ty:
                        if {tb.ty, te.ty} == {NAT, INT}:
                            live.append((nm, INT))
                            continue
                        raise Unsupported("`%s` has type %s / %s after the branches" % (nm, tb.ty, te.ty))
                    live.append((nm, tb.ty))
                if not live:
                    raise Unsupported("an if statement without effect")
                benv, eenv = dict(env), dict(env)
                bl, _ = self.seq(list(s.body), benv, live)
                el, _ = self.seq(list(s.orelse), eenv, live)
                pat = lean_name(live[0][0]) if len(live) == 1 else "(" + ", ".join(lean_name(nm) for nm, _ in live) + ")"
                lines += pre + ["let %s ← (do" % pat] + _ind(["if %s then" % cond] + _ind(bl) + ["else"] + _ind(el)) \
                    + ["  : Except Err (%s))" % self.pack_ty([t for _, t in live])]
                for nm, t in live:
                    env[nm] = V(lean_name(nm), t)
                    self.locals.add(nm)
                for nm in names:
                    if nm not in [x for x, _ in live]:
                        env.pop(nm, None)
                continue
            raise Unsupported("statement %s" % ast.unparse(s)[:60])
        if tail is None:
            raise Unsupported("a path falls off the end of the block")
        if tail == []:
            return lines, False
        vals = []
        for nm, t in tail:
            if nm not in env:
                raise Unsupported("`%s` is not defined on every path" % nm)
            v = env[nm]
            if v.ty != t:
                if t == INT and v.ty == NAT:
                    vals.append(self.as_int(v))
                    continue
                raise Unsupported("`%s` is a %s where a %s is expected" % (nm, v.ty, t))
            vals.append(v.code)
        return lines + ["pure %s" % (vals[0] if len(vals) == 1 else "(" + ", ".join(vals) + ")")], False

    def carried(self, body, env):
        return [(n, env[n].ty) for n in self.assigned(body) if n in env and env[n].ty != TUPLE]

    def for_stmt(self, s, env):
        if s.orelse or not isinstance(s.target, ast.Name):
            raise Unsupported("for statement shape")
        it = s.iter
        if not (isinstance(it, ast.Call) and isinstance(it.func, ast.Name) and it.func.id == "range"
                and 1 <= len(it.args) <= 2 and not it.keywords):
            raise Unsupported("for over %s" % ast.unparse(it)[:60])
        pre = []
        bounds = [self.expr(a, env, pre) for a in it.args]
        if len(bounds) == 1:
            bounds = [V("(0 : Int)", INT, lit=0)] + bounds
        lo, hi = self.as_int(bounds[0]), self.as_int(bounds[1])
        var = s.target.id
        if var in env:
            raise Unsupported("loop variable `%s` shadows a variable" % var)
        st = [(n, t) for n, t in self.carried(s.body, env) if n != var]
        if not st:
            raise Unsupported("a loop without effect")
        names, tys = [n for n, _ in st], [t for _, t in st]
        benv = dict(env)
        benv[var] = V(lean_name(var), INT)
        for n, t in st:
            benv[n] = V(lean_name(n), t)
        state = lean_name(names[0]) if len(st) == 1 else self.tmp()
        bl, ended = self.seq(list(s.body), benv, st)
        if ended:
            raise Unsupported("return / raise at the end of a loop body")
        body = self.unpack(state, names, tys) + bl
        pat = lean_name(names[0]) if len(st) == 1 else "(" + ", ".join(lean_name(n) for n in names) + ")"
        lines = pre + ["let %s ← List.foldlM (fun (%s : %s) (%s : Int) => (do" % (pat, state, self.pack_ty(tys), lean_name(var))] \
            + _ind(body, 4) + ["    : Except Err (%s))) %s (PyArith.range %s %s)" % (self.pack_ty(tys), self.pack(names, env), lo, hi)]
        for n, t in st:
            env[n] = V(lean_name(n), t)
        return lines

    def while_stmt(self, s, env):
        if s.orelse:
            raise Unsupported("while ... else")
        st = self.carried(s.body, env)
        if not st:
            raise Unsupported("a loop without effect")
        names, tys = [n for n, _ in st], [t for _, t in st]
        state = lean_name(names[0]) if len(st) == 1 else self.tmp()
        cenv = dict(env)
        for n, t in st:
            cenv[n] = V(lean_name(n), t)
        cpre = []
        cs, cond = self.test(s.test, cenv, cpre)
        if cs is not None:
            raise Unsupported("a while loop with a constant test")
        benv = dict(cenv)
        bl, ended = self.seq(list(s.body), benv, st)
        if ended:
            raise Unsupported("return / raise at the end of a loop body")
        up = self.unpack(state, names, tys)
        pat = lean_name(names[0]) if len(st) == 1 else "(" + ", ".join(lean_name(n) for n in names) + ")"
        sty = self.pack_ty(tys)
        lines = ["let %s ← PyTR.whileFuel" % pat,
                 "    (fun (%s : %s) => (do" % (state, sty)] + _ind(up + cpre + ["pure (decide %s)" % cond], 8) \
            + ["        : Except Err Bool))",
               "    (fun (%s : %s) => (do" % (state, sty)] + _ind(up + bl, 8) \
            + ["        : Except Err (%s)))" % sty,
               "    fuel %s" % self.pack(names, env)]
        for n, t in st:
            env[n] = V(lean_name(n), t)
        return lines


# -------------------------------------------------------------------------------------------------
# landmarks
# -------------------------------------------------------------------------------------------------
class Landmarks:
    pass


def find_function(module, name):
    found = [n for n in module.body if isinstance(n, ast.FunctionDef) and n.name == name]
    if len(found) != 1:
        raise Unsupported("function %s %s" % (name, "not found" if not found else "defined twice"))
    return found[0]


def _is_call(node, fname):
    return isinstance(node, ast.Call) and ast.unparse(node.func) == fname


def landmarks(fn):
    L = Landmarks()
    body = fn.body
    L.body = body
    # the system
    conv = [i for i, s in enumerate(body) if isinstance(s, ast.Assign) and len(s.targets) == 1
            and isinstance(s.targets[0], ast.Name) and _is_call(s.value, "_convert_to_statespace")
            and len(s.value.args) == 1 and isinstance(s.value.args[0], ast.Name)
            and s.value.args[0].id == s.targets[0].id]
    if len(conv) != 1:
        raise Unsupported("landmark `s = _convert_to_statespace(s)` %s" % ("not found" if not conv else "found twice"))
    L.sys = body[conv[0]].targets[0].id
    # the matrices
    mats = []
    for i, s in enumerate(body):
        if isinstance(s, ast.Assign) and len(s.targets) == 1 and isinstance(s.targets[0], ast.Tuple) \
                and isinstance(s.value, ast.Tuple) and len(s.targets[0].elts) == 4 and len(s.value.elts) == 4 \
                and all(isinstance(x, ast.Name) for x in s.targets[0].elts) \
                and [ast.unparse(v) for v in s.value.elts] == ["np.asarray(%s.%s)" % (L.sys, a) for a in "ABCD"]:
            mats.append(i)
    if len(mats) != 1 or mats[0] < conv[0]:
        raise Unsupported("landmark `A, B, C, D = np.asarray(sys.A), ...` not found once after the conversion")
    L.mats = [x.id for x in body[mats[0]].targets[0].elts]
    # the three argument checks
    checks = {}
    for i, s in enumerate(body):
        if isinstance(s, ast.Assign) and len(s.targets) == 1 and isinstance(s.targets[0], ast.Name) \
                and _is_call(s.value, "_check_convert_array") and len(s.value.args) >= 3 \
                and isinstance(s.value.args[0], ast.Name) and s.value.args[0].id == s.targets[0].id \
                and isinstance(s.value.args[2], ast.Constant) and isinstance(s.value.args[2].value, str):
            m = re.search(r"`(T|X0|U)`", s.value.args[2].value)
            if m:
                if m.group(1) in checks:
                    raise Unsupported("two argument checks for `%s`" % m.group(1))
                checks[m.group(1)] = (i, s.targets[0].id)
    if set(checks) != {"T", "X0", "U"}:
        raise Unsupported("landmarks `x = _check_convert_array(x, ..., 'Parameter `T|X0|U`: ')`: found %s" % sorted(checks))
    L.iT, L.T = checks["T"]
    L.iX0, L.X0 = checks["X0"]
    L.iU, L.U = checks["U"]
    if not (mats[0] < L.iT < L.iX0 < L.iU):
        raise Unsupported("the argument checks are not in the order T, X0, U after the matrices")
    # the main branch
    want = "isctime(%s, strict=True)" % L.sys
    main = [i for i, s in enumerate(body) if isinstance(s, ast.If) and ast.unparse(s.test) == want]
    if len(main) != 1 or main[0] < L.iU:
        raise Unsupported("landmark `if %s:` not found once after the argument checks" % want)
    L.iMain = main[0]
    L.main = body[main[0]]
    # the result
    ret = body[-1]
    if not (isinstance(ret, ast.Return) and _is_call(ret.value, "TimeResponseData") and len(ret.value.args) >= 4
            and all(isinstance(a, ast.Name) for a in ret.value.args[:4])):
        raise Unsupported("landmark `return TimeResponseData(tout, yout, xout, U, ...)` is not the last statement")
    L.ret = [a.id for a in ret.value.args[:4]]
    if L.ret[3] != L.U:
        raise Unsupported("the fourth result `%s` is not the input array `%s`" % (L.ret[3], L.U))
    # size definitions: v = <matrix>.shape[k] at top level (before the main branch)
    L.sizes = []
    for i, s in enumerate(body[:L.iMain]):
        if isinstance(s, ast.Assign) and len(s.targets) == 1 and isinstance(s.targets[0], ast.Name) \
                and isinstance(s.value, ast.Subscript) and isinstance(s.value.value, ast.Attribute) \
                and s.value.value.attr == "shape" and isinstance(s.value.value.value, ast.Name) \
                and s.value.value.value.id in L.mats and mats[0] < i < L.iT:
            L.sizes.append(s)
    # the matrices and the sizes must not be re-bound anywhere else
    fixed = set(L.mats) | {s.targets[0].id for s in L.sizes}
    count = {}
    for n in ast.walk(fn):
        if isinstance(n, ast.Name) and isinstance(n.ctx, ast.Store) and n.id in fixed:
            count[n.id] = count.get(n.id, 0) + 1
    bad = sorted(k for k, c in count.items() if c != 1)
    if bad:
        raise Unsupported("%s re-bound inside the function" % ", ".join(bad))
    # the blocks
    L.grid = body[L.iT + 1:L.iX0]
    between = body[L.iX0 + 1:L.iU]
    ucheck_names = {n.id for n in ast.walk(body[L.iU].value) if isinstance(n, ast.Name)}
    for s in between:
        ok = isinstance(s, ast.Assign) and len(s.targets) == 1 and isinstance(s.targets[0], ast.Name) \
            and s.targets[0].id in ucheck_names and s.targets[0].id not in (L.T, L.X0, L.U)
        if ok:
            later = [n for t in body[L.iU + 1:] for n in ast.walk(t)
                     if isinstance(n, ast.Name) and n.id == s.targets[0].id]
            ok = not later
        if not ok:
            raise Unsupported("statement `%s` between the checks of X0 and U" % ast.unparse(s)[:60])
    L.prologue = body[L.iU + 1:L.iMain]
    L.epilogue = body[L.iMain + 1:-1]
    # names of the step count and the step (parameters of the simulation blocks)
    L.n_steps = L.dt = None
    for s in L.grid:
        if isinstance(s, ast.Assign) and len(s.targets) == 1 and isinstance(s.targets[0], ast.Name):
            if ast.unparse(s.value) == "%s.shape[0]" % L.T and L.n_steps is None:
                L.n_steps = s.targets[0].id
            elif isinstance(s.value, ast.BinOp) and isinstance(s.value.op, ast.Div) and L.dt is None:
                L.dt = s.targets[0].id
    L.n_steps = L.n_steps or "n_steps"
    L.dt = L.dt or "dt"
    # default of `interpolate`
    a = fn.args
    names = [x.arg for x in a.args]
    defaults = dict(zip(names[len(names) - len(a.defaults):], a.defaults))
    L.interpolate = None
    if "interpolate" in defaults and isinstance(defaults["interpolate"], ast.Constant) \
            and defaults["interpolate"].value in (True, False):
        L.interpolate = defaults["interpolate"].value
    # arrays that are indexed by column somewhere: signals
    L.sigvars = set()
    for n in ast.walk(fn):
        if isinstance(n, ast.Subscript) and isinstance(n.value, ast.Name) and isinstance(n.slice, ast.Tuple) \
                and len(n.slice.elts) == 2 and isinstance(n.slice.elts[0], ast.Slice) \
                and n.slice.elts[0].lower is None and n.slice.elts[0].upper is None and n.slice.elts[0].step is None \
                and not isinstance(n.slice.elts[1], ast.Slice):
            L.sigvars.add(n.value.id)
    return L


def used_names(stmts):
    return {n.id for s in stmts for n in ast.walk(s) if isinstance(n, ast.Name) and isinstance(n.ctx, ast.Load)}


def seg(src, stmts):
    return "\n".join(ast.get_source_segment(src, s) or ast.unparse(s) for s in stmts)


# -------------------------------------------------------------------------------------------------
# the generated functions
# -------------------------------------------------------------------------------------------------
RET_SIM = "List {F} × PSig {F} × PSig {F} × PSig {F}"
SIG_CONT = ("(expm : SqFun K) (A B C D : PMat K) (dt : K) (n_steps : Nat) (T : List K) (X0 : PVec K) "
            "(U : PSig K)")
SIG_DISC = ("(dlsim : DlsimFun ℚ) (nextafter : ℚ → ℚ) (fuel : Nat) (A B C D : PMat ℚ) (sysdt : Dt) (dt : ℚ) "
            "(n_steps : Nat) (T : List ℚ) (X0 : PVec ℚ) (U : PSig ℚ)")
JOBS = [
    dict(name="frGrid", out="TimeRespGrid.lean", field="K", kind="grid",
         sig="(T : List K)", ret="Nat × K"),
    dict(name="frFoh", out="TimeRespFoh.lean", field="K", kind="cont", zero=False, sig=SIG_CONT,
         ret=RET_SIM.format(F="K")),
    dict(name="frFree", out="TimeRespFree.lean", field="K", kind="cont", zero=True, sig=SIG_CONT,
         ret=RET_SIM.format(F="K")),
    dict(name="frCont", out="TimeRespCont.lean", field="K", kind="cont", zero=None, sig=SIG_CONT,
         ret=RET_SIM.format(F="K")),
    dict(name="frDisc", out="TimeRespDisc.lean", field="ℚ", kind="disc", sig=SIG_DISC,
         ret=RET_SIM.format(F="ℚ")),
]


def sim_env(L, field):
    env = {}
    for py, role in zip(L.mats, "ABCD"):
        env[py] = V(role, MAT)
    env[L.dt] = V("dt", NUM)
    env[L.n_steps] = V("n_steps", NAT)
    env[L.T] = V("T", TIME)
    env[L.X0] = V("X0", VEC)
    env[L.U] = V("U", SIG)
    return env


def zero_if(L):
    """the `if` on the zero-input test: the only `if` directly in the continuous-time branch"""
    ifs = [s for s in L.main.body if isinstance(s, ast.If)]
    if len(ifs) != 1:
        raise Unsupported("%d `if` statements directly in the continuous-time branch (expected the zero-input test)"
                          % len(ifs))
    if "np.all(" not in ast.unparse(ifs[0].test) and "== 0" not in ast.unparse(ifs[0].test):
        raise Unsupported("the `if` of the continuous-time branch does not test the input against zero")
    return ifs[0]


def translate(src, bindings, L, job):
    field = job["field"]
    statics = {}
    if L.interpolate is not None:
        statics["interpolate"] = V(None, TRUE if L.interpolate else FALSE)
    notes = []
    if job["kind"] == "grid":
        tr = Tr(field, bindings, L.sys, None, {}, set(), statics)
        tr.sigvars = L.sigvars
        env = {L.T: V("T", TIME)}
        later = used_names(L.body[L.iX0:])
        outs = [n for n in tr.assigned(L.grid) if n in later]
        probe = Tr(field, bindings, L.sys, None, {}, set(), statics)
        probe.sigvars = L.sigvars
        penv = dict(env)
        probe.seq(L.grid, penv, [])
        tail = [(n, penv[n].ty) for n in outs if n in penv]
        if [t for _, t in tail] != [NAT, NUM]:
            raise Unsupported("the grid block hands on %s (expected the step count and the step)"
                              % [(n, t) for n, t in tail])
        lines, _ = tr.seq(L.grid, env, tail)
        text = seg(src, L.grid)
        notes = tr.notes + ["returns (%s)" % ", ".join(n for n, _ in tail)]
        return lines, text, notes, tr.ntmp
    stmts = list(L.sizes) + list(L.prologue) + [L.main] + list(L.epilogue)
    tail = [(L.ret[0], TIME), (L.ret[1], SIG), (L.ret[2], SIG), (L.ret[3], SIG)]
    if job["kind"] == "cont":
        z = zero_if(L)
        assume = {id(L.main): True}
        if job["zero"] is not None:
            assume[id(z)] = job["zero"]
        tr = Tr(field, bindings, L.sys, None, assume, {id(z)}, statics)
        tr.sigvars = L.sigvars
        lines, _ = tr.seq(stmts, sim_env(L, field), tail)
        around = [s for s in L.main.body if s is not z]
        branch = (list(z.body) + list(z.orelse)) if job["zero"] is None else list(z.body if job["zero"] else z.orelse)
        text = seg(src, list(L.sizes) + list(L.prologue)) + "\nif " + ast.unparse(z.test) + ":\n" \
            + seg(src, branch) + "\n" + seg(src, around + list(L.epilogue))
        return lines, text, tr.notes, tr.ntmp
    # discrete time: once per kind of `sys.dt`
    if L.interpolate is not False:
        raise Unsupported("the default of `interpolate` is not False")
    text = seg(src, list(L.sizes) + list(L.prologue) + list(L.main.orelse) + list(L.epilogue))
    lines = ["match sysdt with"]
    ntmp = 0
    for arm, v in (("| .disc h =>", V("h", NUM)), ("| .dtrue =>", V(None, TRUE)), ("| .none =>", V(None, NONE))):
        tr = Tr(field, bindings, L.sys, v, {id(L.main): False}, set(), statics)
        tr.sigvars = L.sigvars
        sub, _ = tr.seq(stmts, sim_env(L, field), tail)
        lines += [arm + " do"] + _ind(sub)
        ntmp = max(ntmp, tr.ntmp)
        notes = tr.notes
    lines += ["| .cont => throw Err.badArg   -- not reached: `isctime(sys, strict=True)` holds for dt = 0"]
    return lines, text, notes + ["`interpolate` is its default False"], ntmp


def regenerate(repo, lean_dir, only=None):
    """Rewrite Generated/TimeResp*.lean; returns (list of problems, info dict).  The files are
    deterministic functions of the source text (no timestamps) and rewritten only when changed."""
    problems, info = [], {}
    gen_dir = os.path.join(lean_dir, "CtrlVerif", "Generated")
    os.makedirs(gen_dir, exist_ok=True)
    path = os.path.join(repo, REL)
    L = src = bindings = None
    load_error = None
    try:
        src = open(path).read()
        module = ast.parse(src)
        bindings = module_bindings(module)
        L = landmarks(find_function(module, FUNC))
    except (OSError, SyntaxError, Unsupported) as e:
        load_error = str(e)
    for job in JOBS:
        where = "%s:%s[%s]" % (REL, FUNC, job["name"])
        try:
            if load_error:
                raise Unsupported(load_error)
            lines, text, notes, ntmp = translate(src, bindings, L, job)
            sha = hashlib.sha256(text.encode()).hexdigest()
            info[job["name"]] = {"sha": sha, "lines": len(text.split("\n")), "temporaries": ntmp, "notes": notes}
            body = ["do"] + _ind(lines) if not lines[0].startswith("match ") else lines
            doc = ("/-- block `%s` of `%s:%s` as the source text says it (sha256 of the text of the translated\n"
                   "statements %s).%s -/\n" % (job["name"], REL, FUNC, sha,
                                              "".join("\n  note: " + n.replace("-/", "- /") for n in notes)))
            lean = doc + "def %s %s :\n    Except Err (%s) :=\n" % (job["name"], job["sig"], job["ret"]) \
                + "\n".join(_ind(body)) + "\n"
            head = "%s %s" % (job["name"], sha[:16])
        except Unsupported as e:
            msg = str(e).replace("\n", " ").replace("-/", "- /")[:300]
            problems.append("py2lean_tr: %s cannot be translated: %s" % (where, msg))
            lean = ("/-- translation of `%s` FAILED: %s -/\ndef %s %s :\n    Except Err (%s) :=\n  .error Err.notImplemented\n"
                    % (where, msg, job["name"], job["sig"], job["ret"]))
            head = "%s FAILED" % job["name"]
        if only and job["out"] not in only:
            continue
        text_out = ("-- GENERATED on every run by harness/core/py2lean_tr.py from %s:%s (%s).  Do not edit.\n" % (REL, FUNC, head)
                    + "import CtrlVerif.Model.PyTR\n"
                    + "\nnamespace CtrlVerif.Generated\n\nopen CtrlVerif\n\n"
                    + ("variable {K : Type} [Field K] [DecidableEq K]\n\n" if job["field"] == "K" else "")
                    + lean + "\nend CtrlVerif.Generated\n")
        p = os.path.join(gen_dir, job["out"])
        old = open(p).read() if os.path.exists(p) else None
        if old != text_out:
            with open(p, "w") as f:
                f.write(text_out)
    return problems, info


if __name__ == "__main__":
    import sys
    probs, inf = regenerate(sys.argv[1], sys.argv[2])
    for p in probs:
        print("PROBLEM", p)
    for k, v in inf.items():
        print(k, v["sha"][:16], v["lines"], "lines,", v["temporaries"], "temporaries", v["notes"])
