"""Translator Python `ast` -> Lean 4 for the ARGUMENT DISPATCH at the head of large python-control functions
(DESIGN §10.3, notes/NOTES-py2lean-heads.md).  On every run of `check.py C12` it rewrites

  lean/CtrlVerif/Generated/HeadSmDispatch.lean   `Generated.Heads.smDispatch`  — the `try: … except Exception …`
        statement of `control/margins.py: stability_margins` (dispatch on the class of `sysdata`)
  lean/CtrlVerif/Generated/HeadSmMethod.lean     `Generated.Heads.smMethod`    — the statements after it up to and
        including the pivot `if isinstance(sys, xferfcn.TransferFunction):` (SISO check, `method` resolution,
        choice of the polynomial builders), `Generated.Heads.smHead` (their composition)
  lean/CtrlVerif/Generated/HeadSmLikely.lean     `Generated.Heads.likelyNumericalInaccuracy` — `_likely_numerical_inaccuracy`

from the source text of the tree under check; `Props/C12GenHead.lean` proves the hand-written model
`Model/MarginsHead.lean` EQUAL to them.  The meaning of the emitted primitives is fixed in `Model/PyHeads.lean`
(trusted).  Reuses `Unsupported` (py2lean.py) and the statement translator of py2lean_arith.py (for
`_likely_numerical_inaccuracy`); no existing translator is edited.

Value model (see `Model/PyHeads.lean`): `sysdata` is a `SysData` (frd | tf | seq of 1-D float arrays | iterable
without len | other); every `isinstance(sysdata, C)` / `getattr(sysdata, '__iter__', False)` test is decided by
the translator per constructor (one `match` arm each), `len(sysdata) == 3` is a run-time test on a sequence and
raises `TypeError` on an iterable without `len`; the local `sys` is a transfer function or an FRD, its class is
tracked statically (continuation-passing translation: the rest of the function is translated inside each branch
of an `if`, so a re-binding of `sys` to an FRD in one branch only is followed exactly).  Objects are abstract; the
calls `frdata.FRD(…, smooth=…)`, `xferfcn._convert_to_transfer_function`, `issiso`, `sys.isctime()`, `sys.dt`,
`freqplot._default_frequency_range`, `_likely_numerical_inaccuracy` are fields of `PyHeads.Env` (the
likely-numerical-inaccuracy switch is a PARAMETER).  The arrays the caller hands in (`mag, phase, omega =
sysdata`) are tracked: `x = e` re-binds the local name, `x op= e` changes the caller's array; the generated
dispatch returns the caller's `sysdata` as it is after the call next to its result.

Supported subset (anything else raises `Unsupported` = failed translation = a definition that cannot equal the
model):
  statements  docstring, `x = e`, `a, b, c = sysdata`, `x op= e` on a float array (in place), `if/elif/else`,
              `try: … except Exception [as e]: [print(e)] raise ValueError(…)` (only as the dispatch statement),
              `raise ValueError(…) / ControlMIMONotImplemented(…) / TypeError(…)`, `warn("…", …)` (no effect on the
              result), the pivot `if isinstance(sys, xferfcn.TransferFunction): if <test>: … _poly_iw(sys) … else: …
              _poly_z_invz(sys) … else: …`
  tests       `isinstance(x, frdata.FRD | xferfcn.TransferFunction)`, `getattr(sysdata, '__iter__', False)`,
              `len(sysdata) == n`, `issiso(sys)`, `sys.isctime()`, `_likely_numerical_inaccuracy(sys)`,
              `method == '…'`, `method != '…'`, `not`, `and`, `or`
  expressions names, float / int literals, `math.pi`, `np.pi`, `1j * a`, `a * s`, `a / s`, `s / s`, `np.exp(<imaginary
              array>)`, `<float array> * <complex array>`, `a[a < s]`, `sys.dt`, the `Env` calls above
"""
import ast
import hashlib
import os
from fractions import Fraction

from core.py2lean import Unsupported
from core import py2lean_arith
from core.py2lean_arith import _ind, _do, _paren

GEN_NS = "CtrlVerif.Generated.Heads"

# static types of the mini language
TF, FRD, ARR, IARR, CARR, KK, STR = "TF", "FRD", "ARR", "IARR", "CARR", "K", "Str"
LEAN_TY = {TF: "TF", FRD: "FRD", ARR: "List K", IARR: "List K", CARR: "List (Cx K)", KK: "K", STR: "String"}
SD_KINDS = ("frd", "tf", "seq", "iterNoLen", "other")
BUILDERS = {"_poly_iw": "iw", "_poly_z_invz": "zinvz"}
EXC = {"ValueError": "badArg", "ControlMIMONotImplemented": "notImplemented", "TypeError": "notImplemented"}
BINDERS = ("{K TF FRD Oth : Type} [Field K] [LinearOrder K] (E : PyHeads.Env K TF FRD Oth) "
           "(P : PyMarg.Prims K)")


class V:
    def __init__(self, code, ty, slot=None, kind=None):
        self.code, self.ty, self.slot, self.kind = code, ty, slot, kind


class HeadTr:
    """continuation-passing translator of the head of `stability_margins`"""

    def __init__(self, module, fn):
        self.module, self.fn = module, fn
        self.ntmp = 0
        self.names = {n.id for n in ast.walk(fn) if isinstance(n, ast.Name)} | {a.arg for a in fn.args.args}

    # ---- module-level bindings ----------------------------------------------------------------------------
    def _bound_by(self, name):
        out = []
        for node in self.module.body:
            if isinstance(node, ast.ImportFrom):
                for a in node.names:
                    if (a.asname or a.name) == name:
                        out.append(("from", node.module, node.level, a.name))
            elif isinstance(node, ast.Import):
                for a in node.names:
                    if (a.asname or a.name.split(".")[0]) == name:
                        out.append(("import", a.name, 0, a.asname))
            elif isinstance(node, (ast.FunctionDef, ast.ClassDef)) and node.name == name:
                out.append(("def", None, 0, name))
            elif isinstance(node, ast.Assign):
                for t in node.targets:
                    for sub in ast.walk(t):
                        if isinstance(sub, ast.Name) and sub.id == name:
                            out.append(("assign", None, 0, name))
        return out

    def is_sibling(self, alias, real):
        """`alias` is the sibling module `real` (`from . import real`)"""
        return self._bound_by(alias) == [("from", None, 1, real)] and alias not in self.locals

    def is_module(self, alias, real):
        b = self._bound_by(alias)
        return len(b) == 1 and b[0][0] == "import" and b[0][1] == real and alias not in self.locals

    def is_from(self, name, module, level):
        b = self._bound_by(name)
        return len(b) == 1 and b[0][0] == "from" and b[0][1] == module and b[0][2] == level \
            and b[0][3] == name and name not in self.locals

    def is_local_def(self, name):
        return self._bound_by(name) == [("def", None, 0, name)] and name not in self.locals

    def fresh(self):
        self.ntmp += 1
        nm = "t%d" % self.ntmp
        if nm in self.names:
            raise Unsupported("the name %s is reserved for temporaries" % nm)
        return nm

    # ---- classes ------------------------------------------------------------------------------------------
    def class_of(self, node):
        s = ast.unparse(node)
        if isinstance(node, ast.Attribute) and isinstance(node.value, ast.Name):
            if node.attr in ("FRD", "FrequencyResponseData") and self.is_sibling(node.value.id, "frdata"):
                return FRD
            if node.attr == "TransferFunction" and self.is_sibling(node.value.id, "xferfcn"):
                return TF
        raise Unsupported("class %s" % s[:60])

    # ---- expressions --------------------------------------------------------------------------------------
    def const(self, v):
        if type(v) is int:
            return V("(%d : K)" % v, KK)
        if type(v) is float:
            q = Fraction(repr(v))
            if q.denominator == 1:
                return V("(%d : K)" % q.numerator, KK)
            return V("(PyHeads.decimal %s %d : K)" % (
                str(q.numerator) if q.numerator >= 0 else "(%d)" % q.numerator, q.denominator), KK)
        raise Unsupported("constant %r" % (v,))

    def expr(self, node, env, binds):
        if isinstance(node, ast.Constant):
            if type(node.value) is complex and node.value == 1j:
                return V("", "J")
            return self.const(node.value)
        if isinstance(node, ast.Name):
            v = env.get(node.id)
            if v is None:
                raise Unsupported("variable %s may be unbound here" % node.id)
            if v.ty == "SD":
                if v.kind == "tf":
                    return V(v.code, TF)
                if v.kind == "frd":
                    return V(v.code, FRD)
                raise Unsupported("use of %s as a value" % node.id)
            return v
        if isinstance(node, ast.Attribute) and isinstance(node.value, ast.Name):
            if node.attr == "pi" and (self.is_module(node.value.id, "math") or self.is_module(node.value.id, "numpy")):
                return V("P.pi", KK)
            o = env.get(node.value.id)
            if o is not None and o.ty == TF and node.attr == "dt":
                return V("(E.dt %s)" % o.code, KK)
            raise Unsupported("attribute %s" % ast.unparse(node)[:60])
        if isinstance(node, ast.BinOp) and isinstance(node.op, (ast.Mult, ast.Div)):
            a = self.expr(node.left, env, binds)
            b = self.expr(node.right, env, binds)
            mul = isinstance(node.op, ast.Mult)
            if mul and a.ty == "J" and b.ty == ARR:
                return V(b.code, IARR)
            if mul and a.ty == ARR and b.ty == "J":
                return V(a.code, IARR)
            if a.ty in (ARR, IARR) and b.ty == KK:
                if mul:
                    return V("(List.map (fun x => x * %s) %s)" % (b.code, a.code), a.ty)
                return V("(List.map (fun x => x / %s) %s)" % (b.code, a.code), a.ty)
            if mul and a.ty == KK and b.ty in (ARR, IARR):
                return V("(List.map (fun x => %s * x) %s)" % (a.code, b.code), b.ty)
            if a.ty == KK and b.ty == KK:
                if mul:
                    return V("(%s * %s)" % (a.code, b.code), KK)
                if isinstance(node.right, ast.Constant) and node.right.value != 0:
                    return V("(%s / %s)" % (a.code, b.code), KK)
                t = self.fresh()
                binds.append("let %s ← PyArith.div %s %s" % (t, a.code, b.code))
                return V(t, KK)
            if mul and a.ty == ARR and b.ty == CARR:
                t = self.fresh()
                binds.append("let %s ← PyMarg.zipB PyHeads.rmulc %s %s" % (t, a.code, b.code))
                return V(t, CARR)
            if mul and a.ty == CARR and b.ty == ARR:
                t = self.fresh()
                binds.append("let %s ← PyMarg.zipB (fun z m => PyHeads.rmulc m z) %s %s" % (t, a.code, b.code))
                return V(t, CARR)
            raise Unsupported("%s of %s and %s" % ("product" if mul else "quotient", a.ty, b.ty))
        if isinstance(node, ast.Subscript) and isinstance(node.slice, ast.Compare):
            a = self.expr(node.value, env, binds)
            c = node.slice
            if a.ty != ARR or len(c.ops) != 1:
                raise Unsupported("indexing %s" % ast.unparse(node)[:60])
            l = self.expr(c.left, env, binds)
            r = self.expr(c.comparators[0], env, binds)
            ops = {ast.Lt: "<", ast.LtE: "≤", ast.Gt: ">", ast.GtE: "≥"}
            if type(c.ops[0]) not in ops or l.ty != ARR or r.ty != KK:
                raise Unsupported("mask %s" % ast.unparse(c)[:60])
            t = self.fresh()
            binds.append("let %s ← PyMarg.mask %s (List.map (fun x => decide (x %s %s)) %s)" % (
                t, a.code, ops[type(c.ops[0])], r.code, l.code))
            return V(t, ARR)
        if isinstance(node, ast.Call):
            return self.call(node, env, binds)
        raise Unsupported("expression %s" % ast.unparse(node)[:80])

    def kw_bool(self, node, allowed):
        kws = {}
        for k in node.keywords:
            if k.arg not in allowed or not isinstance(k.value, ast.Constant) or type(k.value.value) is not bool:
                raise Unsupported("keyword %s in %s" % (k.arg, ast.unparse(node)[:60]))
            kws[k.arg] = k.value.value
        return kws

    def call(self, node, env, binds):
        f = node.func
        fs = ast.unparse(f)
        if isinstance(f, ast.Attribute) and isinstance(f.value, ast.Name):
            mod, attr = f.value.id, f.attr
            if attr == "exp" and self.is_module(mod, "numpy") and len(node.args) == 1 and not node.keywords:
                a = self.expr(node.args[0], env, binds)
                if a.ty != IARR:
                    raise Unsupported("np.exp of a %s" % a.ty)
                return V("(List.map P.expj %s)" % a.code, CARR)
            if attr in ("FRD", "FrequencyResponseData") and self.is_sibling(mod, "frdata"):
                smooth = "true" if self.kw_bool(node, ("smooth",)).get("smooth", False) else "false"
                args = [self.expr(a, env, binds) for a in node.args]
                tys = [a.ty for a in args]
                if tys == [FRD]:
                    return V("(E.frdCopy %s %s)" % (args[0].code, smooth), FRD)
                if tys == [CARR, ARR]:
                    t = self.fresh()
                    binds.append("let %s ← E.frdOfData %s %s %s" % (t, args[0].code, args[1].code, smooth))
                    return V(t, FRD)
                if tys == [TF, ARR]:
                    return V("(E.frdOfTF %s %s %s)" % (args[0].code, args[1].code, smooth), FRD)
                raise Unsupported("%s on %s" % (fs, tys))
            if attr == "_convert_to_transfer_function" and self.is_sibling(mod, "xferfcn") \
                    and len(node.args) == 1 and not node.keywords and isinstance(node.args[0], ast.Name):
                o = env.get(node.args[0].id)
                if o is not None and o.ty == "SD" and o.kind in ("seq", "iterNoLen", "other"):
                    t = self.fresh()
                    binds.append("let %s ← E.%s %s" % (t, "convertSeq" if o.kind == "seq" else "convertOther", o.code))
                    return V(t, TF)
                raise Unsupported("%s on %s" % (fs, ast.unparse(node.args[0])))
            if attr == "_default_frequency_range" and self.is_sibling(mod, "freqplot") \
                    and len(node.args) == 1 and not node.keywords:
                a = self.expr(node.args[0], env, binds)
                if a.ty != TF:
                    raise Unsupported("%s on %s" % (fs, a.ty))
                return V("(E.defaultRange %s)" % a.code, ARR)
        raise Unsupported("call %s" % ast.unparse(node)[:60])

    # ---- tests: ("static", bool) | ("dyn", lean Prop) -----------------------------------------------------
    def test(self, node, env, binds):
        if isinstance(node, ast.UnaryOp) and isinstance(node.op, ast.Not):
            k, v = self.test(node.operand, env, binds)
            if k == "raises":
                return (k, v)
            return (k, (not v) if k == "static" else "(¬ %s)" % v)
        if isinstance(node, ast.BoolOp):
            is_and = isinstance(node.op, ast.And)
            dyn = []
            for i, x in enumerate(node.values):
                b = []
                k, v = self.test(x, env, b)
                if b and dyn:
                    raise Unsupported("an operand of and/or that can fail after a run-time test: %s" % ast.unparse(x)[:60])
                binds += b
                if k == "raises":
                    if dyn:
                        raise Unsupported("a test that raises after a run-time test")
                    return (k, v)
                if k == "static":
                    if v != is_and:              # short circuit: decides the result (run-time tests are pure)
                        return ("static", v)
                    continue
                dyn.append(v)
            if not dyn:
                return ("static", is_and)
            return ("dyn", "(" + (" ∧ " if is_and else " ∨ ").join(dyn) + ")" if len(dyn) > 1 else dyn[0])
        if isinstance(node, ast.Call) and isinstance(node.func, ast.Name):
            nm = node.func.id
            if nm == "isinstance" and len(node.args) == 2 and not node.keywords and isinstance(node.args[0], ast.Name) \
                    and nm not in self.locals:
                cls = self.class_of(node.args[1])
                o = env.get(node.args[0].id)
                if o is None:
                    raise Unsupported("isinstance of the unbound %s" % node.args[0].id)
                if o.ty == "SD":
                    return ("static", {FRD: "frd", TF: "tf"}[cls] == o.kind)
                if o.ty in (TF, FRD):
                    return ("static", o.ty == cls)
                raise Unsupported("isinstance of a %s" % o.ty)
            if nm == "getattr" and len(node.args) == 3 and not node.keywords and nm not in self.locals \
                    and isinstance(node.args[0], ast.Name) \
                    and isinstance(node.args[1], ast.Constant) and node.args[1].value == "__iter__" \
                    and isinstance(node.args[2], ast.Constant) and node.args[2].value is False:
                o = env.get(node.args[0].id)
                if o is None or o.ty != "SD":
                    raise Unsupported("getattr on %s" % node.args[0].id)
                # an FRD object is iterable as well, a TransferFunction / anything in `other` is not
                return ("static", o.kind in ("seq", "iterNoLen", "frd"))
            if nm == "issiso" and len(node.args) == 1 and not node.keywords and self.is_from("issiso", "iosys", 1):
                a = self.expr(node.args[0], env, binds)
                if a.ty not in (TF, FRD):
                    raise Unsupported("issiso of a %s" % a.ty)
                return ("dyn", "(E.issiso%s %s = true)" % (a.ty, a.code))
            if nm == "_likely_numerical_inaccuracy" and len(node.args) == 1 and not node.keywords \
                    and self.is_local_def(nm):
                a = self.expr(node.args[0], env, binds)
                if a.ty != TF:
                    raise Unsupported("%s of a %s" % (nm, a.ty))
                t = self.fresh()
                binds.append("let %s ← E.likely %s" % (t, a.code))
                return ("dyn", "(%s = true)" % t)
        if isinstance(node, ast.Call) and isinstance(node.func, ast.Attribute) and node.func.attr == "isctime" \
                and not node.args and not node.keywords:
            a = self.expr(node.func.value, env, binds)
            if a.ty != TF:
                raise Unsupported("isctime of a %s" % a.ty)
            return ("dyn", "(E.isctime %s = true)" % a.code)
        if isinstance(node, ast.Compare) and len(node.ops) == 1 and isinstance(node.ops[0], (ast.Eq, ast.NotEq)):
            l, r = node.left, node.comparators[0]
            eq = isinstance(node.ops[0], ast.Eq)
            if isinstance(l, ast.Constant) and not isinstance(r, ast.Constant):
                l, r = r, l
            if isinstance(r, ast.Constant) and isinstance(r.value, str) and isinstance(l, ast.Name):
                v = env.get(l.id)
                if v is None or v.ty != STR:
                    raise Unsupported("comparison of %s with a string" % l.id)
                return ("dyn", "(%s %s \"%s\")" % (v.code, "=" if eq else "≠", r.value.replace('"', '\\"')))
            if isinstance(r, ast.Constant) and type(r.value) is int and isinstance(l, ast.Call) \
                    and isinstance(l.func, ast.Name) and l.func.id == "len" and "len" not in self.locals \
                    and len(l.args) == 1 and not l.keywords and isinstance(l.args[0], ast.Name):
                o = env.get(l.args[0].id)
                if o is None or o.ty != "SD":
                    raise Unsupported("len of %s" % l.args[0].id)
                if o.kind == "seq":
                    return ("dyn", "(List.length %s %s %d)" % (o.code, "=" if eq else "≠", r.value))
                if o.kind == "iterNoLen":
                    return ("raises", "notImplemented")       # len() of an object without __len__: TypeError
                raise Unsupported("len of a %s object" % o.kind)
        raise Unsupported("test %s" % ast.unparse(node)[:80])

    # ---- statements ---------------------------------------------------------------------------------------
    @staticmethod
    def is_doc(s):
        return isinstance(s, ast.Expr) and isinstance(s.value, ast.Constant) and isinstance(s.value.value, str)

    def raise_stmt(self, s):
        e = s.exc
        if isinstance(e, ast.Call) and isinstance(e.func, ast.Name) and e.func.id in EXC and s.cause is None \
                and e.func.id not in self.locals:
            if e.func.id == "ControlMIMONotImplemented" and not self.is_from(e.func.id, "exception", 1):
                raise Unsupported("ControlMIMONotImplemented is not the class of .exception")
            return "(.error Err.%s)" % EXC[e.func.id]
        raise Unsupported("raise %s" % ast.unparse(s)[:60])

    def block(self, stmts, env, cont):
        """statements followed by `cont(env) -> [items]`; the list of `do` items (the last one is the value)"""
        env = dict(env)
        stmts = [s for s in stmts if not self.is_doc(s) and not isinstance(s, ast.Pass)]
        items = []
        for idx, s in enumerate(stmts):
            rest = stmts[idx + 1:]
            binds = []
            if isinstance(s, ast.Assign):
                if len(s.targets) != 1:
                    raise Unsupported("multiple assignment targets")
                tg = s.targets[0]
                if isinstance(tg, ast.Tuple):
                    if not (all(isinstance(x, ast.Name) for x in tg.elts) and len(tg.elts) == 3
                            and isinstance(s.value, ast.Name)):
                        raise Unsupported("unpacking %s" % ast.unparse(s)[:60])
                    o = env.get(s.value.id)
                    if o is None or o.ty != "SD" or o.kind != "seq" or "__caller__slots" in env:
                        raise Unsupported("unpacking of %s" % s.value.id)
                    if len({x.id for x in tg.elts}) != 3:
                        raise Unsupported("repeated unpacking target")
                    t = self.fresh()
                    items.append("let %s ← PyHeads.unpack3 %s" % (t, o.code))
                    slots = ["c0", "c1", "c2"]
                    for sl in slots:
                        if sl in self.names:
                            raise Unsupported("the name %s is reserved" % sl)
                    for i, (sl, x) in enumerate(zip(slots, tg.elts)):
                        items.append("let %s : List K := %s" % (sl, ["%s.1", "%s.2.1", "%s.2.2"][i] % t))
                    for sl, x in zip(slots, tg.elts):
                        items.append("let %s : List K := %s" % (x.id, sl))
                        env[x.id] = V(x.id, ARR, slot=sl)
                    env["__caller__slots"] = slots
                    env["__caller__"] = V("(PyHeads.SysData.seq [c0, c1, c2])", "CALLER")
                    continue
                if not isinstance(tg, ast.Name):
                    raise Unsupported("assignment target %s" % ast.unparse(tg)[:60])
                if tg.id in self.params:
                    raise Unsupported("re-binding of the parameter %s" % tg.id)
                v = self.expr(s.value, env, binds)
                if v.ty not in LEAN_TY:
                    raise Unsupported("assignment of a %s" % v.ty)
                items += binds
                items.append("let %s : %s := %s" % (tg.id, LEAN_TY[v.ty], v.code))
                # a plain assignment of a caller-owned array makes an alias
                env[tg.id] = V(tg.id, v.ty, slot=v.slot if isinstance(s.value, ast.Name) else None)
                continue
            if isinstance(s, ast.AugAssign):
                if not isinstance(s.target, ast.Name):
                    raise Unsupported("augmented assignment to %s" % ast.unparse(s.target)[:60])
                cur = env.get(s.target.id)
                if cur is None or cur.ty != ARR:
                    raise Unsupported("augmented assignment to %s" % s.target.id)
                v = self.expr(ast.BinOp(left=ast.Name(id=s.target.id, ctx=ast.Load()), op=s.op, right=s.value),
                              env, binds)
                if v.ty != ARR:
                    raise Unsupported("in-place operation giving a %s" % v.ty)
                items += binds
                # NumPy: in place — every name bound to the same array sees the new value, and so does the caller
                for nm, w in list(env.items()):
                    if isinstance(w, V) and w.ty == ARR and (nm == s.target.id or (cur.slot and w.slot == cur.slot)):
                        items.append("let %s : List K := %s" % (nm, v.code if nm == s.target.id else s.target.id))
                if cur.slot:
                    items.append("let %s : List K := %s" % (cur.slot, s.target.id))
                continue
            if isinstance(s, ast.Expr) and isinstance(s.value, ast.Call) and isinstance(s.value.func, ast.Name) \
                    and s.value.func.id == "warn" and self.is_from("warn", "warnings", 0):
                a = s.value.args
                if not (a and isinstance(a[0], ast.Constant) and isinstance(a[0].value, str)):
                    raise Unsupported("warn(%s)" % ast.unparse(s.value)[:40])
                continue
            if isinstance(s, ast.Raise):
                if rest:
                    raise Unsupported("code after raise")
                return items + [self.raise_stmt(s)]
            if isinstance(s, ast.If):
                k, v = self.test(s.test, env, binds)
                items += binds
                def after(env2, rest=rest):
                    return self.block(rest, env2, cont)
                if k == "raises":
                    return items + ["(.error Err.%s)" % v]
                if k == "static":
                    return items + self.block(s.body if v else s.orelse, env, after)
                a = self.block(s.body, env, after)
                b = self.block(s.orelse, env, after)
                return items + ["(if %s then\n%s\nelse\n%s)" % (v, _ind(_do(a), 4), _ind(_do(b), 4))]
            raise Unsupported("statement %s" % ast.unparse(s)[:60])
        return items + cont(env)

    # ---- piece 1: the dispatch statement -----------------------------------------------------------------
    def dispatch(self, trystmt, sysdata, sysname):
        if not (isinstance(trystmt, ast.Try) and len(trystmt.handlers) == 1 and not trystmt.orelse
                and not trystmt.finalbody):
            raise Unsupported("the dispatch is not one try / except statement")
        h = trystmt.handlers[0]
        if not (isinstance(h.type, ast.Name) and h.type.id == "Exception" and "Exception" not in self.locals):
            raise Unsupported("handler %s" % ast.unparse(h.type or ast.Constant(None)))
        hb = [s for s in h.body if not (isinstance(s, ast.Expr) and isinstance(s.value, ast.Call)
                                        and isinstance(s.value.func, ast.Name) and s.value.func.id == "print")]
        if len(hb) != 1 or not isinstance(hb[0], ast.Raise):
            raise Unsupported("handler body")
        handler = self.raise_stmt(hb[0])
        arms = []
        for kind in SD_KINDS:
            payload = {"frd": "f", "tf": "g", "seq": "items", "iterNoLen": "o", "other": "o"}[kind] + "0"
            if payload in self.names:
                raise Unsupported("the name %s is reserved" % payload)
            env = {sysdata: V(payload, "SD", kind=kind),
                   "__caller__": V("(PyHeads.SysData.%s %s)" % (kind, payload), "CALLER")}

            def cont(env):
                v = env.get(sysname)
                if v is None or v.ty not in (TF, FRD):
                    raise Unsupported("%s is not bound to a system on every path of the dispatch" % sysname)
                return ["pure (PyHeads.Sys.%s %s, %s)" % ("tf" if v.ty == TF else "frd", v.code,
                                                          env["__caller__"].code)]
            body = self.block(trystmt.body, env, cont)
            arms.append("| .%s %s =>\n    PyHeads.tryExcept\n%s\n      %s" % (kind, payload, _ind(_do(body), 6), handler))
        return "match %s with\n" % sysdata + "\n".join(arms)

    # ---- piece 2: SISO check, method resolution, pivot ----------------------------------------------------
    def builder_in(self, stmts, sysname):
        found = set()
        for s in stmts:
            for sub in ast.walk(s):
                if isinstance(sub, ast.Call) and isinstance(sub.func, ast.Name) and sub.func.id in BUILDERS:
                    if not (len(sub.args) == 1 and isinstance(sub.args[0], ast.Name) and sub.args[0].id == sysname
                            and not sub.keywords and self.is_local_def(sub.func.id)):
                        raise Unsupported("builder call %s" % ast.unparse(sub)[:60])
                    found.add(sub.func.id)
        return found

    def first_builder(self, stmts, sysname):
        """the builder the branch calls in its FIRST statement (the branch must call exactly one builder)"""
        stmts = [s for s in stmts if not self.is_doc(s)]
        found = self.builder_in(stmts, sysname)
        if len(found) != 1 or not stmts or self.builder_in(stmts[:1], sysname) != found:
            raise Unsupported("the branch does not start with the call of exactly one of _poly_iw / _poly_z_invz")
        if any(isinstance(sub, ast.Name) and isinstance(sub.ctx, ast.Store) and sub.id == sysname
               for s in stmts for sub in ast.walk(s)):
            raise Unsupported("%s is re-bound inside the polynomial branch" % sysname)
        return BUILDERS[found.pop()]

    def pivot(self, s, env, sysname):
        binds = []
        k, v = self.test(s.test, env, binds)
        if k != "static" or binds:
            raise Unsupported("the pivot test is not an isinstance test of %s" % sysname)
        sv = env[sysname]
        if v:
            body = [x for x in s.body if not self.is_doc(x)]
            if not body or not isinstance(body[0], ast.If):
                raise Unsupported("the transfer-function branch does not start with the time-domain test")
            inner = body[0]
            kk, vv = self.test(inner.test, env, binds)
            if kk != "dyn" or binds:
                raise Unsupported("time-domain test %s" % ast.unparse(inner.test)[:60])
            if self.builder_in(body[1:], sysname):
                raise Unsupported("builder call after the time-domain branches")
            b1 = self.first_builder(inner.body, sysname)
            b2 = self.first_builder(inner.orelse, sysname)
            return ["(if %s then\n    pure (PyHeads.Route.poly PyHeads.Builders.%s %s)\n  else\n"
                    "    pure (PyHeads.Route.poly PyHeads.Builders.%s %s))" % (vv, b1, sv.code, b2, sv.code)]
        if not s.orelse or self.builder_in(s.orelse, sysname):
            raise Unsupported("the frequency-data branch of the pivot")
        return ["pure (PyHeads.Route.frd %s)" % sv.code]

    def method_piece(self, stmts, pivot, sysname, method):
        arms = []
        for ty, ctor in ((TF, "tf"), (FRD, "frd")):
            payload = sysname + "0"
            if payload in self.names:
                raise Unsupported("the name %s is reserved" % payload)
            env = {sysname: V(payload, ty), method: V(method, STR)}
            body = self.block(stmts, env, lambda env: self.pivot(pivot, env, sysname))
            arms.append("| .%s %s =>\n%s" % (ctor, payload, _ind(_do(body), 4)))
        return "match %s with\n" % sysname + "\n".join(arms)


def _find_fn(module, name):
    found = [n for n in module.body if isinstance(n, ast.FunctionDef) and n.name == name]
    if len(found) != 1:
        raise Unsupported("%d definitions of %s" % (len(found), name))
    if found[0].decorator_list:
        raise Unsupported("decorated function")
    return found[0]


def _sm_parts(repo):
    path = os.path.join(repo, "control/margins.py")
    src = open(path).read()
    module = ast.parse(src)
    fn = _find_fn(module, "stability_margins")
    a = fn.args
    if a.vararg or a.kwarg or a.kwonlyargs or a.posonlyargs:
        raise Unsupported("signature")
    got = [x.arg for x in a.args]
    if len(got) != 4:
        raise Unsupported("parameters %s" % got)
    defaults = [ast.unparse(d) for d in a.defaults]
    if defaults != ["False", "0.0", "'best'"]:
        raise Unsupported("default values %s, expected returnall=False, epsw=0.0, method='best'" % defaults)
    sysdata, method = got[0], got[3]
    tr = HeadTr(module, fn)
    tr.params = set(got)
    if tr.names & {"E", "P", "K", "TF", "FRD", "Oth", "Err", "norm"}:
        raise Unsupported("a variable clashes with a reserved name")
    body = [s for s in fn.body if not tr.is_doc(s)]
    if not body or not isinstance(body[0], ast.Try):
        raise Unsupported("the function does not start with the dispatch try statement")
    # the pivot: the unique direct child `if isinstance(<sys>, xferfcn.TransferFunction): ... else: ...`
    pivots = [i for i, s in enumerate(body) if isinstance(s, ast.If) and isinstance(s.test, ast.Call)
              and isinstance(s.test.func, ast.Name) and s.test.func.id == "isinstance" and s.orelse
              and len(s.test.args) == 2 and isinstance(s.test.args[0], ast.Name)]
    if len(pivots) != 1:
        raise Unsupported("%d candidates for the pivot `if isinstance(sys, TransferFunction)`" % len(pivots))
    pv = pivots[0]
    sysname = body[pv].test.args[0].id
    # local names = everything assigned in the translated part (they shadow module-level names)
    tr.locals = set(got)
    for s in body[:pv + 1]:
        for sub in ast.walk(s):
            if isinstance(sub, ast.Name) and isinstance(sub.ctx, ast.Store):
                tr.locals.add(sub.id)
            elif isinstance(sub, ast.ExceptHandler) and sub.name:
                tr.locals.add(sub.name)
    return src, module, fn, tr, body, pv, sysdata, method, sysname


def _seg_sha(src, nodes):
    text = "\n".join(ast.get_source_segment(src, n) or "" for n in nodes)
    return hashlib.sha256(text.encode()).hexdigest()


SIG_DISPATCH = ("def smDispatch %s (sysdata : PyHeads.SysData K TF FRD Oth) :\n"
                "    Except Err (PyHeads.Sys TF FRD × PyHeads.SysData K TF FRD Oth) :=\n" % BINDERS)
SIG_METHOD = ("def smMethod %s (sys : PyHeads.Sys TF FRD) (method : String) :\n"
              "    Except Err (PyHeads.Route TF FRD) :=\n" % BINDERS)
SIG_HEAD = ("def smHead %s (sysdata : PyHeads.SysData K TF FRD Oth) (method : String) :\n"
            "    Except Err (PyHeads.Route TF FRD × PyHeads.SysData K TF FRD Oth) :=\n" % BINDERS)
HEAD_BODY = ("  (do\n    let r ← smDispatch E P sysdata\n    let route ← smMethod E P r.1 method\n"
             "    pure (route, r.2))\n")
SIG_DEFAULT = "def smDefaultMethod : String :=\n"


def translate_dispatch(repo):
    src, module, fn, tr, body, pv, sysdata, method, sysname = _sm_parts(repo)
    code = tr.dispatch(body[0], sysdata, sysname).replace("match %s with" % sysdata, "match sysdata with")
    sha = _seg_sha(src, [body[0]])
    lean = ("/-- the dispatch statement (`try: … except Exception …`) of `control/margins.py:stability_margins` as the\n"
            "source text says it (sha256 of its text %s): the value of `%s` and the caller's `%s` after it. -/\n%s%s\n"
            % (sha, sysname, sysdata, SIG_DISPATCH, _ind(code, 2)))
    return lean, {"sha": sha, "temporaries": tr.ntmp}


def translate_method(repo):
    src, module, fn, tr, body, pv, sysdata, method, sysname = _sm_parts(repo)
    code = tr.method_piece(body[1:pv], body[pv], sysname, method)
    code = code.replace("match %s with" % sysname, "match sys with")
    if method != "method":
        code = "let %s : String := method\n" % method + code
        code = "(" + code + ")"
    sha = _seg_sha(src, body[1:pv] + [body[pv].test])
    d = fn.args.defaults[-1]
    lean = ("/-- the statements of `control/margins.py:stability_margins` between the dispatch and the polynomial builders\n"
            "(SISO check, `method` resolution, pivot `isinstance` test, time-domain test; sha256 of their text\n%s). -/\n%s%s\n\n"
            "/-- the default value of `method` in the signature -/\n%s  %s\n\n"
            "/-- the head of `stability_margins`: dispatch, then method resolution -/\n%s%s"
            % (sha, SIG_METHOD, _ind(code, 2), SIG_DEFAULT, '"%s"' % d.value, SIG_HEAD, HEAD_BODY))
    return lean, {"sha": sha, "temporaries": tr.ntmp}


def failed_dispatch(msg):
    return "/-- translation FAILED: %s -/\n%s  .error Err.notImplemented\n" % (msg, SIG_DISPATCH)


def failed_method(msg):
    return ("/-- translation FAILED: %s -/\n%s  .error Err.notImplemented\n\n%s  \"\"\n\n%s%s"
            % (msg, SIG_METHOD, SIG_DEFAULT, SIG_HEAD, HEAD_BODY))


# ---- `_likely_numerical_inaccuracy`: the statement translator of py2lean_arith with three additions -----------

class LikelyTr(py2lean_arith.Translator):
    """py2lean_arith's translator + decimal float literals (read as the exact decimal value) +
    `np.linalg.norm(p)` (parameter `norm`)"""

    def expr(self, node, env, binds):
        if isinstance(node, ast.Constant) and type(node.value) is float:
            q = Fraction(repr(node.value))
            if q.denominator != 1:
                return py2lean_arith.Val("(PyHeads.decimal %s %d : K)" % (
                    str(q.numerator) if q.numerator >= 0 else "(%d)" % q.numerator, q.denominator), py2lean_arith.K)
        return super().expr(node, env, binds)

    def call(self, node, env, binds):
        f = node.func
        if isinstance(f, ast.Attribute) and f.attr == "norm" and isinstance(f.value, ast.Attribute) \
                and f.value.attr == "linalg" and isinstance(f.value.value, ast.Name) \
                and f.value.value.id not in env and self.check_numpy(f.value.value.id) \
                and len(node.args) == 1 and not node.keywords:
            a = self.expr(node.args[0], env, binds)
            a = self.cast(a, py2lean_arith.LISTK)
            return py2lean_arith.Val("(norm %s)" % a.code, py2lean_arith.K)
        return super().call(node, env, binds)


SIG_LIKELY = ("def likelyNumericalInaccuracy {K : Type} [Field K] [LinearOrder K] (norm : List K → K) "
              "(num0 : List K) (den0 : List K) (dt0 : K) :\n    Except Err Bool :=\n")


def translate_likely(repo):
    path = os.path.join(repo, "control/margins.py")
    src = open(path).read()
    module = ast.parse(src)
    fn = _find_fn(module, "_likely_numerical_inaccuracy")
    a = fn.args
    if a.vararg or a.kwarg or a.kwonlyargs or a.posonlyargs or a.defaults or len(a.args) != 1:
        raise Unsupported("signature")
    sysname = a.args[0].arg
    job = dict(np_prims=py2lean_arith.NP_POLY, exc={}, ret=[])
    tr = LikelyTr(job, module)
    tr.names = {n.id for n in ast.walk(fn) if isinstance(n, ast.Name)} | {sysname, "norm", "num0", "den0", "dt0", "zargs"}
    body = [s for s in fn.body if not tr.is_doc(s)]
    # first statement: `a, b, c, d, e, f = _poly_z_invz(sys)`
    s0 = body[0] if body else None
    if not (isinstance(s0, ast.Assign) and len(s0.targets) == 1 and isinstance(s0.targets[0], ast.Tuple)
            and len(s0.targets[0].elts) == 6 and all(isinstance(x, ast.Name) for x in s0.targets[0].elts)
            and isinstance(s0.value, ast.Call) and isinstance(s0.value.func, ast.Name)
            and s0.value.func.id == "_poly_z_invz" and len(s0.value.args) == 1 and not s0.value.keywords
            and isinstance(s0.value.args[0], ast.Name) and s0.value.args[0].id == sysname
            and tr.check_local_function("_poly_z_invz")):
        raise Unsupported("the function does not start with `... = _poly_z_invz(%s)`" % sysname)
    names = [x.id for x in s0.targets[0].elts]
    if len(set(names)) != 6 or set(names) & {"norm", "num0", "den0", "dt0", "zargs", sysname}:
        raise Unsupported("unpacking targets %s" % names)
    tys = [py2lean_arith.LISTK] * 4 + [py2lean_arith.INT, py2lean_arith.K]
    items = ["let zargs ← polyZInvz num0 den0 dt0"]
    env = {}
    for i, (nm, ty) in enumerate(zip(names, tys)):
        items.append("let %s : %s := zargs%s" % (nm, py2lean_arith.LEAN_TY[ty], "".join(".2" for _ in range(i))
                                               + ("" if i == 5 else ".1")))
        env[nm] = ty
    last = body[-1]
    if not isinstance(last, ast.Return) or last.value is None:
        raise Unsupported("the function does not end with a return")

    def cont(env2):
        binds = []
        v = tr.expr(last.value, env2, binds)
        if v.ty != py2lean_arith.PROP:
            raise Unsupported("the function returns a %s" % v.ty)
        return binds + ["pure (decide %s)" % v.code]
    items += tr.block(body[1:-1], env, cont)
    text = ast.get_source_segment(src, fn)
    sha = hashlib.sha256(text.encode()).hexdigest()
    lean = ("/-- `control/margins.py:_likely_numerical_inaccuracy` as the source text says it (sha256 of the function text\n"
            "%s); `np.linalg.norm` is the parameter `norm`. -/\n%s%s\n" % (sha, SIG_LIKELY, _ind(_do(items), 2)))
    return lean, {"sha": sha, "temporaries": tr.ntmp}


def failed_likely(msg):
    return "/-- translation FAILED: %s -/\n%s  .error Err.notImplemented\n" % (msg, SIG_LIKELY)


JOBS_C12 = [
    ("sm_dispatch", "HeadSmDispatch.lean", ["CtrlVerif.Model.PyHeads"], translate_dispatch, failed_dispatch,
     "control/margins.py:stability_margins (dispatch on sysdata)"),
    ("sm_method", "HeadSmMethod.lean", ["CtrlVerif.Model.PyHeads", "CtrlVerif.Generated.HeadSmDispatch"],
     translate_method, failed_method, "control/margins.py:stability_margins (SISO check, method resolution, builders)"),
    ("sm_likely", "HeadSmLikely.lean", ["CtrlVerif.Model.PyHeads", "CtrlVerif.Generated.PolyZInvz"],
     translate_likely, failed_likely, "control/margins.py:_likely_numerical_inaccuracy"),
]


def _regen(jobs, repo, lean_dir, keys=None):
    problems, info = [], {}
    os.makedirs(os.path.join(lean_dir, "CtrlVerif", "Generated"), exist_ok=True)
    for key, out, imports, translate, failed, where in jobs:
        if keys is not None and key not in keys:
            continue
        try:
            lean, inf = translate(repo)
            info[key] = inf
            head = "-- GENERATED on every run by harness/core/py2lean_heads.py from %s (sha256 %s).  Do not edit.\n" % (
                where, inf["sha"])
        except (Unsupported, SyntaxError, OSError) as e:
            msg = str(e).replace("\n", " ").replace("-/", "- /").replace("/-", "/ -")[:240]
            problems.append("py2lean_heads: %s cannot be translated: %s" % (where, msg))
            head = "-- GENERATED by harness/core/py2lean_heads.py: translation of %s FAILED.  Do not edit.\n" % where
            lean = failed(msg)
        text = (head + "".join("import %s\n" % m for m in imports)
                + "\nnamespace %s\n\nopen CtrlVerif CtrlVerif.Margins CtrlVerif.Generated\n\n" % GEN_NS + lean
                + "\nend %s\n" % GEN_NS)
        path = os.path.join(lean_dir, "CtrlVerif", "Generated", out)
        old = open(path).read() if os.path.exists(path) else None
        if old != text:
            with open(path, "w") as f:
                f.write(text)
    return problems, info


def regenerate(repo, lean_dir, keys=None):
    """C12: rewrite Generated/HeadSm*.lean; returns (list of problems, info dict).  Deterministic, rewritten only
    when changed."""
    return _regen(JOBS_C12, repo, lean_dir, keys)


if __name__ == "__main__":
    import sys
    for key, out, imports, translate, failed, where in JOBS_C12:
        if len(sys.argv) > 2 and key not in sys.argv[2:]:
            continue
        try:
            lean, inf = translate(sys.argv[1])
            print(lean)
            print("--", inf)
        except Unsupported as e:
            print("-- %s FAILED: %s" % (key, e))
