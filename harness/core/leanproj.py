"""Lean side: build, token scan, axiom audit, driver runs.  No property logic here."""
import fcntl
import os
import re
import subprocess
import time
from concurrent.futures import ThreadPoolExecutor

VERIF = os.path.dirname(os.path.dirname(os.path.dirname(os.path.abspath(__file__))))
LEAN = os.path.join(VERIF, "lean")
ALLOWED_AXIOMS = {"propext", "Classical.choice", "Quot.sound"}
FORBIDDEN = re.compile(
    r"\bsorry\b|\badmit\b|^\s*axiom\s|native_decide|bv_decide|implemented_by|\bunsafe\s|maxHeartbeats\s+0")


class InfraError(Exception):
    pass


class _Lock:
    """process-wide re-entrant file lock on the Lean project (regeneration of Generated/*.lean,
    lake build and the axiom audit of one check form one critical section)"""
    depth = 0
    fh = None

    def close(self):
        _Lock.depth -= 1
        if _Lock.depth == 0 and _Lock.fh is not None:
            _Lock.fh.close()
            _Lock.fh = None

    def __enter__(self):
        return self

    def __exit__(self, *a):
        self.close()


def _lock():
    if _Lock.depth == 0:
        os.makedirs(os.path.join(LEAN, ".lake"), exist_ok=True)
        f = open(os.path.join(LEAN, ".lake", "verif.lock"), "w")
        fcntl.flock(f, fcntl.LOCK_EX)
        _Lock.fh = f
    _Lock.depth += 1
    return _Lock()


def locked():
    return _lock()


def lake_build(targets, timeout=3000):
    """Build targets under a file lock.  Returns (ok, output)."""
    lock = _lock()
    try:
        p = subprocess.run(["lake", "build"] + list(targets), cwd=LEAN, text=True,
                           capture_output=True, timeout=timeout)
        return p.returncode == 0, (p.stdout + p.stderr)
    except FileNotFoundError as e:
        raise InfraError("lake not found: %s" % e)
    except subprocess.TimeoutExpired:
        raise InfraError("lake build timed out")
    finally:
        lock.close()


def strip_comments(src):
    # remove /- ... -/ (nested) and -- ... comments
    out = []
    i, depth, n = 0, 0, len(src)
    while i < n:
        if src.startswith("/-", i):
            depth += 1
            i += 2
        elif depth and src.startswith("-/", i):
            depth -= 1
            i += 2
        elif depth:
            if src[i] == "\n":
                out.append("\n")
            i += 1
        elif src.startswith("--", i):
            while i < n and src[i] != "\n":
                i += 1
        else:
            out.append(src[i])
            i += 1
    return "".join(out)


def token_scan():
    """Forbidden tokens anywhere in the Lean library (comments stripped)."""
    hits = []
    for root, _, files in os.walk(os.path.join(LEAN, "CtrlVerif")):
        for fn in files:
            if fn.endswith(".lean"):
                path = os.path.join(root, fn)
                src = strip_comments(open(path).read())
                for ln, line in enumerate(src.split("\n"), 1):
                    if FORBIDDEN.search(line):
                        hits.append("%s:%d: %s" % (os.path.relpath(path, LEAN), ln, line.strip()))
    return hits


DECL = re.compile(r"^\s*(?:@\[[^\]]*\]\s*)?(?:private\s+|protected\s+)?theorem\s+([A-Za-z_][\w'.]*)", re.M)
NS = re.compile(r"^\s*namespace\s+([\w.]+)", re.M)


def theorems_of(prop, extra_modules=()):
    """Names of the theorems declared in Props/<prop>.lean and in the extra modules."""
    names = theorems_of_file(os.path.join(LEAN, "CtrlVerif", "Props", prop + ".lean"))
    for mod in extra_modules:
        names += theorems_of_file(os.path.join(LEAN, *mod.split(".")) + ".lean")
    return names


def theorems_of_file(path):
    src = strip_comments(open(path).read())
    names = []
    ns = []
    for line in src.split("\n"):
        m = re.match(r"^\s*namespace\s+([\w.]+)", line)
        if m:
            ns.append(m.group(1))
            continue
        m = re.match(r"^\s*end\s+([\w.]+)\s*$", line)
        if m and ns and ns[-1] == m.group(1):
            ns.pop()
            continue
        m = DECL.match(line)
        if m:
            names.append(".".join(ns + [m.group(1)]))
    return names


def audit(prop, extra_modules=()):
    """Regenerate Audit/<prop>.lean, elaborate it, parse the axioms of every theorem.
    Returns dict: {theorems: [...], axioms: {name: [axioms]}, bad: [...], ok: bool, log: str}."""
    names = theorems_of(prop, extra_modules)
    os.makedirs(os.path.join(LEAN, "Audit"), exist_ok=True)
    path = os.path.join(LEAN, "Audit", prop + ".lean")
    body = "import CtrlVerif.Props.%s\n" % prop + "".join("import %s\n" % m for m in extra_modules) \
        + "\n" + "".join("#print axioms %s\n" % n for n in names)
    old = open(path).read() if os.path.exists(path) else None
    if old != body:
        with open(path, "w") as f:
            f.write(body)
    lock = _lock()
    try:
        p = subprocess.run(["lake", "env", "lean", path], cwd=LEAN, text=True,
                           capture_output=True, timeout=1800)
    except subprocess.TimeoutExpired:
        raise InfraError("audit timed out")
    finally:
        lock.close()
    out = p.stdout + p.stderr
    axioms = {}
    # "'name' depends on axioms: [a, b]"  or  "'name' does not depend on any axioms"
    for m in re.finditer(r"'([^']+)' depends on axioms: \[([^\]]*)\]", out):
        axioms[m.group(1)] = [a.strip() for a in m.group(2).replace("\n", " ").split(",") if a.strip()]
    for m in re.finditer(r"'([^']+)' does not depend on any axioms", out):
        axioms[m.group(1)] = []
    bad = []
    for n in names:
        if n not in axioms:
            bad.append("%s: not elaborated" % n)
        else:
            extra = [a for a in axioms[n] if a not in ALLOWED_AXIOMS]
            if extra:
                bad.append("%s: axioms %s" % (n, extra))
    return {"theorems": names, "axioms": axioms, "bad": bad,
            "ok": p.returncode == 0 and not bad and bool(names), "log": out[-4000:]}


def leanchecker(modules, timeout=3000):
    lock = _lock()
    try:
        p = subprocess.run(["lake", "env", "leanchecker"] + list(modules), cwd=LEAN, text=True,
                           capture_output=True, timeout=timeout)
        return p.returncode == 0, (p.stdout + p.stderr)[-2000:]
    except subprocess.TimeoutExpired:
        raise InfraError("leanchecker timed out")
    finally:
        lock.close()


def _die_with_parent():
    try:
        import ctypes
        import signal
        ctypes.CDLL("libc.so.6").prctl(1, signal.SIGKILL)      # PR_SET_PDEATHSIG
    except Exception:
        pass


def _kill_group(p):
    import signal
    try:
        os.killpg(p.pid, signal.SIGKILL)
    except Exception:
        pass
    try:
        p.kill()
        p.wait(timeout=5)
    except Exception:
        pass


def run_driver(lines, nproc=8, timeout=3000):
    """Pipe lines through the model driver, return the output lines (same order)."""
    if not lines:
        return []
    nproc = max(1, min(nproc, (len(lines) + 49) // 50))
    chunks = [lines[i::nproc] for i in range(nproc)]

    def one(chunk):
        # `lean` is started directly (not through `lake env`, whose child would survive a kill of
        # the wrapper), in its own session, and dies with this process; a timeout kills the group
        env = dict(os.environ, LEAN_PATH=os.path.join(LEAN, ".lake", "build", "lib", "lean"))
        p = subprocess.Popen(["lean", "--run", "Main.lean"], cwd=LEAN, env=env, text=True,
                             stdin=subprocess.PIPE, stdout=subprocess.PIPE, stderr=subprocess.PIPE,
                             start_new_session=True, preexec_fn=_die_with_parent)
        try:
            so, se = p.communicate("\n".join(chunk) + "\n", timeout=timeout)
        except subprocess.TimeoutExpired:
            _kill_group(p)
            raise InfraError("driver timed out")
        except BaseException:
            _kill_group(p)
            raise
        p = subprocess.CompletedProcess(p.args, p.returncode, so, se)
        outs = p.stdout.split("\n")
        if outs and outs[-1] == "":
            outs.pop()
        if p.returncode != 0 or len(outs) != len(chunk):
            raise InfraError("driver failed rc=%s lines=%d/%d stderr=%s"
                             % (p.returncode, len(outs), len(chunk), p.stderr[-2000:]))
        return outs

    with ThreadPoolExecutor(nproc) as ex:
        res = list(ex.map(one, chunks))
    out = [None] * len(lines)
    for k, r in enumerate(res):
        out[k::nproc] = r
    return out
