"""py2lean_disp -- source-text tie of the discretisation DISPATCHERS and SIGNATURES (C14; DESIGN 10.3,
notes/NOTES-py2lean-disp.md).

On every run `regenerate(repo, lean_dir)` rewrites

* `Generated/DispSig.lean`:  the signatures of `sample_system` and `c2d` (control/dtime.py),
  `StateSpace.sample` (control/statesp.py), `TransferFunction.sample` (control/xferfcn.py) and `pade`
  (control/delay.py) as values of `PySig.Sig`, read from the `ast.arguments` node of each `def` (names and
  order of the positional-only / positional-or-keyword / keyword-only parameters, `*args`, `**kwargs`, the
  default value of every parameter), and the binding of a call to each (`Sig.bind`);
* `Generated/DispCall.lean`: the body of `sample_system` (and of `c2d`, an alias or a `def` of its own):
  the tests that raise (`if not isctime(sysc): raise ValueError(...)`) and the forwarding call
  `sysc.sample(Ts, method=method, ..., **kwargs)` as a value of `PySig.Call` (which parameter of the caller is
  written at which position / for which keyword of the callee) and as the function from the caller's
  environment to the call form the callee is invoked with.

`Props/C14GenDisp.lean` proves the generated signatures equal to the model's `sampleSystemParams` /
`sampleParams` / the `pade` list (`Model/Discretize.lean`), the generated bindings equal to
`bindSampleSystem` / `bindSample` / `bindPade`, and that the forwarding call delivers parameter p of
`sample_system` to parameter p of `sample`.

Supported subset of a dispatcher body (anything else: the translation FAILS, a definition that cannot equal
the model is emitted and the obligation is visibly broken): an optional docstring; `x = y` with `y` a
parameter or such a local (a renamed local, resolved); `if not isctime(v): raise E('msg')` with `isctime`
imported from `.iosys`; `return v.attr(args)` or `r = v.attr(args)` ... `return r`, every argument a
parameter / renamed local, keywords `k=v`, and `**kw` with `kw` the function's own `**kwargs`.

Trusted: this translator and `Model/PySig.lean` (the vocabulary; `Sig.bind` is the model's `bindArgs`).
"""
import ast
import hashlib
import os


class Unsupported(Exception):
    pass


def lean_str(s):
    out = []
    for ch in s:
        if ch == "\\":
            out.append("\\\\")
        elif ch == '"':
            out.append('\\"')
        elif ch == "\n":
            out.append("\\n")
        elif 32 <= ord(ch) < 127:
            out.append(ch)
        else:
            out.append("\\u{%x}" % ord(ch))
    return '"' + "".join(out) + '"'


def lean_list(items):
    return "[" + ", ".join(items) + "]"


def lean_const(node):
    if isinstance(node, ast.Constant):
        v = node.value
        if v is None:
            return ".none"
        if v is True or v is False:
            return ".bool %s" % ("true" if v else "false")
        if isinstance(v, str):
            return ".str %s" % lean_str(v)
        if isinstance(v, int):
            return ".int (%d)" % v
    return ".other %s" % lean_str(ast.unparse(node))


# ---- locating definitions -----------------------------------------------------------------------
def module_level(module, name):
    """all module-level statements that bind `name`"""
    out = []
    for n in module.body:
        if isinstance(n, (ast.FunctionDef, ast.AsyncFunctionDef, ast.ClassDef)) and n.name == name:
            out.append(n)
        elif isinstance(n, ast.Assign) and any(isinstance(t, ast.Name) and t.id == name for t in n.targets):
            out.append(n)
        elif isinstance(n, (ast.AnnAssign, ast.AugAssign)) and isinstance(n.target, ast.Name) and n.target.id == name:
            out.append(n)
        elif isinstance(n, (ast.Import, ast.ImportFrom)) and any((a.asname or a.name) == name for a in n.names):
            out.append(n)
    return out


def find_def(module, cls, func):
    if cls:
        found = [n for n in module.body if isinstance(n, ast.ClassDef) and n.name == cls]
        if len(found) != 1:
            raise Unsupported("class %s %s" % (cls, "not found" if not found else "defined twice"))
        found = [n for n in found[0].body if isinstance(n, ast.FunctionDef) and n.name == func]
        # an assignment `sample = ...` in the class body would rebind the method
        if any(isinstance(n, ast.Assign) and any(isinstance(t, ast.Name) and t.id == func for t in n.targets)
               for c in module.body if isinstance(c, ast.ClassDef) and c.name == cls for n in c.body):
            raise Unsupported("%s.%s is rebound by an assignment" % (cls, func))
    else:
        found = module_level(module, func)
    if len(found) != 1:
        raise Unsupported("%s %s" % (func, "not found" if not found else "bound more than once"))
    return found[0]


# ---- signatures ----------------------------------------------------------------------------------
def read_sig(fn, drop_self):
    """the data of a `def` line"""
    if not isinstance(fn, ast.FunctionDef):
        raise Unsupported("not a plain def")
    if fn.decorator_list:
        raise Unsupported("decorated function (the decorator may change the signature)")
    a = fn.args
    posonly = [x.arg for x in a.posonlyargs]
    params = [x.arg for x in a.args]
    if drop_self:
        first = (posonly or params)
        if not first or first[0] != "self":
            raise Unsupported("method without leading self")
        if posonly:
            posonly = posonly[1:]
        else:
            params = params[1:]
    allpos = [x.arg for x in a.posonlyargs + a.args]
    defaults = list(zip(allpos[len(allpos) - len(a.defaults):], a.defaults))
    defaults += [(x.arg, d) for x, d in zip(a.kwonlyargs, a.kw_defaults) if d is not None]
    return dict(posonly=posonly, params=params, kwonly=[x.arg for x in a.kwonlyargs],
                vararg=a.vararg.arg if a.vararg else None, varkw=a.kwarg.arg if a.kwarg else None,
                defaults=defaults, text=ast.unparse(a))


def sig_lean(name, sig, doc):
    b = lambda x: "true" if x else "false"
    strs = lambda l: lean_list([lean_str(x) for x in l])
    dfl = lean_list(["(%s, %s)" % (lean_str(p), lean_const(d)) for p, d in sig["defaults"]])
    return ("/-- %s -/\ndef %sSig : PySig.Sig :=\n  { posonly := %s,\n    params := %s,\n    kwonly := %s,\n"
            "    vararg := %s, varkw := %s,\n    defaults := %s }\n" % (
                doc, name, strs(sig["posonly"]), strs(sig["params"]), strs(sig["kwonly"]),
                b(sig["vararg"]), b(sig["varkw"]), dfl))


def failed_sig(name, where, msg):
    return ("/-- translation of the signature of `%s` FAILED: %s -/\ndef %sSig : PySig.Sig :=\n"
            "  { posonly := [\"<translation failed>\"], params := [], kwonly := [], vararg := false, varkw := false,\n"
            "    defaults := [] }\n" % (where, msg, name))


def bind_lean(where, bname, lname):
    return ("/-- Python's binding of a call of `%s` with `npos` positional arguments and the keywords `kws`. -/\n"
            "def %s (npos : Nat) (kws : List String) : Except Err (List Slot) :=\n  %sSig.bind npos kws\n" % (
                where, bname, lname))


# ---- dispatcher bodies ---------------------------------------------------------------------------
def classify(exc, msg):
    """the model's error class of an exception: the one harness/families/c14.py:classify_exc assigns"""
    if exc == "ValueError":
        if "continuous" in msg:
            return "Err.timebase"
        if "Improper" in msg:
            return "Err.nonProper"
        return "Err.badArg"
    if exc == "TypeError":
        return "Err.badArg"
    if exc == "NotImplementedError":
        return "Err.notImplemented"
    raise Unsupported("raise %s" % exc)


def imported_from(module, name, modname):
    """`name` is bound exactly once at module level, by `from .<modname> import name`"""
    b = module_level(module, name)
    return (len(b) == 1 and isinstance(b[0], ast.ImportFrom) and b[0].module == modname and b[0].level == 1
            and any(a.name == name and a.asname in (None, name) for a in b[0].names))


def read_body(module, fn, sig):
    """-> (guards [(predicate, negated, variable, error)], call dict)"""
    names = sig["posonly"] + sig["params"] + sig["kwonly"]
    env = {n: n for n in names}
    if sig["vararg"]:
        env[sig["vararg"]] = "*"
    if sig["varkw"]:
        env[sig["varkw"]] = "**"
    body = list(fn.body)
    if body and isinstance(body[0], ast.Expr) and isinstance(body[0].value, ast.Constant) \
            and isinstance(body[0].value.value, str):
        body = body[1:]
    guards, pending, result = [], {}, None

    def res(node, what):
        if not isinstance(node, ast.Name) or node.id not in env:
            raise Unsupported("%s is not a parameter: %s" % (what, ast.unparse(node)))
        return env[node.id]

    def read_call(c):
        if not (isinstance(c.func, ast.Attribute) and isinstance(c.func.value, ast.Name)):
            raise Unsupported("call " + ast.unparse(c.func))
        recv = res(c.func.value, "receiver")
        if recv in ("*", "**"):
            raise Unsupported("receiver")
        pos = []
        for x in c.args:
            v = res(x, "positional argument")
            if v in ("*", "**"):
                raise Unsupported("argument " + ast.unparse(x))
            pos.append(v)
        kws, star = [], False
        for k in c.keywords:
            if k.arg is None:
                if star or res(k.value, "** argument") != "**":
                    raise Unsupported("** argument " + ast.unparse(k.value))
                star = True
            else:
                if star:
                    raise Unsupported("keyword after **")
                v = res(k.value, "keyword argument")
                if v in ("*", "**"):
                    raise Unsupported("argument " + ast.unparse(k.value))
                kws.append((k.arg, v))
        return dict(recv=recv, attr=c.func.attr, pos=pos, kws=kws, star=star)

    for st in body:
        if result is not None:
            raise Unsupported("statement after return")
        if isinstance(st, ast.Assign) and len(st.targets) == 1 and isinstance(st.targets[0], ast.Name):
            t = st.targets[0].id
            if isinstance(st.value, ast.Name):
                env[t] = res(st.value, "right-hand side")
                pending.pop(t, None)
            elif isinstance(st.value, ast.Call):
                pending[t] = read_call(st.value)      # a named temporary for the result
                env.pop(t, None)
            else:
                raise Unsupported("assignment " + ast.unparse(st))
        elif isinstance(st, ast.If):
            t, neg = st.test, False
            if isinstance(t, ast.UnaryOp) and isinstance(t.op, ast.Not):
                t, neg = t.operand, True
            if not (isinstance(t, ast.Call) and isinstance(t.func, ast.Name) and t.func.id == "isctime"
                    and len(t.args) == 1 and not t.keywords):
                raise Unsupported("test " + ast.unparse(st.test))
            if "isctime" in env or not imported_from(module, "isctime", "iosys"):
                raise Unsupported("isctime is not the function imported from .iosys")
            if pending:
                raise Unsupported("test after the forwarding call")
            v = res(t.args[0], "argument of isctime")
            if st.orelse or len(st.body) != 1 or not isinstance(st.body[0], ast.Raise):
                raise Unsupported("if-statement that is not `if test: raise`")
            e = st.body[0].exc
            if not (isinstance(e, ast.Call) and isinstance(e.func, ast.Name) and len(e.args) == 1 and not e.keywords
                    and isinstance(e.args[0], ast.Constant) and isinstance(e.args[0].value, str)):
                raise Unsupported("raise " + ast.unparse(st.body[0]))
            guards.append(("isctime", neg, v, classify(e.func.id, e.args[0].value)))
        elif isinstance(st, ast.Return):
            if isinstance(st.value, ast.Call):
                if pending:
                    raise Unsupported("a call whose result is not returned")
                result = read_call(st.value)
            elif isinstance(st.value, ast.Name) and list(pending) == [st.value.id]:
                result = pending.pop(st.value.id)
            else:
                raise Unsupported("return " + (ast.unparse(st.value) if st.value else ""))
        else:
            raise Unsupported("statement " + ast.unparse(st).split("\n")[0])
    if result is None:
        raise Unsupported("no return")
    return guards, result


def call_lean(name, where, sha, guards, call):
    strs = lambda l: lean_list([lean_str(x) for x in l])
    kws = lean_list(["(%s, %s)" % (lean_str(k), lean_str(v)) for k, v in call["kws"]])
    out = ("/-- the forwarding call of `%s` (sha256 of the function text\n%s):\n`%s.%s(%s)` -/\n"
           "def %sCall : PySig.Call :=\n  { recv := %s, attr := %s,\n    pos := %s,\n    kws := %s,\n    star := %s }\n\n" % (
               where, sha, call["recv"], call["attr"],
               ", ".join(call["pos"] + ["%s=%s" % kv for kv in call["kws"]] + (["**kwargs"] if call["star"] else [])),
               name, lean_str(call["recv"]), lean_str(call["attr"]), strs(call["pos"]), kws,
               "true" if call["star"] else "false"))
    lines = []
    for pred, neg, v, err in guards:
        lines.append("  if %s(%s (env %s)) then .error %s else" % ("!" if neg else "", pred, lean_str(v), err))
    lines.append("  .ok (%sCall.eval env kwargs)" % name)
    out += ("/-- `%s` as the source text says it: the tests that raise, then the call form `%s` is invoked with\n"
            "(`env`: the value of each parameter after binding, `kwargs`: the function's `**kwargs`). -/\n"
            "def %s {α : Type} (isctime : α → Bool) (env : String → α) (kwargs : List (String × α)) :\n"
            "    Except Err (PySig.CallForm α) :=\n%s\n" % (where, call["attr"], name, "\n".join(lines)))
    return out


def failed_call(name, where, msg):
    return ("/-- translation of the body of `%s` FAILED: %s -/\ndef %sCall : PySig.Call :=\n"
            "  { recv := \"<translation failed>\", attr := \"\", pos := [], kws := [], star := false }\n\n"
            "def %s {α : Type} (_isctime : α → Bool) (_env : String → α) (_kwargs : List (String × α)) :\n"
            "    Except Err (PySig.CallForm α) :=\n  .error Err.notImplemented\n" % (where, msg, name, name))


def alias_lean(name, target, where, doc):
    return ("/-- %s -/\ndef %sCall : PySig.Call := %sCall\n\n"
            "/-- `%s`: %s -/\ndef %s {α : Type} (isctime : α → Bool) (env : String → α) (kwargs : List (String × α)) :\n"
            "    Except Err (PySig.CallForm α) :=\n  %s isctime env kwargs\n" % (doc, name, target, where, doc, name, target))


# ---- jobs ----------------------------------------------------------------------------------------
# (key, file, class, function, Lean name, Lean name of the binding, drop self, body translated)
JOBS = [
    ("sample_system", "control/dtime.py", None, "sample_system", "sampleSystem", "bindSampleSystem", False, True),
    ("c2d", "control/dtime.py", None, "c2d", "c2d", "bindC2d", False, True),
    ("StateSpace.sample", "control/statesp.py", "StateSpace", "sample", "ssSample", "bindSsSample", True, False),
    ("TransferFunction.sample", "control/xferfcn.py", "TransferFunction", "sample", "tfSample", "bindTfSample",
     True, False),
    ("pade", "control/delay.py", None, "pade", "pade", "bindPade", False, False),
]
SIG_FILE, CALL_FILE = "DispSig.lean", "DispCall.lean"


def load(path):
    try:
        src = open(path).read()
        return src, ast.parse(src), None
    except (OSError, SyntaxError, ValueError) as e:
        return None, None, "%s: %s" % (type(e).__name__, e)


def clean(msg):
    return str(msg).replace("\n", " ").replace("-/", "- /").replace("/-", "/ -")[:300]


def regenerate(repo, lean_dir, only=None):
    """Rewrite Generated/DispSig.lean and Generated/DispCall.lean; returns (list of problems, info dict).
    Deterministic functions of the source texts (no timestamps), rewritten only when changed."""
    problems, info = [], {}
    gen_dir = os.path.join(lean_dir, "CtrlVerif", "Generated")
    os.makedirs(gen_dir, exist_ok=True)
    loaded, sigs, calls = {}, [], []
    sig_sha, call_sha = [], []
    for key, rel, cls, func, lname, bname, drop_self, with_body in JOBS:
        path = os.path.join(repo, rel)
        if path not in loaded:
            loaded[path] = load(path)
        src, module, err = loaded[path]
        where = "%s:%s%s" % (rel, (cls + ".") if cls else "", func)
        inf = info.setdefault(key, {"where": where})
        node = sig = None
        alias = None
        try:
            if err:
                raise Unsupported(err)
            node = find_def(module, cls, func)
            if isinstance(node, ast.Assign):
                # `c2d = sample_system`: an alias of a function translated before
                tgt = node.value.id if isinstance(node.value, ast.Name) else None
                prev = [j for j in JOBS if j[3] == tgt and j[1] == rel and j[2] is None and j[0] in info
                        and j[0] != key]
                if len(node.targets) != 1 or not prev or not with_body:
                    raise Unsupported("binding `%s`" % ast.unparse(node))
                find_def(module, None, tgt)                 # bound exactly once
                alias = prev[0]
                text = "%s is %s" % (func, tgt)
                sha = hashlib.sha256((ast.unparse(node) + "\n" + info[alias[0]].get("sig_text", "?")).encode()).hexdigest()
                sigs.append("/-- `%s` is bound by `%s`: the signature of `%s`. -/\ndef %sSig : PySig.Sig := %sSig\n" % (
                    where, ast.unparse(node), tgt, lname, alias[4]))
                inf.update(alias_of=alias[0], sig_sha=sha, sig_text=text)
            else:
                sig = read_sig(node, drop_self)
                sha = hashlib.sha256(sig["text"].encode()).hexdigest()
                doc = ("signature of `%s` (sha256 of the text of its `ast.arguments`\n%s):\n`(%s)`%s" % (
                    where, sha, sig["text"].replace("-/", "- /"), " without the leading `self`" if drop_self else ""))
                sigs.append(sig_lean(lname, sig, doc))
                inf.update(sig_sha=sha, sig_text=sig["text"])
        except (Unsupported, AttributeError, TypeError, ValueError, IndexError, KeyError) as e:
            msg = clean("%s: %s" % (type(e).__name__, e) if not isinstance(e, Unsupported) else e)
            problems.append("py2lean_disp: signature of %s cannot be translated: %s" % (where, msg))
            sigs.append(failed_sig(lname, where, msg))
            sha = "FAILED"
            node = None
        sigs.append(bind_lean(where, bname, lname))
        sig_sha.append("%s %s" % (key, sha[:16]))
        if not with_body:
            continue
        try:
            if alias is not None:
                calls.append(alias_lean(lname, alias[4], where,
                                        "`%s` is bound by `%s`: the same function object" % (func, ast.unparse(node))))
                sha = inf["sig_sha"]
            elif node is None or sig is None:
                raise Unsupported("signature not translated")
            else:
                guards, call = read_body(module, node, sig)
                sha = hashlib.sha256(ast.get_source_segment(src, node).encode()).hexdigest()
                calls.append(call_lean(lname, where, sha, guards, call))
                inf.update(body_sha=sha, guards=len(guards), call=call)
        except (Unsupported, AttributeError, TypeError, ValueError, IndexError, KeyError) as e:
            msg = clean("%s: %s" % (type(e).__name__, e) if not isinstance(e, Unsupported) else e)
            problems.append("py2lean_disp: body of %s cannot be translated: %s" % (where, msg))
            calls.append(failed_call(lname, where, msg))
            sha = "FAILED"
        call_sha.append("%s %s" % (key, sha[:16]))
    rels = sorted({j[1] for j in JOBS})
    files = [
        (SIG_FILE, ["CtrlVerif.Model.PySig"], rels, sig_sha, sigs),
        (CALL_FILE, ["CtrlVerif.Generated.DispSig"], ["control/dtime.py"], call_sha, calls)]
    for out, imports, frm, shas, texts in files:
        if only and out not in only:
            continue
        text = ("-- GENERATED on every run by harness/core/py2lean_disp.py from %s (%s).  Do not edit.\n" % (
                    ", ".join(frm), ", ".join(shas))
                + "".join("import %s\n" % d for d in imports)
                + "\nnamespace CtrlVerif.Generated.Disp\n\nopen CtrlVerif\n\n" + "\n".join(texts)
                + "\nend CtrlVerif.Generated.Disp\n")
        p = os.path.join(gen_dir, out)
        old = open(p).read() if os.path.exists(p) else None
        if old != text:
            with open(p, "w") as f:
                f.write(text)
    return problems, info


if __name__ == "__main__":
    import sys
    probs, inf = regenerate(sys.argv[1], sys.argv[2])
    for p in probs:
        print("PROBLEM", p)
    for k, v in inf.items():
        print(k, {a: b for a, b in v.items() if a != "call"})
