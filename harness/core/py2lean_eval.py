"""Sixth translator Python `ast` -> Lean 4 (DESIGN §10.3 / notes/NOTES-py2lean-eval.md): the EVALUATION
code of python-control (property C04)

    control/xferfcn.py : TransferFunction.horner, __call__, freqresp, dcgain
    control/statesp.py : StateSpace._has_zero_at, horner, __call__, freqresp, dcgain
    control/lti.py     : LTI._dcgain, LTI.frequency_response

It regenerates `lean/CtrlVerif/Generated/Eval*.lean` from the source text of the tree the check runs
against on every run; `Props/C04Gen*.lean` prove the hand-written model of C04 (`Model/Eval.lean`:
`tfHornerCx / tfHorner`, `ssHorner` with its three branches, `zeroTest`, `call`, `dcgainCode`,
`freqResp`) EQUAL to the generated functions for all sizes, coefficient lists, matrices, points and
timebases.  A semantic edit of the source breaks a proof obligation; an edit that leaves the
supported subset makes the translation fail (the emitted definition is then `.error
.notImplemented` for every argument, which cannot equal the model).

Value model (fixed in `lean/CtrlVerif/Model/PyEval.lean`, hand-written, trusted; the matrix layer is
`Model/PyMat.lean` of py2lean_ss, polynomial arrays are `Model/PyTF.lean` of py2lean_tf):
  TransferFunction / StateSpace object -> `DTF K` / `DSS K`;  an LTI receiver -> `LTI K` (dispatch)
  the argument `x`                     -> `PyEval.XArg K` (scalar | 1-D array)
  1-D complex array                    -> `List K`;  of IEEE values `List (Eval.Cx K)`; mask `List Bool`
  3-D complex array `out`              -> `PyEval.Arr3 K` (entries `Option (Cx K)`, `none` = unspecified)
  2-D real array                       -> `PMat K`;  numbers `K` (exact);  ints `Int`, sizes `Nat`
  frequencies                          -> `List ℚ`;  `1j * omega`, `np.exp(1j * omega * dt)` through `Env K`
The expression translator of py2lean_ss (`Translator`) is reused by subclassing for everything that
concerns 2-D matrices, sizes and ints; this module adds the 1-D / 3-D array expressions, the
statement forms `for … in range / enumerate`, `with np.errstate(…)`, `try / except` with a handler
body, conditional expressions, `warn(…)` (no value), and calls of sibling methods (`self.horner(…)`,
`self._has_zero_at(…)`, `self(…)`, `self.isctime()`).

Rules that read more than one node (each recorded as a note in the generated doc comment):
  * `np.atleast_1d(x).astype(complex, copy=False)` is one primitive (`atleast1dComplex`);
  * `np.exp(1j * w * h)` is `PyEval.expjArr E h w`, `1j * w` is `PyEval.jwArr E w` (NumPy's `exp` is a
    parameter of the model); `np.isnan(z.imag)` is one primitive;
  * `if c: warn(…)` and `warn(…)` have no value and are dropped (the condition must be call-free up to
    `np.any`), `with np.errstate(…):` only changes how floating-point events are reported;
  * `try: B except E: H`: the names `B` re-binds that exist before the statement may only be re-bound
    by the LAST statement of `B` (so no partial effect of `B` is visible in `H`);
  * `if omega is None:` on a parameter whose static type is not optional is decided statically.
"""
import ast
import hashlib
import os

from core.py2lean import Unsupported
from core import py2lean_ss as S
from core.py2lean_ss import V, _ind, SS, MAT, NUM, NAT, INT, DT, PROP, SHAPE

TF, LTI, XARG, PTS, ARR3, POLY, POLYARR, CXV, CXL, MASK, BOOL, BARR, RARR, QLIST, QNUM, JARR, IMAG1, DCRES, \
    FRESP, NONE, SQ, NPCONST, IMAGOF, SHAPE1, CPLXTY = (
        "TF", "LTI", "XARG", "PTS", "ARR3", "POLY", "POLYARR", "CXV", "CXL", "MASK", "BOOL", "BARR", "RARR",
        "QLIST", "QNUM", "JARR", "IMAG1", "DCRES", "FRESP", "NONE", "SQ", "NPCONST", "IMAGOF", "SHAPE1", "CPLXTY")
LEAN_TY = dict(S.LEAN_TY)
LEAN_TY.update({TF: "DTF K", LTI: "LTI K", XARG: "PyEval.XArg K", PTS: "List K", ARR3: "PyEval.Arr3 K",
                POLY: "List K", POLYARR: "PyTF.PolyArr K", CXV: "Eval.Cx K", CXL: "List (Eval.Cx K)",
                MASK: "List Bool", BOOL: "Bool", BARR: "PyEval.NArr Bool", RARR: "PyEval.NArr (Eval.IVal K)",
                QLIST: "List ℚ", QNUM: "ℚ", DCRES: "PyEval.DcRes K", FRESP: "PyEval.FResp K", SQ: "Option Bool"})


def classify_message(msg):
    return S.classify_message(msg)


class Tr(S.Translator):
    """expression / statement translator for one specialisation of one method"""

    def __init__(self, job, bindings, available):
        super().__init__(job, dict(bindings), available)
        self.nloop = 0

    # -- helpers ------------------------------------------------------------------------------
    def need_from(self, name, module):
        got = self.bindings.get(name)
        if name in self.locals:
            raise Unsupported("`%s` is re-bound inside the method" % name)
        if got != ("from", module):
            raise Unsupported("`%s` is bound to %s, expected `from %s import %s`" % (name, got, module, name))

    def np_name(self, f, short, module="numpy"):
        """`short(…)` imported from numpy or `np.short(…)`"""
        if f == short:
            self.need_from(short, module)
            return True
        if f == "np." + short:
            self.need("np", S.IMPORTS["np"])
            return True
        return False

    def as_num(self, v):
        if v.ty == BOOL:
            raise Unsupported("a bool used as a number")
        return super().as_num(v)

    def as_xarg(self, v):
        if v.ty == XARG:
            return v.code
        if v.ty == PTS:
            return "(PyEval.XArg.arr %s)" % v.code
        if v.ty in (NUM, INT, NAT) or v.lit is not None:
            return "(PyEval.XArg.scalar %s)" % self.as_num(v)
        raise Unsupported("not an evaluation point: %s" % v.ty)

    def as_arr3(self, v):
        if v.ty == ARR3:
            return v.code
        if v.ty == PTS:
            return "(PyEval.Arr3.ofVec %s)" % v.code
        raise Unsupported("not a 3-D operand: %s" % v.ty)

    def as_bool(self, v):
        if v.ty == BOOL:
            return v.code
        raise Unsupported("expected a bool, got %s" % v.ty)

    def coerce(self, v, ty):
        """the Lean code of `v` where a value of static type `ty` is expected"""
        if ty == XARG:
            return self.as_xarg(v)
        if ty == NUM:
            return self.as_num(v)
        if ty == INT:
            return self.as_int(v)
        if ty == NAT:
            return self.as_nat(v)
        if ty == SQ:
            if v.ty == NONE:
                return "none"
            if v.ty == BOOL:
                return "(some %s)" % v.code
            if v.ty == SQ:
                return v.code
            raise Unsupported("squeeze argument of type %s" % v.ty)
        if v.ty == ty:
            return v.code
        raise Unsupported("argument of type %s where %s is expected" % (v.ty, ty))

    # -- tests --------------------------------------------------------------------------------
    def test(self, node, env, pre):
        # `x is None` / `x is not None` decided by the static type
        if isinstance(node, ast.Compare) and len(node.ops) == 1 and isinstance(node.ops[0], (ast.Is, ast.IsNot)) \
                and isinstance(node.comparators[0], ast.Constant) and node.comparators[0].value is None:
            v = self.expr(node.left, env, [])
            r = (v.ty == NONE)
            if isinstance(node.ops[0], ast.IsNot):
                r = not r
            self.notes.append("`%s` decided statically (%s has static type %s)" % (ast.unparse(node), ast.unparse(node.left), v.ty))
            return r, "True" if r else "False"
        if isinstance(node, ast.Name) and node.id in env and env[node.id].ty == BOOL:
            return None, "(%s = true)" % env[node.id].code
        if isinstance(node, (ast.Call, ast.Attribute, ast.Subscript)):
            v = self.expr(node, env, pre)
            if v.ty == BOOL:
                return None, "(%s = true)" % v.code
            if v.ty == PROP:
                return None, v.code
            raise Unsupported("test of type %s" % v.ty)
        return super().test(node, env, pre)

    # -- expressions --------------------------------------------------------------------------
    def expr(self, node, env, pre):
        if isinstance(node, ast.Constant):
            if node.value is None:
                return V("none", NONE)
            if node.value is True or node.value is False:
                return V("true" if node.value else "false", BOOL)
            if isinstance(node.value, complex) and node.value == 1j:
                return V(None, IMAG1)
        if isinstance(node, ast.Name) and node.id == "complex" and "complex" not in env:
            return V(None, CPLXTY)
        if isinstance(node, ast.IfExp):
            s, cond = self.test(node.test, env, pre)
            pa, pb = [], []
            a = self.expr(node.body, env, pa)
            b = self.expr(node.orelse, env, pb)
            if pa or pb:
                raise Unsupported("conditional expression with an effectful branch")
            if s is True:
                return a
            if s is False:
                return b
            if a.ty == b.ty and a.ty not in (INT, NAT, SHAPE, PROP) and a.lit is None and b.lit is None:
                return V("(if %s then %s else %s)" % (cond, a.code, b.code), a.ty)
            if (a.ty in (INT, NAT) or a.lit is not None) and (b.ty in (INT, NAT) or b.lit is not None):
                return V("(if %s then %s else %s)" % (cond, self.as_int(a), self.as_int(b)), INT)
            raise Unsupported("conditional expression of types %s / %s" % (a.ty, b.ty))
        if isinstance(node, ast.Compare) and len(node.ops) == 1 and isinstance(node.ops[0], ast.Eq):
            pa = []
            a = self.expr(node.left, env, pa)
            if a.ty == PTS:
                pre.extend(pa)
                b = self.expr(node.comparators[0], env, pre)
                return V("(PyEval.eqNum %s %s)" % (a.code, self.as_num(b)), MASK)
            raise Unsupported("comparison %s as a value" % ast.unparse(node))
        return super().expr(node, env, pre)

    def attribute(self, node, env, pre):
        a = node.attr
        if isinstance(node.value, ast.Name) and node.value.id == "np" and "np" not in env:
            self.need("np", S.IMPORTS["np"])
            if a in ("nan", "inf", "newaxis", "pi"):
                return V(a, NPCONST)
            raise Unsupported("np.%s as a value" % a)
        v = self.expr(node.value, env, pre)
        if v.ty == TF:
            if a == "noutputs":
                return V("%s.p" % v.code, NAT)
            if a == "ninputs":
                return V("%s.m" % v.code, NAT)
            if a == "num_array":
                return V("(PyTF.numArray %s)" % v.code, POLYARR)
            if a == "den_array":
                return V("(PyTF.denArray %s)" % v.code, POLYARR)
            if a == "dt":
                return V("%s.dt" % v.code, DT)
        if v.ty == PTS and a == "shape":
            return V(v.code, SHAPE1)
        if v.ty == ARR3 and a == "real":
            return V("(PyEval.realPart P %s)" % v.code, RARR)
        if v.ty == ARR3 and a == "imag":
            return V(v.code, IMAGOF)
        if v.ty == SS:
            if a in ("A", "B", "C", "D"):
                return V("(PySS.%s %s)" % (a, v.code), MAT)
            if a == "dt":
                return V("%s.dt" % v.code, DT)
            if a in ("nstates", "ninputs", "noutputs"):
                return V("%s.%s" % (v.code, {"nstates": "n", "ninputs": "m", "noutputs": "p"}[a]), NAT)
        if v.ty == MAT:
            if a == "T":
                return V("(PMat.T %s)" % v.code, MAT)
            if a == "shape":
                return V(None, SHAPE, items=[V("%s.r" % v.code, NAT), V("%s.c" % v.code, NAT)])
        raise Unsupported("attribute .%s of %s" % (a, v.ty))

    def is_full(self, e):
        return isinstance(e, ast.Slice) and e.lower is None and e.upper is None and e.step is None

    def subscript(self, node, env, pre):
        sl = node.slice
        # X[:, :, np.newaxis]
        if isinstance(sl, ast.Tuple) and len(sl.elts) == 3 and self.is_full(sl.elts[0]) and self.is_full(sl.elts[1]):
            v = self.expr(node.value, env, pre)
            k = self.expr(sl.elts[2], env, pre)
            if v.ty == MAT and k.ty == NPCONST and k.code == "newaxis":
                return V("(PyEval.Arr3.ofMat %s)" % v.code, ARR3)
            raise Unsupported("index %s of %s" % (ast.unparse(sl), v.ty))
        if isinstance(sl, ast.Tuple) and len(sl.elts) == 2 and not any(isinstance(e, ast.Slice) for e in sl.elts):
            v = self.expr(node.value, env, pre)
            i = self.expr(sl.elts[0], env, pre)
            j = self.expr(sl.elts[1], env, pre)
            if v.ty == POLYARR:
                return self.bind(pre, "PyTF.PolyArr.getItem %s %s %s" % (v.code, self.as_int(i), self.as_int(j)), POLY)
            if v.ty == MAT:
                return self.bind(pre, "PyEval.matItem %s %s %s" % (v.code, self.as_int(i), self.as_int(j)), NUM)
            raise Unsupported("index %s of %s" % (ast.unparse(sl), v.ty))
        return super().subscript(node, env, pre)

    def binop(self, node, env, pre):
        op = node.op
        a = self.expr(node.left, env, pre)
        b = self.expr(node.right, env, pre)
        mine = {ARR3, PTS, CXL, IMAG1, JARR, QLIST}
        if a.ty not in mine and b.ty not in mine:
            return self.binop_ss(node, a, b, pre)
        if a.ty == ARR3 or b.ty == ARR3:
            if {a.ty, b.ty} <= {ARR3, PTS}:
                if isinstance(op, ast.Mult):
                    return self.bind(pre, "PyEval.Arr3.mul %s %s" % (self.as_arr3(a), self.as_arr3(b)), ARR3)
                if isinstance(op, ast.Add):
                    return self.bind(pre, "PyEval.Arr3.add %s %s" % (self.as_arr3(a), self.as_arr3(b)), ARR3)
                if isinstance(op, ast.Div):
                    return self.bind(pre, "PyEval.Arr3.div P %s %s" % (self.as_arr3(a), self.as_arr3(b)), ARR3)
            raise Unsupported("%s %s %s" % (a.ty, type(op).__name__, b.ty))
        if a.ty == PTS and b.ty == PTS and isinstance(op, ast.Div):
            return self.bind(pre, "PyEval.cdivArr P %s %s" % (a.code, b.code), CXL)
        if a.ty == PTS and (b.ty in (NUM, INT, NAT)) and isinstance(op, (ast.Sub, ast.Add)):
            return V("(PyEval.%s %s %s)" % ("subNum" if isinstance(op, ast.Sub) else "addNum", a.code, self.as_num(b)), PTS)
        if a.ty == IMAG1 and b.ty == QLIST and isinstance(op, ast.Mult):
            return V(b.code, JARR, items=None)
        if a.ty == JARR and a.items is None and isinstance(op, ast.Mult):
            if b.ty == DT:
                h = self.bind(pre, "PyEval.dtNum %s" % b.code, QNUM)
                return V(a.code, JARR, items=h.code)
            if b.ty == QNUM:
                return V(a.code, JARR, items=b.code)
        raise Unsupported("%s %s %s" % (a.ty, type(op).__name__, b.ty))

    def binop_ss(self, node, a, b, pre):
        """py2lean_ss.Translator.binop on already translated operands"""
        class _Env(dict):
            pass
        fake = ast.BinOp(left=ast.Name(id="__a", ctx=ast.Load()), op=node.op, right=ast.Name(id="__b", ctx=ast.Load()))
        return S.Translator.binop(self, fake, {"__a": a, "__b": b}, pre)

    # -- calls --------------------------------------------------------------------------------
    def call(self, node, env, pre):
        f = self.dotted(node.func)
        args, kws = node.args, {k.arg: k.value for k in node.keywords}
        # np.atleast_1d(x).astype(complex, copy=False)
        if isinstance(node.func, ast.Attribute) and node.func.attr == "astype" and isinstance(node.func.value, ast.Call) \
                and self.dotted(node.func.value.func) == "np.atleast_1d":
            self.need("np", S.IMPORTS["np"])
            inner = node.func.value
            if len(inner.args) == 1 and not inner.keywords and len(args) == 1 and isinstance(args[0], ast.Name) \
                    and args[0].id == "complex" and "complex" not in env \
                    and set(kws) <= {"copy"} and all(isinstance(x, ast.Constant) for x in kws.values()):
                x = self.expr(inner.args[0], env, pre)
                if x.ty == XARG:
                    return V("(PyEval.atleast1dComplex %s)" % x.code, PTS)
                if x.ty == PTS:
                    return x
            raise Unsupported("call %s" % ast.unparse(node)[:80])
        if f == "len" and len(args) == 1 and not kws and "len" not in env:
            v = self.expr(args[0], env, pre)
            if v.ty == SHAPE1:
                return V("(PyEval.ndim %s)" % v.code, NAT)
            if v.ty in (PTS, QLIST):
                return V("%s.length" % v.code if v.code.isidentifier() else "(List.length %s)" % v.code, NAT)
            raise Unsupported("len of %s" % v.ty)
        if self.is_np(f, "empty") and len(args) == 1 and isinstance(args[0], ast.Tuple) and len(args[0].elts) == 3 \
                and set(kws) <= {"dtype"} and all(ast.unparse(x) == "complex" for x in kws.values()):
            self.np_name(f, "empty")
            dims = [self.expr(e, env, pre) for e in args[0].elts]
            if all(self.nat_ok(d) for d in dims):
                return V("(PyEval.empty3 %s)" % " ".join(self.as_nat(d) for d in dims), ARR3)
            raise Unsupported("empty with sizes %s" % [d.ty for d in dims])
        if self.is_np(f, "polyval") and len(args) == 2 and not kws:
            self.np_name(f, "polyval")
            c = self.expr(args[0], env, pre)
            x = self.expr(args[1], env, pre)
            if c.ty == POLY and x.ty == PTS:
                return V("(PyEval.polyvalArr %s %s)" % (c.code, x.code), PTS)
            raise Unsupported("polyval(%s, %s)" % (c.ty, x.ty))
        if f == "np.ones_like" and len(args) == 1 and set(kws) <= {"dtype"}:
            pv = []
            v = self.expr(args[0], env, pv)
            if v.ty == PTS and all(ast.unparse(x) == "complex" for x in kws.values()):
                self.need("np", S.IMPORTS["np"])
                pre.extend(pv)
                return V("(PyEval.onesLike %s)" % v.code, PTS)
        if f == "complex" and len(args) == 2 and not kws and "complex" not in env:
            a = self.expr(args[0], env, pre)
            b = self.expr(args[1], env, pre)
            if a.ty == NPCONST and b.ty == NPCONST and a.code in ("nan", "inf") and b.code in ("nan", "inf"):
                return V("(PyEval.cplx %s %s)" % ("true" if a.code == "inf" else "false",
                                                  "true" if b.code == "inf" else "false"), CXV)
            raise Unsupported("call %s" % ast.unparse(node)[:80])
        if self.is_np(f, "any") and len(args) == 1 and not kws:
            self.np_name(f, "any")
            v = self.expr(args[0], env, pre)
            if v.ty == MASK:
                return V("(PyEval.anyB %s)" % v.code, BOOL)
            raise Unsupported("any of %s" % v.ty)
        if f == "np.all" and len(args) == 1 and not kws:
            self.need("np", S.IMPORTS["np"])
            v = self.expr(args[0], env, pre)
            if v.ty == BARR:
                return self.bind(pre, "PyEval.allB %s" % v.code, BOOL)
            raise Unsupported("np.all of %s" % v.ty)
        if f == "np.logical_or" and len(args) == 2 and not kws:
            self.need("np", S.IMPORTS["np"])
            a = self.expr(args[0], env, pre)
            b = self.expr(args[1], env, pre)
            if a.ty == BARR and b.ty == BARR:
                return self.bind(pre, "PyEval.logicalOr %s %s" % (a.code, b.code), BARR)
            raise Unsupported("np.logical_or of %s, %s" % (a.ty, b.ty))
        if f == "np.isreal" and len(args) == 1 and not kws:
            self.need("np", S.IMPORTS["np"])
            v = self.expr(args[0], env, pre)
            if v.ty == ARR3:
                return V("(PyEval.isreal P %s)" % v.code, BARR)
            raise Unsupported("np.isreal of %s" % v.ty)
        if f == "np.isnan" and len(args) == 1 and not kws:
            self.need("np", S.IMPORTS["np"])
            v = self.expr(args[0], env, pre)
            if v.ty == IMAGOF:
                self.note_once("`np.isnan(z.imag)` is one primitive (`PyEval.isnanImag`)")
                return V("(PyEval.isnanImag %s)" % v.code, BARR)
            raise Unsupported("np.isnan of %s" % v.ty)
        if f == "np.array" and len(args) == 1 and set(kws) <= {"ndmin"} and all(ast.unparse(x) == "1" for x in kws.values()):
            self.need("np", S.IMPORTS["np"])
            v = self.expr(args[0], env, pre)
            if v.ty == QLIST:
                return v
            raise Unsupported("np.array of %s" % v.ty)
        if f == "np.sort" and len(args) == 1 and not kws:
            self.need("np", S.IMPORTS["np"])
            v = self.expr(args[0], env, pre)
            if v.ty == QLIST:
                return V("(PyEval.npSort %s)" % v.code, QLIST)
            raise Unsupported("np.sort of %s" % v.ty)
        if self.is_np(f, "exp") and len(args) == 1 and not kws:
            self.np_name(f, "exp")
            v = self.expr(args[0], env, pre)
            if v.ty == JARR:
                self.note_once("`np.exp(1j * w * h)` is `PyEval.expjArr E h w` (`h = 1` without the factor)")
                return V("(PyEval.expjArr E %s %s)" % (v.items if v.items is not None else "(1 : ℚ)", v.code), PTS)
            raise Unsupported("exp of %s" % v.ty)
        if f == "_process_frequency_response" and len(args) == 3 and set(kws) <= {"squeeze"}:
            self.need_from("_process_frequency_response", "lti")
            s = self.expr(args[0], env, pre)
            x = self.expr(args[1], env, pre)
            out = self.expr(args[2], env, pre)
            sq = self.expr(kws["squeeze"], env, pre) if "squeeze" in kws else V("none", NONE)
            if s.ty in (TF, SS) and s.code == "self" and x.ty in (XARG, PTS) and out.ty == ARR3:
                return V("(PyEval.processFrequencyResponse %s %s)" % (out.code, self.coerce(sq, SQ)), ARR3)
            raise Unsupported("call %s" % ast.unparse(node)[:80])
        if f == "FrequencyResponseData" and len(args) == 2:
            self.need_from("FrequencyResponseData", "frdata")
            r = self.expr(args[0], env, pre)
            w = self.expr(args[1], env, pre)
            if "dt" not in kws:
                raise Unsupported("FrequencyResponseData without dt=")
            dt = self.expr(kws["dt"], env, pre)
            for k, val in kws.items():        # the other keywords: labels / names / flags, effect-free
                if k != "dt" and not self.effect_free(val):
                    raise Unsupported("keyword %s=%s" % (k, ast.unparse(val)))
            if r.ty == ARR3 and w.ty == QLIST and dt.ty == DT:
                return self.bind(pre, "PyEval.mkFRD %s %s %s" % (r.code, w.code, dt.code), FRESP)
            raise Unsupported("FrequencyResponseData(%s, %s, dt=%s)" % (r.ty, w.ty, dt.ty))
        # calls of methods of the receiver
        if isinstance(node.func, ast.Name) and node.func.id == "self" and env.get("self") is not None:
            return self.method_call("__call__", env["self"], args, kws, env, pre)
        if isinstance(node.func, ast.Attribute) and isinstance(node.func.value, ast.Name) and node.func.value.id == "self":
            recv = env.get("self")
            name = node.func.attr
            if recv is not None and recv.ty in (TF, SS):
                if name == "slycot_laub" and recv.ty == SS and len(args) == 1 and not kws:
                    x = self.expr(args[0], env, pre)
                    if x.ty == PTS:
                        self.note_once("`self.slycot_laub(…)`: Slycot is absent, the call raises ImportError "
                                       "(`PyEval.slycotLaub`)")
                        return self.bind(pre, "PyEval.slycotLaub %s %s" % (recv.code, x.code), ARR3)
                if name in ("isctime", "isdtime") and not args and set(kws) <= {"strict"}:
                    strict = "false"
                    if "strict" in kws:
                        sv = self.expr(kws["strict"], env, pre)
                        strict = self.as_bool(sv)
                    self.note_once("`self.%s(…)` is `Generated.io%s` on the timebase (source-tied by C05Pred)"
                                   % (name, name.capitalize()))
                    return self.bind(pre, "Generated.io%s %s.dt %s" % (name.capitalize(), recv.code, strict), BOOL)
                return self.method_call(name, recv, args, kws, env, pre)
        return super().call(node, env, pre)

    def is_np(self, f, short):
        return f in (short, "np." + short)

    def note_once(self, n):
        if n not in self.notes:
            self.notes.append(n)

    def effect_free(self, node):
        for n in ast.walk(node):
            if isinstance(n, (ast.Call, ast.Subscript, ast.BinOp, ast.Await, ast.Yield, ast.NamedExpr)):
                return False
        return True

    def method_call(self, name, recv, args, kws, env, pre):
        """`self.name(args, kw=…)` for a method with a generated counterpart"""
        key = (self.job["cls_of"][recv.ty], name)
        sig = self.available.get(key)
        if sig is None and ("LTI", name) in self.available and recv.ty in (TF, SS):
            # a method inherited from LTI: the receiver as an `LTI K`
            sig = self.available[("LTI", name)]
            recv = V("(LTI.tf %s.p %s.m %s.sys.e %s.dt)" % ((recv.code,) * 4), LTI) if recv.ty == TF else \
                V("(LTI.ss %s.n %s.p %s.m %s.sys %s.dt)" % ((recv.code,) * 5), LTI)
        if sig is None:
            raise Unsupported("call of %s.%s, which has no generated counterpart (yet)" % key)
        params = sig["params"]
        if len(args) > len(params):
            raise Unsupported("too many arguments for %s" % name)
        given = {}
        for (pn, _), a in zip(params, args):
            given[pn] = a
        for k, a in kws.items():
            if k in given or k not in [pn for pn, _ in params]:
                raise Unsupported("keyword %s of %s" % (k, name))
            given[k] = a
        codes = []
        for pn, pt in params:          # evaluated in the order written = the order of the parameters here
            if pn in given:
                v = self.expr(given[pn], env, pre)
            elif pn in sig["defaults"]:
                v = self.expr(ast.parse(sig["defaults"][pn], mode="eval").body, env, pre)
            else:
                raise Unsupported("missing argument %s of %s" % (pn, name))
            codes.append(self.coerce(v, pt))
        order = [pn for pn, _ in params if pn in given]
        written = [pn for (pn, _), a in zip(params, args)] + list(kws)
        if order != written:
            raise Unsupported("keyword arguments of %s not in parameter order" % name)
        head = [sig["lean"]] + (["P"] if sig["P"] else []) + (["E"] if sig["E"] else [])
        return self.bind(pre, " ".join(head + [recv.code] + codes), sig["ret"])

    # -- statements ---------------------------------------------------------------------------
    def ret_lines(self, v, pre):
        want = self.job["ret"]
        if v.ty == PROP and want == BOOL:
            return pre + ["pure (decide %s)" % v.code]
        if want == DCRES and v.ty in (RARR, ARR3):
            return pre + ["pure (PyEval.DcRes.%s %s)" % ("real" if v.ty == RARR else "cplx", v.code)]
        if v.ty != want:
            raise Unsupported("returns a %s, expected %s" % (v.ty, want))
        if pre and pre[-1].startswith("let %s ← " % v.code) and v.code.startswith("t") and v.code[1:].isdigit():
            last = pre.pop()
            return pre + [last[len("let %s ← " % v.code):]]
        return pre + ["pure %s" % v.code]

    def let(self, name, v, env, pre):
        if v.ty in (SHAPE, PROP, NPCONST, IMAGOF, SHAPE1, IMAG1, JARR, CPLXTY, NONE):
            if v.ty == JARR and v.items is None:
                self.note_once("`1j * w` is `PyEval.jwArr E w`")
                v = V("(PyEval.jwArr E %s)" % v.code, PTS)
            else:
                raise Unsupported("assignment of a %s" % v.ty)
        self.locals.add(name)
        if pre and pre[-1].startswith("let %s ← " % v.code) and v.code.startswith("t") and v.code[1:].isdigit():
            last = pre.pop()
            self.ntmp -= 1
            lines = pre + ["let %s ← %s" % (name, last[len("let %s ← " % v.code):])]
        else:
            code = v.code
            if v.lit is not None:
                code = "(%d : Int)" % v.lit
            lines = pre + ["let %s : %s := %s" % (name, LEAN_TY[v.ty], code)]
        env[name] = V(name, v.ty)
        return lines

    def pack(self, live, env):
        vals = []
        for nm, t in live:
            if nm not in env:
                raise Unsupported("`%s` is not defined on every path" % nm)
            if env[nm].ty != t:
                raise Unsupported("`%s` changes its type (%s / %s)" % (nm, env[nm].ty, t))
            vals.append(env[nm].code)
        return vals[0] if len(vals) == 1 else "(" + ", ".join(vals) + ")"

    def pat(self, live):
        return live[0][0] if len(live) == 1 else "(" + ", ".join(nm for nm, _ in live) + ")"

    def tyof(self, live):
        tys = [LEAN_TY[t] for _, t in live]
        return tys[0] if len(tys) == 1 else " × ".join(tys)

    def is_warn(self, s):
        return isinstance(s, ast.Expr) and isinstance(s.value, ast.Call) and isinstance(s.value.func, ast.Name) \
            and s.value.func.id == "warn"

    def only_warns(self, stmts):
        return bool(stmts) and all(self.is_warn(s) for s in stmts)

    def warn_test_ok(self, node):
        for n in ast.walk(node):
            if isinstance(n, ast.Call) and self.dotted(n.func) not in ("np.any", "any"):
                return False
            if isinstance(n, (ast.Subscript, ast.NamedExpr, ast.Await, ast.Yield)):
                return False
        return True

    def probe(self, stmts, env):
        """static types of the names after the statements (no code kept)"""
        save = (self.ntmp, self.nloop, list(self.notes), set(self.locals))
        penv = dict(env)
        try:
            _, ended = self.seq(list(stmts), penv, [])
        finally:
            self.ntmp, self.nloop, self.notes, self.locals = save[0], save[1], save[2], save[3]
        return penv, ended

    def seq(self, stmts, env, tail):
        """translate a statement list -> (lines, ended).  `tail`: None = the block must end in return /
        raise; a list of (name, type) = the block is a branch / loop body and ends with `pure (names)`."""
        lines = []
        stmts = [s for s in stmts if not self.is_doc(s) and not isinstance(s, ast.Pass)]
        for idx, s in enumerate(stmts):
            rest = stmts[idx + 1:]
            if isinstance(s, ast.ImportFrom):
                for a in s.names:
                    self.bindings[a.asname or a.name] = ("from", s.module or "")
                continue
            if self.is_warn(s):
                self.need_from("warn", "warnings")
                self.note_once("`warn(…)` has no value: dropped")
                continue
            if isinstance(s, ast.With):
                if len(s.items) == 1 and s.items[0].optional_vars is None and isinstance(s.items[0].context_expr, ast.Call) \
                        and self.dotted(s.items[0].context_expr.func) == "np.errstate" and not s.items[0].context_expr.args \
                        and all(self.effect_free(k.value) for k in s.items[0].context_expr.keywords):
                    self.need("np", S.IMPORTS["np"])
                    self.note_once("`with np.errstate(…):` only changes how floating-point events are reported: the body "
                                   "is translated in place")
                    sub, ended = self.seq(list(s.body) + rest, env, tail)
                    return lines + sub, ended
                raise Unsupported("with statement %s" % ast.unparse(s.items[0].context_expr)[:60])
            if isinstance(s, ast.Return):
                if s.value is None:
                    raise Unsupported("bare return")
                if tail is not None and tail != []:
                    raise Unsupported("return inside a loop body or a joined branch")
                pre = []
                if self.job["ret"] == BOOL and (isinstance(s.value, (ast.Compare, ast.BoolOp))
                                                or (isinstance(s.value, ast.UnaryOp) and isinstance(s.value.op, ast.Not))):
                    st, cond = self.test(s.value, env, pre)
                    return lines + pre + ["pure (decide %s)" % cond], True
                v = self.expr(s.value, env, pre)
                return lines + self.ret_lines(v, pre), True
            if isinstance(s, ast.Raise):
                e = s.exc
                if isinstance(e, ast.Call) and isinstance(e.func, ast.Name) and e.func.id == "ValueError" \
                        and len(e.args) == 1 and isinstance(e.args[0], ast.Constant) and isinstance(e.args[0].value, str):
                    return lines + ["throw Err.%s" % classify_message(e.args[0].value)], True
                raise Unsupported("raise %s" % ast.unparse(s)[:60])
            if isinstance(s, ast.Assign) and len(s.targets) == 1:
                t = s.targets[0]
                if isinstance(t, ast.Name):
                    pre = []
                    v = self.expr(s.value, env, pre)
                    lines += self.let(t.id, v, env, pre)
                    continue
                if isinstance(t, ast.Subscript):
                    lines += self.item_assign(t, s.value, env)
                    continue
                raise Unsupported("assignment %s" % ast.unparse(s)[:60])
            if isinstance(s, ast.For):
                lines += self.for_stmt(s, env)
                continue
            if isinstance(s, ast.Try):
                lines += self.try_stmt(s, env)
                continue
            if isinstance(s, ast.If):
                if not s.orelse and self.only_warns(s.body) and self.warn_test_ok(s.test):
                    self.need_from("warn", "warnings")
                    self.note_once("`if c: warn(…)` has no value: dropped (the condition is call-free up to np.any)")
                    continue
                pre = []
                st, cond = self.test(s.test, env, pre)
                if st is True:
                    sub, ended = self.seq(list(s.body) + rest, env, tail)
                    return lines + pre + sub, ended
                if st is False:
                    sub, ended = self.seq(list(s.orelse) + rest, env, tail)
                    return lines + pre + sub, ended
                benv, b_end = self.probe(s.body, env)
                eenv, e_end = self.probe(s.orelse, env)
                if b_end or e_end:
                    b_end0, e_end0 = b_end, e_end
                    benv, eenv = dict(env), dict(env)
                    bl, b_end = self.seq(list(s.body) + ([] if b_end else rest), benv, tail)
                    el, e_end = self.seq(list(s.orelse) + ([] if e_end else rest), eenv, tail)
                    cont = benv if not b_end0 else (eenv if not e_end0 else None)
                    if cont is not None:          # the names known after the statement list
                        env.clear()
                        env.update(cont)
                    return (lines + pre + ["if %s then" % cond] + _ind(bl) + ["else"] + _ind(el)), (b_end and e_end)
                names = sorted(self.assigned(s.body) | self.assigned(s.orelse))
                live = []
                for nm in names:
                    tb, te = benv.get(nm), eenv.get(nm)
                    if tb is None or te is None:
                        continue
                    if tb.ty != te.ty:
                        raise Unsupported("`%s` has type %s / %s after the branches" % (nm, tb.ty, te.ty))
                    live.append((nm, tb.ty))
                if not live:
                    raise Unsupported("an if statement without effect")
                benv, eenv = dict(env), dict(env)
                bl, _ = self.seq(list(s.body), benv, live)
                el, _ = self.seq(list(s.orelse), eenv, live)
                lines += pre + ["let %s ← (do" % self.pat(live)] \
                    + _ind(["if %s then" % cond] + _ind(bl) + ["else"] + _ind(el)) \
                    + ["  : Except Err (%s))" % self.tyof(live)]
                for nm, t in live:
                    env[nm] = V(nm, t)
                    self.locals.add(nm)
                for nm in names:
                    if nm not in [x for x, _ in live]:
                        env.pop(nm, None)
                continue
            raise Unsupported("statement %s" % ast.unparse(s)[:60])
        if tail is None:
            raise Unsupported("a path falls off the end of the method")
        if tail == []:
            return lines, False
        return lines + ["pure %s" % self.pack(tail, env)], False

    def assigned(self, stmts):
        out = set()
        for s in stmts:
            for n in ast.walk(s):
                if isinstance(n, ast.Assign):
                    for t in n.targets:
                        x = t
                        while isinstance(x, ast.Subscript):
                            x = x.value
                        if isinstance(x, ast.Name):
                            out.add(x.id)
                elif isinstance(n, ast.For):
                    for x in ast.walk(n.target):
                        if isinstance(x, ast.Name):
                            out.add(x.id)
        return out

    def item_assign(self, t, value, env):
        """`out[i][j] = v`, `out[i, j] = v`, `out[:, :, k] = v`"""
        base, idxs = t, []
        while isinstance(base, ast.Subscript):
            idxs.insert(0, base.slice)
            base = base.value
        if not isinstance(base, ast.Name) or base.id not in env:
            raise Unsupported("assignment target %s" % ast.unparse(t)[:60])
        x = env[base.id]
        if x.ty != ARR3:
            raise Unsupported("item assignment on %s" % x.ty)
        flat = []
        for sl in idxs:
            flat += list(sl.elts) if isinstance(sl, ast.Tuple) else [sl]
        pre = []
        v = self.expr(value, env, pre)          # Python evaluates the right-hand side first
        if len(flat) == 2 and not any(isinstance(e, ast.Slice) for e in flat):
            i = self.expr(flat[0], env, pre)
            j = self.expr(flat[1], env, pre)
            if v.ty != CXL:
                raise Unsupported("row assignment of a %s" % v.ty)
            code = "PyEval.Arr3.setRow %s %s %s %s" % (x.code, self.as_int(i), self.as_int(j), v.code)
        elif len(flat) == 3 and self.is_full(flat[0]) and self.is_full(flat[1]) and not isinstance(flat[2], ast.Slice) \
                and len(idxs) == 1:
            k = self.expr(flat[2], env, pre)
            if k.ty == MASK and v.ty == CXV:
                code = "PyEval.Arr3.setMask %s %s %s" % (x.code, k.code, v.code)
            elif (k.ty in (INT, NAT) or k.lit is not None) and v.ty == MAT:
                code = "PyEval.Arr3.setSlab %s %s %s" % (x.code, self.as_int(k), v.code)
            elif (k.ty in (INT, NAT) or k.lit is not None) and v.ty == CXV:
                code = "PyEval.Arr3.setSlabConst %s %s %s" % (x.code, self.as_int(k), v.code)
            else:
                raise Unsupported("assignment %s[:, :, %s] = %s" % (base.id, k.ty, v.ty))
        else:
            raise Unsupported("assignment target %s" % ast.unparse(t)[:60])
        env[base.id] = V(base.id, ARR3)
        return pre + ["let %s ← %s" % (base.id, code)]

    def for_stmt(self, s, env):
        if s.orelse:
            raise Unsupported("for … else")
        it = s.iter
        intro = []
        self.nloop += 1
        if isinstance(it, ast.Call) and self.dotted(it.func) == "range" and len(it.args) == 1 and not it.keywords \
                and isinstance(s.target, ast.Name) and "range" not in env:
            pre = []
            n = self.expr(it.args[0], env, pre)
            if pre:
                raise Unsupported("effectful loop bound")
            elem, ety = s.target.id, "Int"
            seq_code = "(PyArith.range 0 %s)" % self.as_int(n)
            loop_vars = [(s.target.id, INT)]
        elif isinstance(it, ast.Call) and self.dotted(it.func) == "enumerate" and len(it.args) == 1 and not it.keywords \
                and isinstance(s.target, ast.Tuple) and len(s.target.elts) == 2 \
                and all(isinstance(e, ast.Name) for e in s.target.elts) and "enumerate" not in env:
            pre = []
            xs = self.expr(it.args[0], env, pre)
            if pre or xs.ty != PTS:
                raise Unsupported("enumerate of %s" % xs.ty)
            elem, ety = "it%d" % self.nloop, "Nat × K"
            seq_code = "(PyEval.enumerate %s)" % xs.code
            a, b = s.target.elts[0].id, s.target.elts[1].id
            intro = ["let %s : Nat := %s.1" % (a, elem), "let %s : K := %s.2" % (b, elem)]
            loop_vars = [(a, NAT), (b, NUM)]
        else:
            raise Unsupported("loop over %s" % ast.unparse(it)[:60])
        names = sorted(self.assigned(s.body))
        state = [(nm, env[nm].ty) for nm in names if nm in env and nm not in [x for x, _ in loop_vars]]
        if not state:
            raise Unsupported("a loop without effect")
        benv = dict(env)
        for nm, t in loop_vars:
            if nm in env:
                raise Unsupported("loop variable `%s` shadows a name" % nm)
            benv[nm] = V(nm, t)
            self.locals.add(nm)
        acc = "s%d" % self.nloop
        unpack = []
        if len(state) == 1:
            acc = state[0][0]
        else:
            for k, (nm, t) in enumerate(state):
                proj = ".1" if k == 0 else ".2" * k + (".1" if k < len(state) - 1 else "")
                unpack.append("let %s : %s := %s%s" % (nm, LEAN_TY[t], acc, proj))
        bl, ended = self.seq(list(s.body), benv, state)
        if ended:
            raise Unsupported("a loop body that always leaves the loop")
        ty = self.tyof(state)
        lines = ["let %s ← List.foldlM (fun (%s : %s) (%s : %s) => ((do" % (self.pat(state), acc, ty, elem, ety)] \
            + _ind(intro + unpack + bl, 4) + ["    : Except Err (%s)))) %s %s" % (ty, self.pack(state, env), seq_code)]
        for nm, t in state:
            env[nm] = V(nm, t)
        for nm in names:
            if nm not in [x for x, _ in state]:
                env.pop(nm, None)          # loop-local names are not available afterwards
        for nm, _ in loop_vars:
            env.pop(nm, None)
        return lines

    def catches(self, h):
        """Lean Bool code (in terms of `e`) for "the handler catches the exception e" """
        if h.type is None:
            return "true"
        types = h.type.elts if isinstance(h.type, ast.Tuple) else [h.type]
        parts = []
        for t in types:
            nm = ast.unparse(t)
            if nm in ("Exception", "BaseException"):
                return "true"
            if nm in ("LinAlgError", "np.linalg.LinAlgError"):
                if nm == "LinAlgError":
                    self.need_from("LinAlgError", "numpy.linalg")
                parts.append("PySS.isLinAlgError e")
            elif nm == "ImportError":
                parts.append("PyEval.isImportError e")
            elif nm == "ValueError":
                parts.append("PySS.isValueError e")
            else:
                raise Unsupported("except %s" % nm)
        return " || ".join(parts) if len(parts) > 1 else parts[0]

    def try_stmt(self, s, env):
        if s.orelse or s.finalbody or len(s.handlers) != 1:
            raise Unsupported("try statement shape")
        h = s.handlers[0]
        if h.name is not None:
            raise Unsupported("except … as name")
        body = [x for x in s.body if not self.is_doc(x)]
        # partial effects: names that exist before may only be re-bound by the last statement of the body
        before = set(env)
        for x in body[:-1]:
            if self.assigned([x]) & before:
                raise Unsupported("try body re-binds `%s` before its last statement"
                                  % sorted(self.assigned([x]) & before)[0])
        benv, b_end = self.probe(body, env)
        henv, h_end = self.probe(h.body, env)
        if b_end:
            raise Unsupported("try body that always returns")
        names = sorted(self.assigned(body) | self.assigned(h.body))
        live = []
        for nm in names:
            tb, th = benv.get(nm), (henv.get(nm) if not h_end else benv.get(nm))
            if tb is None or th is None:
                continue
            if tb.ty != th.ty:
                raise Unsupported("`%s` has type %s / %s after try / except" % (nm, tb.ty, th.ty))
            live.append((nm, tb.ty))
        if not live:
            raise Unsupported("a try statement without effect")
        benv, henv = dict(env), dict(env)
        bl, _ = self.seq(body, benv, live)
        if h_end:
            hl, _ = self.seq(list(h.body), henv, None)
        else:
            hl, _ = self.seq(list(h.body), henv, live)
        cond = self.catches(h)
        ty = self.tyof(live)
        lines = ["let %s ← (match ((do" % self.pat(live)] + _ind(bl, 4) + ["    : Except Err (%s))) with" % ty,
                                                                           "  | .ok v => pure v"]
        if cond == "true":
            lines += ["  | .error _ => (do"] + _ind(hl, 6) + ["      : Except Err (%s)))" % ty]
        else:
            lines += ["  | .error e => (if (%s) = true then (do" % cond] + _ind(hl, 6) \
                + ["      : Except Err (%s)) else throw e))" % ty]
        for nm, t in live:
            env[nm] = V(nm, t)
            self.locals.add(nm)
        for nm in names:
            if nm not in [x for x, _ in live]:
                env.pop(nm, None)
        return lines


# -------------------------------------------------------------------------------------------------
# jobs
#   cls / func : the method;  recv : static type of `self` (TF | SS | LTI = one arm per kind)
#   params     : [(python name, static type)] after self;  defaults : expected default texts
#   ret        : static type of the result;  P / E : does the Lean function take `P : Parts K` / `E : Env K`
# -------------------------------------------------------------------------------------------------
JOBS = [
    dict(rel="control/xferfcn.py", cls="TransferFunction", func="horner", lean="tfHorner", recv=TF,
         params=[("x", XARG), ("warn_infinite", BOOL)], defaults={"warn_infinite": "True"}, ret=ARR3, P=True, E=False,
         out="EvalTF.lean"),
    dict(rel="control/statesp.py", cls="StateSpace", func="_has_zero_at", lean="ssHasZeroAt", recv=SS,
         params=[("x", NUM)], defaults={}, ret=BOOL, P=False, E=False, out="EvalSSZero.lean"),
    dict(rel="control/statesp.py", cls="StateSpace", func="horner", lean="ssHorner", recv=SS,
         params=[("x", XARG), ("warn_infinite", BOOL)], defaults={"warn_infinite": "True"}, ret=ARR3, P=True, E=False,
         out="EvalSS.lean"),
    dict(rel="control/xferfcn.py", cls="TransferFunction", func="__call__", lean="tfCall", recv=TF,
         params=[("x", XARG), ("squeeze", SQ), ("warn_infinite", BOOL)],
         defaults={"squeeze": "None", "warn_infinite": "True"}, ret=ARR3, P=True, E=False, out="EvalCall.lean"),
    dict(rel="control/statesp.py", cls="StateSpace", func="__call__", lean="ssCall", recv=SS,
         params=[("x", XARG), ("squeeze", SQ), ("warn_infinite", BOOL)],
         defaults={"squeeze": "None", "warn_infinite": "True"}, ret=ARR3, P=True, E=False, out="EvalCall.lean"),
    dict(rel="control/lti.py", cls="LTI", func="_dcgain", lean="ltiDcgain", recv=LTI,
         params=[("warn_infinite", BOOL)], defaults={}, ret=DCRES, P=True, E=False, out="EvalDc.lean"),
    dict(rel="control/xferfcn.py", cls="TransferFunction", func="dcgain", lean="tfDcgain", recv=TF,
         params=[("warn_infinite", BOOL)], defaults={"warn_infinite": "False"}, ret=DCRES, P=True, E=False,
         out="EvalDc.lean"),
    dict(rel="control/statesp.py", cls="StateSpace", func="dcgain", lean="ssDcgain", recv=SS,
         params=[("warn_infinite", BOOL)], defaults={"warn_infinite": "False"}, ret=DCRES, P=True, E=False,
         out="EvalDc.lean"),
    dict(rel="control/lti.py", cls="LTI", func="frequency_response", lean="ltiFrequencyResponse", recv=LTI,
         params=[("omega", QLIST), ("squeeze", SQ)], defaults={"omega": "None", "squeeze": "None"}, ret=FRESP,
         P=True, E=True, out="EvalFreq.lean"),
    dict(rel="control/xferfcn.py", cls="TransferFunction", func="freqresp", lean="tfFreqresp", recv=TF,
         params=[("omega", QLIST)], defaults={}, ret=FRESP, P=True, E=True, out="EvalFreq.lean"),
    dict(rel="control/statesp.py", cls="StateSpace", func="freqresp", lean="ssFreqresp", recv=SS,
         params=[("omega", QLIST)], defaults={}, ret=FRESP, P=True, E=True, out="EvalFreq.lean"),
]
FILES = [("EvalTF.lean", []), ("EvalSSZero.lean", []), ("EvalSS.lean", ["EvalSSZero"]),
         ("EvalCall.lean", ["EvalTF", "EvalSS"]), ("EvalDc.lean", ["EvalCall", "DtPred"]),
         ("EvalFreq.lean", ["EvalCall", "DtPred"])]
CLS_OF = {TF: "TransferFunction", SS: "StateSpace", LTI: "LTI"}
KINDS = [("tf", TF, "| .tf p m e dt =>", ["let self : DTF K := ⟨p, m, ⟨e⟩, dt⟩"]),
         ("ss", SS, "| .ss n p m G dt =>", ["let self : DSS K := ⟨n, p, m, G, dt⟩"])]


def find_method(module, cls, func):
    return S.find_method(module, cls, func)


def signature(job):
    recv = LEAN_TY[job["recv"]]
    return ("(P : Eval.Parts K) " if job["P"] else "") + ("(E : Env K) " if job["E"] else "") \
        + "(self : %s)" % recv + "".join(" (%s : %s)" % (n, LEAN_TY[t]) for n, t in job["params"])


def sig_of(job):
    return {"lean": job["lean"], "params": job["params"], "defaults": job["defaults"], "ret": job["ret"],
            "P": job["P"], "E": job["E"]}


def translate(src, module, bindings, job, available):
    fn = find_method(module, job["cls"], job["func"])
    a = fn.args
    if a.vararg or a.kwarg or a.kwonlyargs or a.posonlyargs:
        raise Unsupported("signature")
    got = [x.arg for x in a.args]
    want = ["self"] + [n for n, _ in job["params"]]
    if got != want:
        raise Unsupported("parameters %s, expected %s" % (got, want))
    defaults = dict(zip(got[len(got) - len(a.defaults):], [ast.unparse(d) for d in a.defaults]))
    if defaults != job["defaults"]:
        raise Unsupported("default values %s, expected %s" % (defaults, job["defaults"]))
    text = ast.get_source_segment(src, fn)
    sha = hashlib.sha256(text.encode()).hexdigest()
    notes, ntmp = [], 0
    job = dict(job, cls_of=CLS_OF)

    def one(recv_ty, avail):
        tr = Tr(job, bindings, avail)
        env = {"self": V("self", recv_ty)}
        for n, t in job["params"]:
            env[n] = V(n, t)
        lines, _ = tr.seq(fn.body, env, None)
        return lines, tr

    if job["recv"] in (TF, SS):
        avail = dict(available)
        lines, tr = one(job["recv"], avail)
        body = ["do"] + _ind(lines)
        notes += tr.notes
        ntmp = tr.ntmp
    else:
        body = ["match self with"]
        for kname, kty, arm, intro in KINDS:
            avail = dict(available)
            lines, tr = one(kty, avail)
            body += [arm + " do"] + _ind(intro + lines)
            notes += ["%s: %s" % (kname, n) for n in tr.notes if "%s: %s" % (kname, n) not in notes]
            ntmp = max(ntmp, tr.ntmp)
    where = "%s:%s.%s" % (job["rel"], job["cls"], job["func"])
    doc = ("/-- `%s` as the source text says it (sha256 of the function text\n%s).\nDefaults: %s.%s -/\n" % (
        where, sha, ", ".join("%s=%s" % kv for kv in sorted(defaults.items())) or "none",
        "".join("\n  note: " + n.replace("-/", "- /") for n in notes)))
    lean = doc + "def %s %s :\n    Except Err (%s) :=\n" % (job["lean"], signature(job), LEAN_TY[job["ret"]]) \
        + "\n".join(_ind(body)) + "\n"
    return lean, {"sha": sha, "lines": fn.end_lineno - fn.lineno + 1, "temporaries": ntmp, "notes": notes}


def regenerate(repo, lean_dir, only=None):
    """Rewrite Generated/Eval*.lean (and Generated/DtPred.lean, which EvalDc / EvalFreq import, through
    py2lean_select); returns (list of problems, info dict).  Deterministic, rewritten only when changed."""
    problems, info = [], {}
    gen_dir = os.path.join(lean_dir, "CtrlVerif", "Generated")
    os.makedirs(gen_dir, exist_ok=True)
    try:
        from core import py2lean_select
        p0, _ = py2lean_select.regenerate(repo, lean_dir, "C05")      # isctime / isdtime of the same tree
        problems += [p for p in p0 if "isctime" in p or "isdtime" in p]
    except Exception as e:                                             # pragma: no cover
        problems.append("py2lean_eval: Generated/DtPred.lean could not be regenerated: %s" % e)
    mods = {}
    for rel in sorted({j["rel"] for j in JOBS}):
        try:
            src = open(os.path.join(repo, rel)).read()
            module = ast.parse(src)
            mods[rel] = (src, module, S.module_bindings(module), None)
        except (OSError, SyntaxError) as e:
            mods[rel] = (None, None, None, str(e))
    available = {}
    texts = {out: [] for out, _ in FILES}
    for job in JOBS:
        where = "%s:%s.%s" % (job["rel"], job["cls"], job["func"])
        src, module, bindings, err = mods[job["rel"]]
        try:
            if err:
                raise Unsupported(err)
            lean, inf = translate(src, module, bindings, job, available)
            info[where] = inf
        except Unsupported as e:
            msg = str(e).replace("\n", " ").replace("-/", "- /")[:300]
            problems.append("py2lean_eval: %s cannot be translated: %s" % (where, msg))
            sg = signature(job)
            for n in ["P", "E", "self"] + [n for n, _ in job["params"]]:
                sg = sg.replace("(%s :" % n, "(_%s :" % n)
            lean = "/-- translation of `%s` FAILED: %s -/\ndef %s %s :\n    Except Err (%s) :=\n  .error Err.notImplemented\n" % (
                where, msg, job["lean"], sg, LEAN_TY[job["ret"]])
        available[(job["cls"], job["func"])] = sig_of(job)
        texts[job["out"]].append(lean)
    for out, deps in FILES:
        if only and out not in only:
            continue
        shas = ", ".join("%s.%s %s" % (j["cls"], j["func"],
                                       info["%s:%s.%s" % (j["rel"], j["cls"], j["func"])]["sha"][:16]
                                       if "%s:%s.%s" % (j["rel"], j["cls"], j["func"]) in info else "FAILED")
                         for j in JOBS if j["out"] == out)
        text = ("-- GENERATED on every run by harness/core/py2lean_eval.py from the source text of the tree under check (%s).  Do not edit.\n" % shas
                + "import CtrlVerif.Model.PyEval\n"
                + "".join("import CtrlVerif.Generated.%s\n" % d for d in deps)
                + "\nset_option linter.unusedVariables false\n"
                + "\nnamespace CtrlVerif.Generated\n\nopen CtrlVerif\n\nnoncomputable section\n\n"
                + "variable {K : Type} [Field K] [DecidableEq K]\n\n"
                + "\n".join(texts[out]) + "\nend\n\nend CtrlVerif.Generated\n")
        p = os.path.join(gen_dir, out)
        old = open(p).read() if os.path.exists(p) else None
        if old != text:
            with open(p, "w") as f:
                f.write(text)
    return problems, info


if __name__ == "__main__":
    import sys
    probs, inf = regenerate(sys.argv[1], sys.argv[2])
    for p in probs:
        print("PROBLEM", p)
    for k, v in inf.items():
        print(k, v["sha"][:16], v["lines"], "lines,", v["temporaries"], "temporaries", v["notes"])
