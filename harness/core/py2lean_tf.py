"""Fourth translator Python `ast` -> Lean 4 (DESIGN §10.3 / notes/NOTES-py2lean-tf.md): the ARITHMETIC
METHODS of `class TransferFunction` (control/xferfcn.py) — `__neg__`, `_add_siso`, `__add__`, `__radd__`,
`__sub__`, `__rsub__`, `__mul__`, `__rmul__`, `__truediv__`, `__rtruediv__`, `__pow__`, `feedback` — and the core
of its constructor: `_truncatecoeff` and the zero-denominator / zero-numerator loop of `__init__`.
It regenerates `lean/CtrlVerif/Generated/TF*.lean` from the source text of the tree the check runs
against on every run of the C01 check; `Props/C01Gen*.lean` prove the run-time layer of the
hand-written model (`Model/TFDyn.lean`: `DTF.neg / add / sub / rsub / mul / rmul / truediv / rtruediv
/ pow / feedback`; `Model/TF.lean`: the constructor `TFM.mk'`) EQUAL to the generated functions, so a
semantic edit of a method breaks a proof obligation and an edit that leaves the supported subset makes the
translation fail (the emitted definition is then `.error Err.notImplemented`, which cannot equal the model).

Value model (meaning of every primitive fixed in `lean/CtrlVerif/Model/PyTF.lean`, hand-written, trusted)
  TransferFunction object -> `DTF K` (TF);  operand of unknown class -> `PyTF.Operand K` (OPND: tf | ss |
  scalar | array | foreign);  Python int -> `Int`;  float / NumPy scalar -> `K` (exact field arithmetic);
  timebase -> `Dt`;  coefficient array -> `List K` (POLY);  2-D object array of coefficient arrays ->
  `PyTF.PolyArr K` (POLYARR);  list of coefficient arrays -> `List (List K)` (LISTPOLY);  list of 2-D arrays ->
  `List (PyTF.PolyArr K)` (LISTARR);  bool -> `Bool`;  None-able int -> `Option Int`;  the exponent of `**` ->
  `PyTF.Exponent` (EXPO).  The body becomes one term of `Except Err T`.

Supported subset (anything else raises `Unsupported`)
  statements  docstring, `pass`, `from .statesp import StateSpace`, `x = e`, `a[i, j] = e`, `a[i][j] = e`,
              `xs[k] = e`, `data[p][i][j] = e`, tuple targets of these for a pair-valued right-hand side,
              `a[i, j] *= c`, `if / elif / else` (also re-binding `self` / `other`), `raise E("..." % (...))`,
              `return e`, `return e1, e2`, `return NotImplemented`,
              `for i in range(n): ...`, `for c in poly: ...` (-> `List.foldlM` with the tuple of re-assigned
              variables as state; no continue / return inside), `break` as the last statement of an `if` that
              is the last statement of the loop body (-> a Bool component of the state; once set the body is
              skipped), `[self.num_array, self.den_array] = data` as the last statement (the method's result)
  tests       `isinstance(x, C)` / `isinstance(x, (C, ...))` / `not isinstance(...)` on a variable holding an
              operand (-> a `match` on the operand kind; in each arm the variable has the narrowed type and all
              later `isinstance` tests of it are decided statically), `not type(n) == int` on the exponent,
              `x is None` on a None-able int (-> `match`), `x.issiso()`, comparisons of ints, the truth value of
              a float (`!= 0`) or bool, `np.any(c)` of a float, `not / and / or` of effect-free tests
  expressions `x.ninputs`, `x.noutputs`, `x.dt`, `x.num_array`, `x.den_array`, `x.num`, `x.den`, `a[i, j]`,
              `a[i][j]`, `xs[k]`, `poly[k]`, `poly[n:]`, `poly.size`, `len(xs)`, int / bool / None / list literals,
              `[[] for k in range(n)]`, `[self.num_array, self.den_array]`, `+ -` on ints, `c * poly`,
              `poly * c`, `-c`, `zeros(n)`, `ones(n)` (literal n),
              and the FIXED primitives (import / binding of each name is checked):
              `_convert_to_transfer_function(x[, inputs=, outputs=])`, `_create_poly_array((a, b)[, default])`,
              `polymul`, `polyadd` (numpy), `common_timebase`, `TransferFunction(num, den[, dt])`,
              `np.ones((a, b)) * g`, `np.eye(n) * c`, `bdalg.append(*([g] * n))`, `deepcopy`,
              calls of `_add_siso`, and the operators between transfer functions `g * h`, `g / h`, `g ** n`,
              `g + x`, `-g`, `-x`, `x + g` (-> the generated method of the same run).
Aliasing: a list of arrays holds the array objects; a field of `self` that went into such a list must not be
read again in the function (`Unsupported`), so value semantics and reference semantics agree.
A job may select ONE statement of a function (`__init__`: the loop over `range(self.noutputs)`); the variables
it works on and the fields of `self` it reads become arguments, the variables are the result.
Evaluation order: effectful sub-expressions are bound left to right in Python's order.
Parameter defaults are compared with the ones the job expects.  The sha256 of the function text is in
the generated file.  Output is deterministic and rewritten only when changed.
"""
import ast
import hashlib
import os

from core.py2lean import Unsupported
from core.py2lean_arith import Val, _paren, _ind, _proj, Translator as _ArithTranslator


def _do(items):
    """a `do` sequence as one parenthesised term.  An item `BINDH x h := e` (used inside the mutually
    recursive group, where the termination proof needs to know where `x` came from) becomes
    `match h : e with | .error err => .error err | .ok x => <rest>`."""
    for i, it in enumerate(items):
        if it.startswith("BINDH "):
            x, h = it.split(" ", 3)[1:3]
            e = it.split(" := ", 1)[1]
            rest = _do(items[i + 1:])
            m = "match %s : (%s) with\n| .error err => .error err\n| .ok %s =>\n%s" % (h, e, x, _ind(rest, 2))
            return _do(items[:i] + [m])
    if len(items) == 1:
        return items[0] if items[0].startswith("(") else "(" + items[0] + ")"
    return "(do\n" + _ind("\n".join(items), 2) + ")"

TF, OPND, SCALAR, INT, DT, POLY, POLYARR, LISTPOLY, PROP, EXPO, PAIR = (
    "TF", "OPND", "K", "Int", "Dt", "POLY", "POLYARR", "LISTPOLY", "Prop", "EXPO", "PAIR")
BOOL, OPTINT, LISTARR, PAIRARR, FIELDS = "BOOL", "OPTINT", "LISTARR", "PAIRARR", "FIELDS"
O_SS, O_ARRAY, O_OTHER, E_NOTINT = "OPND:ss", "OPND:array", "OPND:other", "EXPO:notInt"
LEAN_TY = {TF: "DTF K", OPND: "PyTF.Operand K", SCALAR: "K", INT: "Int", DT: "Dt", POLY: "List K",
           POLYARR: "PyTF.PolyArr K", LISTPOLY: "List (List K)", EXPO: "PyTF.Exponent",
           PAIR: "(List K × List K)", O_SS: "PyTF.Operand K", O_ARRAY: "PyTF.Operand K",
           O_OTHER: "PyTF.Operand K", E_NOTINT: "PyTF.Exponent", BOOL: "Bool", OPTINT: "Option Int",
           LISTARR: "List (PyTF.PolyArr K)", PAIRARR: "(PyTF.PolyArr K × PyTF.PolyArr K)"}
OPERANDISH = (TF, SCALAR, OPND, O_SS, O_ARRAY, O_OTHER)
# operand kinds and the classes `isinstance` may name for them
KINDS = ("tf", "ss", "scalar", "array", "other")
KIND_TY = {"tf": TF, "ss": O_SS, "scalar": SCALAR, "array": O_ARRAY, "other": O_OTHER}
TY_KIND = {v: k for k, v in KIND_TY.items()}
RESERVED = {"end", "at", "from", "fun", "open", "do", "then", "else", "if", "let", "have", "show", "match",
            "with", "where", "in", "by", "def", "theorem", "namespace", "section", "variable", "import",
            "instance", "structure", "class", "inductive", "mutual", "private", "protected", "return",
            "for", "unless", "try", "catch", "finally", "macro", "syntax", "notation", "universe", "deriving",
            "Type", "Prop", "Sort", "K", "t"}


def _tuple_ty(tys):
    return " × ".join(LEAN_TY[t] for t in tys) if tys else "Unit"


class Translator:
    def __init__(self, job, module, cls):
        self.job = job
        self.module = module
        self.cls = cls              # the ClassDef of TransferFunction
        self.ntmp = 0
        self.names = set()
        self.local_ss = False       # `from .statesp import StateSpace` seen in the body
        self.moved = set()          # fields of self whose array objects are now aliased by a list
        self.loop_brk = []          # break flags of the enclosing loops
        self.result_done = False

    # -- helpers ---------------------------------------------------------------------------------
    def fresh(self):
        self.ntmp += 1
        nm = "t%d" % self.ntmp
        if nm in self.names:
            raise Unsupported("the name %s is reserved for temporaries" % nm)
        return nm

    def check_import(self, name, module_name):
        return _ArithTranslator.check_import(self, name, module_name)

    def check_local_function(self, name):
        return _ArithTranslator.check_local_function(self, name)

    def check_numpy(self, alias):
        return _ArithTranslator.check_numpy(self, alias)

    def check_relative_import(self, name, module_name, level=1):
        """`name` is bound at module level by `from .<module_name> import name` (or `from . import name`
        when module_name is None) and by nothing else"""
        ok = False
        for node in self.module.body:
            if isinstance(node, ast.ImportFrom) and node.level == level and node.module == module_name:
                for a in node.names:
                    if (a.asname or a.name) == name:
                        ok = a.name == name
            elif isinstance(node, (ast.FunctionDef, ast.ClassDef)) and node.name == name:
                return False
            elif isinstance(node, ast.Assign):
                for t in node.targets:
                    if isinstance(t, ast.Name) and t.id == name:
                        return False
            elif isinstance(node, (ast.Import, ast.ImportFrom)):
                for a in node.names:
                    if (a.asname or a.name.split(".")[0]) == name:
                        return False
        return ok

    def check_class(self):
        """`TransferFunction` is bound at module level by the one class and nothing else"""
        n = 0
        for node in self.module.body:
            if isinstance(node, ast.ClassDef) and node.name == "TransferFunction":
                n += 1
            elif isinstance(node, ast.FunctionDef) and node.name == "TransferFunction":
                return False
            elif isinstance(node, ast.Assign):
                for t in node.targets:
                    if isinstance(t, ast.Name) and t.id == "TransferFunction":
                        return False
            elif isinstance(node, (ast.Import, ast.ImportFrom)):
                for a in node.names:
                    if (a.asname or a.name.split(".")[0]) == "TransferFunction":
                        return False
        return n == 1

    def class_defines(self, name):
        for node in self.cls.body:
            if isinstance(node, ast.FunctionDef) and node.name == name:
                return True
        return False

    def unshadowed(self, name, env):
        """a builtin / module-level name that the function has not re-bound"""
        if name in env or name in self.names_assigned:
            return False
        for node in self.module.body:
            if isinstance(node, (ast.FunctionDef, ast.ClassDef)) and node.name == name:
                return False
            if isinstance(node, ast.Assign):
                for t in node.targets:
                    if isinstance(t, ast.Name) and t.id == name:
                        return False
            if isinstance(node, (ast.Import, ast.ImportFrom)):
                for a in node.names:
                    if (a.asname or a.name.split(".")[0]) == name:
                        return False
        return True

    @staticmethod
    def join_ty(a, b):
        if a == b:
            return a
        if a in OPERANDISH and b in OPERANDISH:
            return OPND
        if {a, b} == {EXPO, E_NOTINT}:
            return EXPO
        if {a, b} == {INT, SCALAR}:
            return SCALAR
        return None

    def cast(self, v, ty):
        if v.ty == ty:
            return v
        if ty == OPND:
            if v.ty == TF:
                return Val("(PyTF.Operand.tf %s)" % v.code, OPND)
            if v.ty == SCALAR:
                return Val("(PyTF.Operand.scalar %s)" % v.code, OPND)
            if v.ty in (O_SS, O_ARRAY, O_OTHER):
                return Val(v.code, OPND)
        if ty == EXPO and v.ty == E_NOTINT:
            return Val(v.code, EXPO)
        if ty == EXPO and v.ty == INT:
            return Val("(PyTF.Exponent.int %s)" % v.code, EXPO)
        if ty == SCALAR and v.ty == INT:
            if v.lit is not None:
                return Val("(%d : K)" % v.lit, SCALAR)
            return Val("((%s : Int) : K)" % v.code, SCALAR)
        raise Unsupported("a value of type %s where %s is needed" % (v.ty, ty))

    def gen(self, op):
        """the generated method an operator between transfer functions dispatches to"""
        ops = self.job.get("ops", {})
        if op not in ops:
            raise Unsupported("operator method %s is not available to this function" % op)
        return ops[op]

    # -- class names in isinstance ---------------------------------------------------------------
    def class_kinds(self, node, env):
        """set of operand kinds an `isinstance` class expression accepts"""
        if isinstance(node, ast.Tuple):
            out = set()
            for e in node.elts:
                out |= self.class_kinds(e, env)
            return out
        if isinstance(node, ast.Name):
            nm = node.id
            if nm == "TransferFunction":
                if nm in env or not self.check_class():
                    raise Unsupported("TransferFunction is re-bound")
                return {"tf"}
            if nm == "StateSpace":
                if nm in env:
                    raise Unsupported("StateSpace is re-bound")
                if not (self.local_ss or self.check_relative_import("StateSpace", "statesp")):
                    raise Unsupported("StateSpace is not `from .statesp import StateSpace`")
                return {"ss"}
            if nm in ("int", "float", "complex"):
                if not self.unshadowed(nm, env):
                    raise Unsupported("%s is re-bound" % nm)
                return {"scalar"}
            if nm == "ndarray" and self.check_import("ndarray", "numpy") and nm not in env:
                return {"array"}
            raise Unsupported("isinstance class %s" % nm)
        if isinstance(node, ast.Attribute) and isinstance(node.value, ast.Name) \
                and node.value.id not in env and self.check_numpy(node.value.id):
            if node.attr == "number":
                return {"scalar"}
            if node.attr == "ndarray":
                return {"array"}
        raise Unsupported("isinstance class %s" % ast.unparse(node)[:60])

    def kind_test(self, test, env):
        """`isinstance(x, C)` / `not isinstance(x, C)` / `type(x) == int` / `not type(x) == int` on a
        variable -> (variable, set of accepted kinds, negated) or None"""
        neg = False
        while isinstance(test, ast.UnaryOp) and isinstance(test.op, ast.Not):
            neg = not neg
            test = test.operand
        if isinstance(test, ast.Call) and isinstance(test.func, ast.Name) and test.func.id == "isinstance" \
                and self.unshadowed("isinstance", env) and len(test.args) == 2 and not test.keywords \
                and isinstance(test.args[0], ast.Name):
            x = test.args[0].id
            if env.get(x) not in OPERANDISH:
                raise Unsupported("isinstance test of %s, which holds a %s" % (x, env.get(x)))
            return x, self.class_kinds(test.args[1], env), neg
        if isinstance(test, ast.Compare) and len(test.ops) == 1 and isinstance(test.ops[0], (ast.Eq, ast.Is)) \
                and isinstance(test.left, ast.Call) and isinstance(test.left.func, ast.Name) \
                and test.left.func.id == "type" and self.unshadowed("type", env) \
                and len(test.left.args) == 1 and isinstance(test.left.args[0], ast.Name) \
                and isinstance(test.comparators[0], ast.Name) and test.comparators[0].id == "int" \
                and self.unshadowed("int", env):
            x = test.left.args[0].id
            if env.get(x) not in (EXPO, INT, E_NOTINT):
                raise Unsupported("type test of %s, which holds a %s" % (x, env.get(x)))
            return x, {"int"}, neg
        return None

    def static_test(self, test, env):
        """True / False when the test is decided by the (narrowed) type of the variable, else None"""
        kt = self.kind_test(test, env)
        if kt is None:
            return None
        x, kinds, neg = kt
        t = env[x]
        if t in (OPND, EXPO):
            return None
        k = {INT: "int", E_NOTINT: "notInt"}.get(t) or TY_KIND[t]
        return (k in kinds) != neg

    # -- expressions -----------------------------------------------------------------------------
    def expr(self, node, env, binds):
        if isinstance(node, ast.Constant):
            v = node.value
            if type(v) is int:
                return Val(str(v) if v >= 0 else "(%d)" % v, INT, lit=v)
            if v is True or v is False:
                return Val("true" if v else "false", BOOL)
            if v is None:
                return Val("(none : Option Int)", OPTINT)
            raise Unsupported("constant %r" % (v,))
        if isinstance(node, ast.Name):
            t = env.get(node.id)
            if t is None or t not in LEAN_TY:
                raise Unsupported("variable %s may be unbound here (or holds a %s)" % (node.id, t))
            return Val(node.id, t)
        if isinstance(node, ast.Attribute) and isinstance(node.value, ast.Name) \
                and env.get(node.value.id) == FIELDS:
            fields = dict(self.job.get("fields", []))
            if node.attr not in fields:
                raise Unsupported("attribute %s (not available to this function)" % ast.unparse(node))
            if node.attr in self.moved:
                raise Unsupported("%s is read after its array was put into a list that is modified in place"
                                  % ast.unparse(node))
            return Val("self_" + node.attr, fields[node.attr])
        if isinstance(node, ast.Attribute) and node.attr == "size":
            v = self.expr(node.value, env, binds)
            if v.ty != POLY:
                raise Unsupported("size of a %s" % v.ty)
            return Val("((List.length %s : Nat) : Int)" % v.code, INT)
        if isinstance(node, ast.Attribute):
            v = self.expr(node.value, env, binds)
            if v.ty != TF:
                raise Unsupported("attribute %s of a %s" % (node.attr, v.ty))
            a = node.attr
            if a in ("ninputs", "noutputs"):
                return Val("(PyTF.%s %s)" % (a, v.code), INT)
            if a == "dt":
                return Val("%s.dt" % _paren(v.code), DT)
            if a in ("num_array", "num"):
                return Val("(PyTF.numArray %s)" % v.code, POLYARR)
            if a in ("den_array", "den"):
                return Val("(PyTF.denArray %s)" % v.code, POLYARR)
            raise Unsupported("attribute %s" % ast.unparse(node))
        if isinstance(node, ast.UnaryOp) and isinstance(node.op, ast.USub):
            v = self.expr(node.operand, env, binds)
            if v.ty == INT:
                if v.lit is not None:
                    return Val("(%d)" % (-v.lit), INT, lit=-v.lit)
                return Val("(-%s)" % v.code, INT)
            if v.ty == SCALAR:
                return Val("(-%s)" % v.code, SCALAR)
            if v.ty == TF:
                t = self.fresh()
                binds.append("let %s ← %s %s" % (t, self.gen("neg"), v.code))
                return Val(t, TF)
            if v.ty in OPERANDISH:
                t = self.fresh()
                binds.append("let %s ← PyTF.negOperand %s %s" % (t, self.gen("neg"), self.cast(v, OPND).code))
                return Val(t, OPND)
            raise Unsupported("negation of a %s" % v.ty)
        if isinstance(node, ast.UnaryOp) and isinstance(node.op, ast.Not):
            v = self.expr(node.operand, env, binds)
            if v.ty == BOOL:
                v = Val("(%s = true)" % v.code, PROP)
            elif v.ty == SCALAR:
                v = Val("(%s ≠ 0)" % v.code, PROP)
            if v.ty != PROP:
                raise Unsupported("`not` of a %s" % v.ty)
            return Val("(¬ %s)" % v.code, PROP)
        if isinstance(node, ast.BoolOp):
            vs = []
            for i, x in enumerate(node.values):
                b = [] if i else binds
                v = self.expr(x, env, b)
                if i and b:
                    raise Unsupported("an operand of and/or after the first that can fail: %s" % ast.unparse(x)[:60])
                if v.ty != PROP:
                    raise Unsupported("and/or of a %s" % v.ty)
                vs.append(v.code)
            return Val("(" + (" ∧ " if isinstance(node.op, ast.And) else " ∨ ").join(vs) + ")", PROP)
        if isinstance(node, ast.Compare):
            return self.compare(node, env, binds)
        if isinstance(node, ast.BinOp):
            return self.binop(node, env, binds)
        if isinstance(node, ast.List):
            items = [self.expr(x, env, binds) for x in node.elts]
            if items and all(x.ty == POLYARR for x in items):
                for x in node.elts:         # the list holds the array OBJECTS: later in-place changes alias
                    if isinstance(x, ast.Attribute) and isinstance(x.value, ast.Name) \
                            and env.get(x.value.id) == FIELDS:
                        self.moved.add(x.attr)
                    else:
                        raise Unsupported("a list of arrays that are not fields of self")
                return Val("[%s]" % ", ".join(x.code for x in items), LISTARR)
            if not items or any(x.ty not in (INT, SCALAR) for x in items):
                raise Unsupported("list %s" % ast.unparse(node)[:60])
            return Val("([%s] : List K)" % ", ".join(self.cast(x, SCALAR).code for x in items), POLY)
        if isinstance(node, ast.ListComp):
            return self.listcomp(node, env, binds)
        if isinstance(node, ast.Subscript) and isinstance(node.ctx, ast.Load):
            return self.subscript(node, env, binds)
        if isinstance(node, ast.Call):
            return self.call(node, env, binds)
        raise Unsupported("expression %s" % ast.unparse(node)[:80])

    def compare(self, node, env, binds):
        if len(node.ops) != 1:
            raise Unsupported("chained comparison")
        a = self.expr(node.left, env, binds)
        b = self.expr(node.comparators[0], env, binds)
        if a.ty != INT or b.ty != INT:
            raise Unsupported("comparison of %s and %s" % (a.ty, b.ty))
        op = node.ops[0]
        fmt = {ast.Lt: "(%s < %s)", ast.LtE: "(%s ≤ %s)", ast.Eq: "(%s = %s)", ast.NotEq: "(%s ≠ %s)"}
        if type(op) in fmt:
            return Val(fmt[type(op)] % (a.code, b.code), PROP)
        if isinstance(op, ast.Gt):
            return Val("(%s < %s)" % (b.code, a.code), PROP)
        if isinstance(op, ast.GtE):
            return Val("(%s ≤ %s)" % (b.code, a.code), PROP)
        raise Unsupported("comparison %s" % type(op).__name__)

    def np_call(self, node, env, attr):
        """`np.<attr>(...)` with np = numpy and not re-bound"""
        return isinstance(node, ast.Call) and isinstance(node.func, ast.Attribute) and node.func.attr == attr \
            and isinstance(node.func.value, ast.Name) and node.func.value.id not in env \
            and self.check_numpy(node.func.value.id) and not node.keywords

    def binop(self, node, env, binds):
        op, left, right = node.op, node.left, node.right
        # np.ones((a, b)) * g   /   np.eye(n) * c
        if isinstance(op, ast.Mult) and self.np_call(left, env, "ones") and len(left.args) == 1 \
                and isinstance(left.args[0], ast.Tuple) and len(left.args[0].elts) == 2:
            a = self.expr(left.args[0].elts[0], env, binds)
            b = self.expr(left.args[0].elts[1], env, binds)
            g = self.expr(right, env, binds)
            if a.ty != INT or b.ty != INT or g.ty != TF:
                raise Unsupported("np.ones((%s, %s)) * %s" % (a.ty, b.ty, g.ty))
            t = self.fresh()
            binds.append("let %s ← PyTF.onesTimes %s %s %s" % (t, a.code, b.code, g.code))
            return Val(t, TF)
        if isinstance(op, ast.Mult) and self.np_call(left, env, "eye") and len(left.args) == 1:
            n = self.expr(left.args[0], env, binds)
            c = self.expr(right, env, binds)
            if n.ty != INT or c.ty != SCALAR:
                raise Unsupported("np.eye(%s) * %s" % (n.ty, c.ty))
            return Val("(PyTF.scaledEye %s %s)" % (n.code, c.code), O_ARRAY)
        a = self.expr(left, env, binds)
        b = self.expr(right, env, binds)
        if a.ty == INT and b.ty == INT and isinstance(op, (ast.Add, ast.Sub)):
            return Val("(%s %s %s)" % (a.code, "+" if isinstance(op, ast.Add) else "-", b.code), INT)
        if isinstance(op, ast.Mult) and {a.ty, b.ty} in ({POLY, INT}, {POLY, SCALAR}):
            p, c = (a, b) if a.ty == POLY else (b, a)
            if c.ty == INT and c.lit is None:
                raise Unsupported("coefficient array times an int variable")
            return Val("(scale %s %s)" % (self.cast(c, SCALAR).code, p.code), POLY)
        if a.ty == TF and b.ty == TF and isinstance(op, (ast.Mult, ast.Div, ast.Add)):
            key = {ast.Mult: "mul", ast.Div: "truediv", ast.Add: "add"}[type(op)]
            t = self.fresh()
            binds.append("let %s ← %s %s (PyTF.Operand.tf %s)" % (t, self.gen(key), a.code, b.code))
            return Val(t, TF)
        if a.ty == TF and b.ty in OPERANDISH and isinstance(op, ast.Add):
            t = self.fresh()
            binds.append("let %s ← %s %s %s" % (t, self.gen("add"), a.code, self.cast(b, OPND).code))
            return Val(t, TF)
        if a.ty in OPERANDISH and b.ty == TF and isinstance(op, ast.Add):
            t = self.fresh()
            binds.append("let %s ← PyTF.addLeft %s %s %s %s" % (
                t, self.gen("add"), self.gen("radd"), self.cast(a, OPND).code, b.code))
            return Val(t, TF)
        if a.ty == TF and isinstance(op, ast.Pow) and b.ty in (INT, EXPO, E_NOTINT):
            t = self.fresh()
            binds.append("let %s ← %s %s %s" % (t, self.gen("pow"), a.code, self.cast(b, EXPO).code))
            return Val(t, TF)
        raise Unsupported("operator %s on %s, %s" % (type(op).__name__, a.ty, b.ty))

    def range_arg(self, call, env, binds):
        if not (isinstance(call, ast.Call) and isinstance(call.func, ast.Name) and call.func.id == "range"
                and not call.keywords and len(call.args) == 1) or not self.unshadowed("range", env):
            return None
        n = self.expr(call.args[0], env, binds)
        if n.ty != INT:
            raise Unsupported("range over a %s" % n.ty)
        return "(PyArith.range 0 %s)" % n.code

    def listcomp(self, node, env, binds):
        # [[] for k in range(n)]
        if len(node.generators) == 1:
            g = node.generators[0]
            if not g.ifs and not g.is_async and isinstance(g.target, ast.Name) \
                    and isinstance(node.elt, ast.List) and not node.elt.elts:
                rng = self.range_arg(g.iter, env, binds)
                if rng is not None:
                    return Val("(List.map (fun (_ : Int) => ([] : List K)) %s)" % rng, LISTPOLY)
        raise Unsupported("comprehension %s" % ast.unparse(node)[:60])

    def index2(self, sl, env, binds):
        if not (isinstance(sl, ast.Tuple) and len(sl.elts) == 2):
            return None
        i = self.expr(sl.elts[0], env, binds)
        j = self.expr(sl.elts[1], env, binds)
        if i.ty != INT or j.ty != INT:
            raise Unsupported("index of type %s, %s" % (i.ty, j.ty))
        return i, j

    def subscript(self, node, env, binds):
        # a[i][j] on a 2-D array (the row is a view): the same as a[i, j]
        if isinstance(node.value, ast.Subscript) and not isinstance(node.slice, (ast.Tuple, ast.Slice)) \
                and not isinstance(node.value.slice, (ast.Tuple, ast.Slice)):
            saved, b = self.ntmp, []
            b0 = self.expr(node.value.value, env, b)
            if b0.ty == POLYARR:
                binds += b
                i = self.expr(node.value.slice, env, binds)
                j = self.expr(node.slice, env, binds)
                if i.ty != INT or j.ty != INT:
                    raise Unsupported("index of type %s, %s" % (i.ty, j.ty))
                t = self.fresh()
                binds.append("let %s ← PyTF.PolyArr.getItem %s %s %s" % (t, b0.code, i.code, j.code))
                return Val(t, POLY)
            self.ntmp = saved
        base = self.expr(node.value, env, binds)
        if base.ty == POLYARR:
            ij = self.index2(node.slice, env, binds)
            if ij is None:
                raise Unsupported("index %s of a 2-D array" % ast.unparse(node.slice)[:40])
            t = self.fresh()
            binds.append("let %s ← PyTF.PolyArr.getItem %s %s %s" % (t, base.code, ij[0].code, ij[1].code))
            return Val(t, POLY)
        if base.ty in (LISTPOLY, LISTARR, POLY):
            if isinstance(node.slice, ast.Slice):
                sl = node.slice
                if base.ty == POLY and sl.lower is not None and sl.upper is None and sl.step is None:
                    lo = self.expr(sl.lower, env, binds)
                    if lo.ty != INT:
                        raise Unsupported("slice bound of type %s" % lo.ty)
                    return Val("(PyTF.sliceFrom %s %s)" % (base.code, lo.code), POLY)
                raise Unsupported("slice %s" % ast.unparse(node)[:60])
            i = self.expr(node.slice, env, binds)
            if i.ty != INT:
                raise Unsupported("index of type %s" % i.ty)
            t = self.fresh()
            binds.append("let %s ← PyArith.getItem %s %s" % (t, base.code, i.code))
            return Val(t, {LISTPOLY: POLY, LISTARR: POLYARR, POLY: SCALAR}[base.ty])
        raise Unsupported("indexing a %s" % base.ty)

    def call(self, node, env, binds):
        f = node.func
        # x.issiso()
        if isinstance(f, ast.Attribute) and f.attr == "issiso" and not node.args and not node.keywords:
            v = self.expr(f.value, env, binds)
            if v.ty != TF or self.class_defines("issiso"):
                raise Unsupported("issiso of a %s" % v.ty)
            return Val("(%s.isSiso = true)" % _paren(v.code), PROP)
        # bdalg.append(*([g] * n))
        if isinstance(f, ast.Attribute) and f.attr == "append" and isinstance(f.value, ast.Name) \
                and f.value.id == "bdalg" and "bdalg" not in env:
            if not self.check_relative_import("bdalg", None):
                raise Unsupported("bdalg is not `from . import bdalg`")
            if len(node.args) == 1 and not node.keywords and isinstance(node.args[0], ast.Starred):
                inner = node.args[0].value
                if isinstance(inner, ast.BinOp) and isinstance(inner.op, ast.Mult) \
                        and isinstance(inner.left, ast.List) and len(inner.left.elts) == 1:
                    g = self.expr(inner.left.elts[0], env, binds)
                    n = self.expr(inner.right, env, binds)
                    if g.ty == TF and n.ty == INT:
                        t = self.fresh()
                        binds.append("let %s ← PyTF.appendCopies %s %s" % (t, g.code, n.code))
                        return Val(t, TF)
            raise Unsupported("call %s" % ast.unparse(node)[:70])
        if self.np_call(node, env, "any") and len(node.args) == 1:
            v = self.expr(node.args[0], env, binds)
            if v.ty != SCALAR:
                raise Unsupported("np.any of a %s" % v.ty)
            return Val("(%s ≠ 0)" % v.code, PROP)
        if not isinstance(f, ast.Name) or f.id in env:
            raise Unsupported("call %s" % ast.unparse(node)[:70])
        nm = f.id
        if nm == "len" and self.unshadowed("len", env) and len(node.args) == 1 and not node.keywords:
            v = self.expr(node.args[0], env, binds)
            if v.ty not in (LISTARR, LISTPOLY, POLY):
                raise Unsupported("len of a %s" % v.ty)
            return Val("((List.length %s : Nat) : Int)" % v.code, INT)
        if nm in ("zeros", "ones"):
            if not self.check_import(nm, "numpy") or len(node.args) != 1 or node.keywords:
                raise Unsupported("%s is not (only) `from numpy import %s`" % (nm, nm))
            n = self.expr(node.args[0], env, binds)
            if n.ty != INT or n.lit is None or n.lit < 0:
                raise Unsupported("%s(%s)" % (nm, ast.unparse(node.args[0])[:30]))
            return Val("([%s] : List K)" % ", ".join(["(%d : K)" % (nm == "ones")] * n.lit), POLY)
        if nm == "deepcopy":
            if not self.check_import("deepcopy", "copy") or len(node.args) != 1 or node.keywords:
                raise Unsupported("deepcopy")
            return self.expr(node.args[0], env, binds)
        if nm in ("polymul", "polyadd"):
            if not self.check_import(nm, "numpy") or len(node.args) != 2 or node.keywords:
                raise Unsupported("%s is not (only) `from numpy import %s`" % (nm, nm))
            a = self.expr(node.args[0], env, binds)
            b = self.expr(node.args[1], env, binds)
            if a.ty != POLY or b.ty != POLY:
                raise Unsupported("%s of %s, %s" % (nm, a.ty, b.ty))
            return Val("(%s %s %s)" % (nm, a.code, b.code), POLY)
        if nm == "common_timebase":
            if not self.check_relative_import(nm, "iosys") or len(node.args) != 2 or node.keywords:
                raise Unsupported("common_timebase is not (only) imported from .iosys")
            a = self.expr(node.args[0], env, binds)
            b = self.expr(node.args[1], env, binds)
            if a.ty != DT or b.ty != DT:
                raise Unsupported("common_timebase of %s, %s" % (a.ty, b.ty))
            t = self.fresh()
            binds.append("let %s ← common %s %s" % (t, a.code, b.code))
            return Val(t, DT)
        if nm == "_create_poly_array":
            if not self.check_local_function(nm) or node.keywords or not 1 <= len(node.args) <= 2 \
                    or not (isinstance(node.args[0], ast.Tuple) and len(node.args[0].elts) == 2):
                raise Unsupported("call %s" % ast.unparse(node)[:70])
            a = self.expr(node.args[0].elts[0], env, binds)
            b = self.expr(node.args[0].elts[1], env, binds)
            if a.ty != INT or b.ty != INT:
                raise Unsupported("shape of type %s, %s" % (a.ty, b.ty))
            d = "none"
            if len(node.args) == 2:
                dv = self.expr(node.args[1], env, binds)
                if dv.ty != POLY:
                    raise Unsupported("default entry of type %s" % dv.ty)
                d = "(some %s)" % dv.code
            t = self.fresh()
            binds.append("let %s ← PyTF.createPolyArray %s %s %s" % (t, a.code, b.code, d))
            return Val(t, POLYARR)
        if nm == "_convert_to_transfer_function":
            if not self.check_local_function(nm) or len(node.args) != 1:
                raise Unsupported("call %s" % ast.unparse(node)[:70])
            x = self.expr(node.args[0], env, binds)
            if x.ty not in OPERANDISH:
                raise Unsupported("conversion of a %s" % x.ty)
            kw = {"inputs": Val("1", INT, lit=1), "outputs": Val("1", INT, lit=1)}
            for k in node.keywords:
                if k.arg not in kw:
                    raise Unsupported("keyword %s of _convert_to_transfer_function" % k.arg)
                kw[k.arg] = self.expr(k.value, env, binds)
                if kw[k.arg].ty != INT:
                    raise Unsupported("%s of type %s" % (k.arg, kw[k.arg].ty))
            t = self.fresh()
            binds.append("let %s ← PyTF.convert %s %s %s" % (
                t, self.cast(x, OPND).code, kw["inputs"].code, kw["outputs"].code))
            return Val(t, TF)
        if nm == "TransferFunction":
            if not self.check_class() or node.keywords or not 2 <= len(node.args) <= 3:
                raise Unsupported("call %s" % ast.unparse(node)[:70])
            a = self.expr(node.args[0], env, binds)
            b = self.expr(node.args[1], env, binds)
            d = self.expr(node.args[2], env, binds) if len(node.args) == 3 else None
            if d is not None and d.ty != DT:
                raise Unsupported("timebase argument of type %s" % d.ty)
            t = self.fresh()
            if a.ty == POLYARR and b.ty == POLYARR and d is not None:
                binds.append("let %s ← PyTF.mkTF %s %s %s" % (t, a.code, b.code, d.code))
            elif a.ty == POLY and b.ty == POLY:
                e = "PyTF.mkSiso %s %s %s" % (a.code, b.code, "(some %s)" % d.code if d is not None else "none")
                if self.job.get("mutual"):
                    binds.append("BINDH %s h_%s := %s" % (t, t, e))
                else:
                    binds.append("let %s ← %s" % (t, e))
            else:
                raise Unsupported("TransferFunction(%s, %s%s)" % (a.ty, b.ty, ", dt" if d is not None else ""))
            return Val(t, TF)
        calls = self.job.get("calls", {})
        if nm in calls:
            lean, argtys, rty = calls[nm]
            if not self.check_local_function(nm) or node.keywords or len(node.args) != len(argtys):
                raise Unsupported("call %s" % ast.unparse(node)[:70])
            args = [self.cast(self.expr(a, env, binds), t) for a, t in zip(node.args, argtys)]
            t = self.fresh()
            binds.append("let %s ← %s %s" % (t, lean, " ".join(a.code for a in args)))
            return Val(t, rty)
        raise Unsupported("call %s" % ast.unparse(node)[:70])

    # -- statements ------------------------------------------------------------------------------
    @staticmethod
    def is_doc(s):
        return isinstance(s, ast.Expr) and isinstance(s.value, ast.Constant) and isinstance(s.value.value, str)

    def is_ss_import(self, s):
        return isinstance(s, ast.ImportFrom) and s.level == 1 and s.module == "statesp" \
            and [(a.name, a.asname) for a in s.names] == [("StateSpace", None)]

    def clean(self, stmts):
        return [s for s in stmts if not self.is_doc(s) and not isinstance(s, ast.Pass)]

    def terminates(self, stmts, env):
        """every path through the statements returns / raises (static `isinstance` tests resolved)"""
        stmts = self.clean(stmts)
        for s in stmts:
            if isinstance(s, (ast.Return, ast.Raise)):
                return True
            if isinstance(s, ast.If):
                st = self.static_test(s.test, env)
                if st is True:
                    if self.terminates(s.body, env):
                        return True
                elif st is False:
                    if self.terminates(s.orelse, env):
                        return True
                elif s.orelse and self.terminates(s.body, env) and self.terminates(s.orelse, env):
                    return True
        return False

    @staticmethod
    def brk_name(loop):
        return "brk_%s" % loop.target.id

    def self_arrays_target(self, t, env):
        """`[self.num_array, self.den_array]` as an assignment target (the result of `_truncatecoeff`)"""
        return isinstance(t, (ast.List, ast.Tuple)) and len(t.elts) == 2 and all(
            isinstance(e, ast.Attribute) and isinstance(e.value, ast.Name) and e.value.id == "self"
            for e in t.elts) and [e.attr for e in t.elts] == ["num_array", "den_array"]

    def assigned(self, stmts, loop=None):
        out = []

        def add(n):
            if n not in out:
                out.append(n)

        def target(t):
            if isinstance(t, ast.Name):
                add(t.id)
            elif self.self_arrays_target(t, None):
                pass
            elif isinstance(t, ast.Tuple):
                for e in t.elts:
                    target(e)
            elif isinstance(t, ast.Subscript):
                b = t.value
                while isinstance(b, ast.Subscript):
                    b = b.value
                if not isinstance(b, ast.Name):
                    raise Unsupported("assignment target %s" % ast.unparse(t)[:60])
                add(b.id)
            else:
                raise Unsupported("assignment target %s" % ast.unparse(t)[:60])
        for s in stmts:
            if isinstance(s, ast.Assign):
                for t in s.targets:
                    target(t)
            elif isinstance(s, ast.AugAssign):
                target(s.target)
            elif isinstance(s, ast.If):
                for n in self.assigned(s.body, loop) + self.assigned(s.orelse, loop):
                    add(n)
            elif isinstance(s, ast.For):
                target(s.target)
                for n in self.assigned(s.body, s):
                    add(n)
            elif isinstance(s, ast.Break):
                if loop is None:
                    raise Unsupported("break outside a loop")
                add(self.brk_name(loop))
            elif isinstance(s, (ast.Return, ast.Raise, ast.Pass)) or self.is_doc(s) or self.is_ss_import(s):
                pass
            else:
                raise Unsupported("statement %s" % ast.unparse(s)[:60])
        return out

    def store(self, target, v, env, binds, items):
        """assignment of the translated value `v` to one target; returns nothing, updates env/items"""
        if isinstance(target, ast.Name):
            if v.ty not in LEAN_TY:
                raise Unsupported("assignment of a %s" % v.ty)
            if target.id in RESERVED:
                raise Unsupported("variable name %s" % target.id)
            if env.get(target.id) == OPTINT and v.ty == INT:      # a None-able int variable
                v = Val("(some %s)" % v.code, OPTINT)
            if binds and binds[-1].startswith("let %s ← " % v.code) and v.code.startswith("t") \
                    and v.code[1:].isdigit():
                binds[-1] = "let %s ← " % target.id + binds[-1][len("let %s ← " % v.code):]
                items += binds
            else:
                items += binds
                items.append("let %s : %s := %s" % (target.id, LEAN_TY[v.ty], v.code))
            del binds[:]
            env[target.id] = v.ty
            return
        if isinstance(target, ast.Subscript):
            base, sl = target.value, target.slice
            # a[i][j] = v on a 2-D array: the row is a view
            if isinstance(base, ast.Subscript) and isinstance(base.value, ast.Name) \
                    and env.get(base.value.id) == POLYARR and not isinstance(sl, (ast.Tuple, ast.Slice)) \
                    and not isinstance(base.slice, (ast.Tuple, ast.Slice)):
                sl = ast.Tuple(elts=[base.slice, sl], ctx=ast.Load())
                base = base.value
            # data[p][i][j] = v / data[p][i, j] = v on a list of 2-D arrays
            b2 = base
            if isinstance(b2, ast.Subscript) and isinstance(b2.value, ast.Subscript) \
                    and isinstance(b2.value.value, ast.Name) and env.get(b2.value.value.id) == LISTARR \
                    and not isinstance(sl, (ast.Tuple, ast.Slice)):
                sl = ast.Tuple(elts=[b2.slice, sl], ctx=ast.Load())
                b2 = b2.value
            if isinstance(b2, ast.Subscript) and isinstance(b2.value, ast.Name) \
                    and env.get(b2.value.id) == LISTARR and isinstance(sl, ast.Tuple):
                xs = b2.value.id
                pidx = self.expr(b2.slice, env, binds)
                ij = self.index2(sl, env, binds)
                if pidx.ty != INT or ij is None or v.ty != POLY:
                    raise Unsupported("assignment %s = <%s>" % (ast.unparse(target)[:40], v.ty))
                items += binds
                del binds[:]
                t1, t2 = self.fresh(), self.fresh()
                items.append("let %s ← PyArith.getItem %s %s" % (t1, xs, pidx.code))
                items.append("let %s ← PyTF.PolyArr.setItem %s %s %s %s" % (t2, t1, ij[0].code, ij[1].code, v.code))
                items.append("let %s ← PyArith.setItem %s %s %s" % (xs, xs, pidx.code, t2))
                return
            if not isinstance(base, ast.Name):
                raise Unsupported("assignment target %s" % ast.unparse(target)[:60])
            xs, xt = base.id, env.get(base.id)
            if xt == POLYARR:
                ij = self.index2(sl, env, binds)
                if ij is None or v.ty != POLY:
                    raise Unsupported("assignment %s = <%s>" % (ast.unparse(target)[:40], v.ty))
                items += binds
                del binds[:]
                items.append("let %s ← PyTF.PolyArr.setItem %s %s %s %s" % (xs, xs, ij[0].code, ij[1].code, v.code))
                return
            if xt == LISTPOLY:
                if isinstance(sl, (ast.Tuple, ast.Slice)):
                    raise Unsupported("assignment target %s" % ast.unparse(target)[:60])
                i = self.expr(sl, env, binds)
                if i.ty != INT or v.ty != POLY:
                    raise Unsupported("assignment %s = <%s>" % (ast.unparse(target)[:40], v.ty))
                items += binds
                del binds[:]
                items.append("let %s ← PyArith.setItem %s %s %s" % (xs, xs, i.code, v.code))
                return
            raise Unsupported("item assignment on %s of type %s" % (xs, xt))
        raise Unsupported("assignment target %s" % ast.unparse(target)[:60])

    def block(self, stmts, env, cont, in_loop=False):
        """statements followed by `cont(env) -> [items]`; returns the list of `do` items"""
        env = dict(env)
        stmts = self.clean(stmts)
        items = []
        for idx, s in enumerate(stmts):
            rest = stmts[idx + 1:]
            binds = []
            if self.is_ss_import(s):
                self.local_ss = True
                continue
            if isinstance(s, ast.Break):
                if not in_loop or rest or not self.loop_brk:
                    raise Unsupported("break that is not the last statement of its block")
                items.append("let %s : Bool := true" % self.loop_brk[-1])
                return items + cont(env)
            if isinstance(s, ast.If) and rest and any(isinstance(x, ast.Break) for x in ast.walk(s)):
                raise Unsupported("statements after an `if` that can `break`")
            if isinstance(s, ast.Assign) and len(s.targets) == 1 and self.self_arrays_target(s.targets[0], env):
                # [self.num_array, self.den_array] = data : the result of the method
                if rest or in_loop or self.job.get("result") != "self_arrays" or env.get("self") != FIELDS:
                    raise Unsupported("assignment to self.num_array, self.den_array")
                v = self.expr(s.value, env, binds)
                if v.ty != LISTARR:
                    raise Unsupported("unpacking a %s into self.num_array, self.den_array" % v.ty)
                self.result_done = True
                return items + binds + ["PyTF.unpack2 %s" % v.code]
            if isinstance(s, ast.Assign):
                if len(s.targets) != 1:
                    raise Unsupported("multiple assignment targets")
                target = s.targets[0]
                v = self.expr(s.value, env, binds)
                if isinstance(target, ast.Tuple):
                    if v.ty != PAIR or len(target.elts) != 2:
                        raise Unsupported("tuple assignment of a %s" % v.ty)
                    items += binds
                    binds = []
                    for k, tg in enumerate(target.elts):
                        self.store(tg, Val("%s.%d" % (v.code, k + 1), POLY), env, binds, items)
                else:
                    self.store(target, v, env, binds, items)
                continue
            if isinstance(s, ast.AugAssign):
                if not isinstance(s.op, ast.Mult):
                    raise Unsupported("augmented assignment %s" % ast.unparse(s)[:60])
                load = ast.copy_location(ast.fix_missing_locations(
                    ast.parse(ast.unparse(s.target), mode="eval").body), s.target)
                v = self.binop(ast.BinOp(left=load, op=s.op, right=s.value), env, binds)
                self.store(s.target, v, env, binds, items)
                continue
            if isinstance(s, ast.Raise):
                if rest:
                    raise Unsupported("code after raise")
                items.append(self.raise_stmt(s, env))
                return items
            if isinstance(s, ast.Return):
                if rest:
                    raise Unsupported("code after return")
                if in_loop:
                    raise Unsupported("return inside a loop")
                return items + self.return_stmt(s, env)
            if isinstance(s, ast.If):
                return items + self.if_stmt(s, rest, env, cont, in_loop)
            if isinstance(s, ast.For):
                its, env = self.for_stmt(s, env)
                items += its
                continue
            raise Unsupported("statement %s" % ast.unparse(s)[:60])
        return items + cont(env)

    def raise_stmt(self, s, env):
        e = s.exc
        exc = self.job.get("exc", {})
        if not (isinstance(e, ast.Call) and isinstance(e.func, ast.Name) and e.func.id in exc
                and s.cause is None and not e.keywords and e.func.id not in env):
            raise Unsupported("raise %s" % ast.unparse(s)[:60])
        if e.func.id == "ControlMIMONotImplemented" and \
                not self.check_relative_import("ControlMIMONotImplemented", "exception"):
            raise Unsupported("ControlMIMONotImplemented is not imported from .exception")
        for a in e.args:
            ok = isinstance(a, ast.Constant) and isinstance(a.value, str)
            if isinstance(a, ast.BinOp) and isinstance(a.op, ast.Mod) and isinstance(a.left, ast.Constant) \
                    and isinstance(a.left.value, str):
                parts = a.right.elts if isinstance(a.right, ast.Tuple) else [a.right]
                b = []
                vals = [self.expr(p, env, b) for p in parts]
                ok = not b and all(v.ty == INT for v in vals)
            if not ok:
                raise Unsupported("exception argument %s" % ast.unparse(a)[:60])
        return "(.error Err.%s)" % exc[e.func.id]

    def return_stmt(self, s, env):
        if s.value is None:
            raise Unsupported("bare return")
        rty = self.job["ret"]
        if isinstance(s.value, ast.Name) and s.value.id == "NotImplemented" \
                and self.unshadowed("NotImplemented", env):
            return ["(.error Err.notImplemented)"]
        binds = []
        if rty == PAIR:
            if not (isinstance(s.value, ast.Tuple) and len(s.value.elts) == 2):
                raise Unsupported("returns %s, a pair expected" % ast.unparse(s.value)[:40])
            a = self.expr(s.value.elts[0], env, binds)
            b = self.expr(s.value.elts[1], env, binds)
            if a.ty != POLY or b.ty != POLY:
                raise Unsupported("returns (%s, %s)" % (a.ty, b.ty))
            return binds + ["pure (%s, %s)" % (a.code, b.code)]
        v = self.expr(s.value, env, binds)
        if v.ty != rty:
            raise Unsupported("returns a %s, %s expected" % (v.ty, rty))
        if binds and binds[-1].startswith("let %s ← " % v.code):
            last = binds.pop()
            return binds + [last[len("let %s ← " % v.code):]]
        if binds and binds[-1].startswith("BINDH %s h_%s := " % (v.code, v.code)):
            last = binds.pop()
            return binds + [last.split(" := ", 1)[1]]
        return binds + ["pure %s" % v.code]

    def none_test(self, test, env):
        """`x is None` / `x is not None` on a None-able int variable -> (name, is_none)"""
        if isinstance(test, ast.Compare) and len(test.ops) == 1 and isinstance(test.ops[0], (ast.Is, ast.IsNot)) \
                and isinstance(test.left, ast.Name) and isinstance(test.comparators[0], ast.Constant) \
                and test.comparators[0].value is None and env.get(test.left.id) == OPTINT:
            return test.left.id, isinstance(test.ops[0], ast.Is)
        return None

    # alternatives of a branching statement: (label for rendering, env, statements)
    def if_stmt(self, s, rest, env, cont, in_loop):
        st = self.static_test(s.test, env)
        if st is not None:
            return self.block(list(s.body if st else s.orelse) + rest, env, cont, in_loop)
        kt = self.kind_test(s.test, env)
        binds = []
        if kt is not None:
            x = kt[0]
            alts = []
            if env[x] == OPND:
                pats = {"tf": ".tf %s" % x, "ss": "%s@(.ss _ _)" % x, "scalar": ".scalar %s" % x,
                        "array": "%s@(.array _ _ _)" % x, "other": "%s@(.foreign)" % x}
                for k in KINDS:
                    e2 = dict(env)
                    e2[x] = KIND_TY[k]
                    alts.append((pats[k], e2, [s]))
            else:
                e_i, e_n = dict(env), dict(env)
                e_i[x], e_n[x] = INT, E_NOTINT
                alts = [(".int %s" % x, e_i, [s]), ("%s@(.notInt)" % x, e_n, [s])]

            def render(bodies):
                return "(match %s with\n%s)" % (x, "\n".join(
                    "  | %s =>\n%s" % (a[0], _ind(_do(b), 4)) for a, b in zip(alts, bodies)))
        elif self.none_test(s.test, env) is not None:
            x, is_none = self.none_test(s.test, env)
            e_n, e_s = dict(env), dict(env)
            e_n.pop(x, None)
            e_s[x] = INT
            a_n, a_s = ("none", e_n, list(s.body if is_none else s.orelse)), \
                ("some %s" % x, e_s, list(s.orelse if is_none else s.body))
            alts = [a_n, a_s]

            def render(bodies):
                return "(match %s with\n%s)" % (x, "\n".join(
                    "  | %s =>\n%s" % (a[0], _ind(_do(b), 4)) for a, b in zip(alts, bodies)))
        else:
            c = self.expr(s.test, env, binds)
            if c.ty == SCALAR:                       # truth value of a float: non-zero
                c = Val("(%s ≠ 0)" % c.code, PROP)
            elif c.ty == BOOL:
                c = Val("(%s = true)" % c.code, PROP)
            if c.ty != PROP:
                raise Unsupported("truth value of a %s: %s" % (c.ty, ast.unparse(s.test)[:60]))
            alts = [("then", dict(env), list(s.body)), ("else", dict(env), list(s.orelse))]

            def render(bodies):
                return "(if %s then\n%s\n  else\n%s)" % (c.code, _ind(_do(bodies[0]), 4), _ind(_do(bodies[1]), 4))
        terms = [self.terminates(a[2], a[1]) for a in alts]
        falls = [i for i, t in enumerate(terms) if not t]
        if not rest or len(falls) <= 1:
            bodies = [self.block(a[2] + ([] if t else rest), a[1], cont, in_loop) for a, t in zip(alts, terms)]
            return binds + [render(bodies)]
        if len(falls) != len(alts):
            raise Unsupported("a branching statement where some but not all of several branches fall through")
        # all alternatives fall through and code follows: the re-bound variables are the result
        cand = self.assigned(s.body) + [n for n in self.assigned(s.orelse) if n not in self.assigned(s.body)]
        if kt is not None and kt[0] not in cand:
            cand = cand + [kt[0]]              # the narrowed variable is widened again at the join
        saved, saved_ss = self.ntmp, self.local_ss
        outs = []
        for a in alts:
            got = {}

            def probe(e, got=got):
                got.update(e)
                return ["pure ()"]
            self.block(a[2], a[1], probe, in_loop)
            outs.append(got)
        self.ntmp = saved
        out, tys, dropped = [], [], []
        for v in cand:
            ty = outs[0].get(v)
            for o in outs[1:]:
                ty = self.join_ty(ty, o.get(v)) if ty in LEAN_TY and o.get(v) in LEAN_TY else None
            if ty is None or ty not in LEAN_TY:
                dropped.append(v)
            else:
                out.append(v)
                tys.append(ty)

        def k(e):
            vals = [self.cast(Val(v, e[v]), t).code for v, t in zip(out, tys)]
            return ["pure (%s)" % ", ".join(vals)]
        bodies = [self.block(a[2], a[1], k, in_loop) for a in alts]
        self.local_ss = self.local_ss or saved_ss
        env2 = dict(env)
        for v in dropped:
            env2.pop(v, None)
        if len(out) == 1:
            items = binds + ["let %s ← (%s : Except Err (%s))" % (out[0], render(bodies), _tuple_ty(tys))]
            env2[out[0]] = tys[0]
        else:
            r = self.fresh()
            items = binds + ["let %s ← (%s : Except Err (%s))" % (r, render(bodies), _tuple_ty(tys))]
            for i, (v, t) in enumerate(zip(out, tys)):
                items.append("let %s : %s := %s" % (v, LEAN_TY[t], _proj(r, i, len(out))))
                env2[v] = t
        return items + self.block(rest, env2, cont, in_loop)

    def for_stmt(self, s, env):
        if s.orelse or not isinstance(s.target, ast.Name):
            raise Unsupported("loop %s" % ast.unparse(s)[:60])
        for sub in ast.walk(s):
            if isinstance(sub, (ast.Continue, ast.Return)):
                raise Unsupported("continue / return inside a loop")
        k = s.target.id
        if k in RESERVED:
            raise Unsupported("variable name %s" % k)
        binds = []
        src, kty = self.range_arg(s.iter, env, binds), INT
        if src is None:
            xs = self.expr(s.iter, env, binds)
            if xs.ty != POLY:
                raise Unsupported("loop over %s" % ast.unparse(s.iter)[:60])
            src, kty = xs.code, SCALAR              # the elements of a coefficient array
        body_assigned = self.assigned(s.body, s)
        if k in body_assigned:
            raise Unsupported("assignment to the loop variable %s" % k)
        brk = self.brk_name(s)
        env = dict(env)
        if brk in body_assigned:
            if brk in self.names or brk in env:
                raise Unsupported("the name %s is reserved" % brk)
            env[brk] = BOOL
        state = [v for v in body_assigned if env.get(v) in LEAN_TY]
        tys = [env[v] for v in state]
        inner = dict(env)
        inner[k] = kty
        self.loop_brk.append(brk)
        outs = {}

        def probe(e):
            outs.update(e)
            return ["pure ()"]
        saved = self.ntmp
        self.block(s.body, inner, probe, in_loop=True)
        self.ntmp = saved
        if [outs.get(v) for v in state] != tys:
            raise Unsupported("a loop variable changes its type")
        st = self.fresh()
        head = ["let %s : %s := %s" % (v, LEAN_TY[t], _proj(st, i, len(state)))
                for i, (v, t) in enumerate(zip(state, tys))]

        def kont(e):
            return ["pure (%s)" % ", ".join(state)]
        inner_items = self.block(s.body, inner, kont, in_loop=True)
        self.loop_brk.pop()
        if brk in state:            # after `break` the remaining rounds do nothing
            inner_items = ["(if (%s = true) then\n%s\n  else\n%s)" % (
                brk, _ind(_do(kont(inner)), 4), _ind(_do(inner_items), 4))]
        body = head + inner_items
        sty = _tuple_ty(tys)
        env2 = dict(env)
        for v in body_assigned:
            if v not in state:
                env2.pop(v, None)               # first bound inside the loop: not available afterwards
        env2.pop(k, None)
        init = ["false" if v == brk else v for v in state]
        fold = "List.foldlM (fun (%s : %s) (%s : %s) =>\n%s) (%s) %s" % (
            st, sty, k, LEAN_TY[kty], _ind("(%s : Except Err (%s))" % (_do(body), sty), 4), ", ".join(init), src)
        if len(state) == 1 and state[0] != brk:
            items = binds + ["let %s ← %s" % (state[0], fold)]
        else:
            r = self.fresh()
            items = binds + ["let %s ← %s" % (r, fold)]
            for i, (v, t) in enumerate(zip(state, tys)):
                if v != brk:
                    items.append("let %s : %s := %s" % (v, LEAN_TY[t], _proj(r, i, len(state))))
        env2.pop(brk, None)
        return items, env2


# -------------------------------------------------------------------------------------------------
# jobs
# -------------------------------------------------------------------------------------------------

G = "Generated.TF."
_SHAPE = {"ValueError": "shape"}
JOBS = {
    "neg": dict(func="__neg__", lean="neg", params=[("self", TF)], defaults={}, ret=TF),
    "add_siso": dict(func="_add_siso", cls=None, lean="addSiso",
                     params=[("num1", POLY), ("den1", POLY), ("num2", POLY), ("den2", POLY)], defaults={}, ret=PAIR),
    "add": dict(func="__add__", lean="add", params=[("self", TF), ("other", OPND)], defaults={}, ret=TF,
                exc=_SHAPE, calls={"_add_siso": (G + "addSiso", [POLY] * 4, PAIR)}),
    "radd": dict(func="__radd__", lean="radd", params=[("self", TF), ("other", OPND)], defaults={}, ret=TF,
                 ops={"add": G + "add"}),
    "sub": dict(func="__sub__", lean="sub", params=[("self", TF), ("other", OPND)], defaults={}, ret=TF,
                ops={"add": G + "add", "neg": G + "neg"}),
    "rsub": dict(func="__rsub__", lean="rsub", params=[("self", TF), ("other", OPND)], defaults={}, ret=TF,
                 ops={"add": G + "add", "radd": G + "radd", "neg": G + "neg"}),
    "mul": dict(func="__mul__", lean="mul", params=[("self", TF), ("other", OPND)], defaults={}, ret=TF,
                exc=_SHAPE, calls={"_add_siso": (G + "addSiso", [POLY] * 4, PAIR)}),
    "rmul": dict(func="__rmul__", lean="rmul", params=[("self", TF), ("other", OPND)], defaults={}, ret=TF,
                 exc=_SHAPE, calls={"_add_siso": (G + "addSiso", [POLY] * 4, PAIR)}),
    "truediv": dict(func="__truediv__", lean="truediv", params=[("self", TF), ("other", OPND)], defaults={}, ret=TF,
                    mutual=True, ops={"mul": G + "mul", "pow": G + "pow"}),
    "rtruediv": dict(func="__rtruediv__", lean="rtruediv", params=[("self", TF), ("other", OPND)], defaults={},
                     ret=TF, ops={"mul": G + "mul", "pow": G + "pow", "truediv": G + "truediv"}),
    "pow": dict(func="__pow__", lean="pow", params=[("self", TF), ("other", EXPO)], defaults={}, ret=TF,
                mutual=True, exc={"ValueError": "badArg"}, ops={"mul": G + "mul", "pow": G + "pow", "truediv": G + "truediv"}),
    "feedback": dict(func="feedback", lean="feedback", params=[("self", TF), ("other", OPND), ("sign", SCALAR)],
                     defaults={"other": "1", "sign": "-1"}, ret=TF,
                     exc={"ControlMIMONotImplemented": "notImplemented"}),
    # the core of the constructor: the zero-denominator / zero-numerator loop of `__init__` (one statement of
    # its body: the loop over `range(self.noutputs)`, with the arrays `num`, `den` it works on as arguments and
    # as result) and `_truncatecoeff` (result: the arrays it stores into self.num_array, self.den_array)
    "init_checks": dict(func="__init__", lean="initChecks", params=[("self", FIELDS)], defaults={},
                        fields=[("noutputs", INT), ("ninputs", INT)], select="range(self.noutputs)",
                        pre=[("num", POLYARR), ("den", POLYARR)], result_vars=("num", "den"), ret=PAIRARR,
                        exc={"ValueError": "zeroDen"}),
    "truncatecoeff": dict(func="_truncatecoeff", lean="truncatecoeff", params=[("self", FIELDS)], defaults={},
                          fields=[("num_array", POLYARR), ("den_array", POLYARR), ("noutputs", INT),
                                  ("ninputs", INT)], result="self_arrays", ret=PAIRARR),
}
# generated files: name -> (jobs in order, further imports, mutual recursion with termination measures)
FILES = {
    "TFNeg.lean": dict(jobs=["neg"], imports=[]),
    "TFAddSiso.lean": dict(jobs=["add_siso"], imports=[]),
    "TFAdd.lean": dict(jobs=["add"], imports=["CtrlVerif.Generated.TFAddSiso"]),
    "TFSub.lean": dict(jobs=["radd", "sub", "rsub"],
                       imports=["CtrlVerif.Generated.TFAdd", "CtrlVerif.Generated.TFNeg"]),
    "TFMul.lean": dict(jobs=["mul"], imports=["CtrlVerif.Generated.TFAddSiso"]),
    "TFRmul.lean": dict(jobs=["rmul"], imports=["CtrlVerif.Generated.TFAddSiso"]),
    "TFDivPow.lean": dict(jobs=["truediv", "pow"], imports=["CtrlVerif.Generated.TFMul"], mutual=True),
    "TFRtruediv.lean": dict(jobs=["rtruediv"], imports=["CtrlVerif.Generated.TFDivPow"]),
    "TFFeedback.lean": dict(jobs=["feedback"], imports=[]),
    "TFCtor.lean": dict(jobs=["init_checks", "truncatecoeff"], imports=[]),
}
# termination measures of the mutually recursive pair (checked by Lean, nothing is trusted here):
# `g ** n` calls `1 / g` and `g ** (n ∓ 1)`; `g / h` calls `h ** -1` only when `g` is not SISO
MEASURES = {
    "truediv": "(if self.isSiso = true then 0 else 4)",
    "pow": "(match other with | .int n => 2 * n.natAbs + 1 | .notInt => 0)",
}
ALL_FILES = tuple(FILES)


def _find(module, cls, func):
    body = module.body
    cnode = None
    for node in body:
        if isinstance(node, ast.ClassDef) and node.name == "TransferFunction":
            cnode = node
    if cnode is None:
        raise Unsupported("class TransferFunction not found")
    if cls is not None:
        body = cnode.body
    found = [n for n in body if isinstance(n, ast.FunctionDef) and n.name == func]
    if len(found) != 1:
        raise Unsupported("%d definitions of %s" % (len(found), func))
    if found[0].decorator_list:
        raise Unsupported("decorated function")
    return found[0], cnode


def _signature(job):
    binders = "{K : Type} [Field K] [DecidableEq K]"
    for nm, ty in job["params"]:
        if ty == FIELDS:            # the fields of `self` the function may read, as arguments
            for f, fty in job["fields"]:
                binders += " (self_%s : %s)" % (f, LEAN_TY[fty])
        else:
            binders += " (%s : %s)" % (nm, LEAN_TY[ty])
    for nm, ty in job.get("pre", []):
        binders += " (%s : %s)" % (nm, LEAN_TY[ty])
    return binders, "Except Err (%s)" % LEAN_TY[job["ret"]]


def _where(job):
    return "control/xferfcn.py:" + ("TransferFunction." if job.get("cls", "TransferFunction") else "") + job["func"]


def translate(repo, key, src=None):
    """Returns (lean source of the definition without termination clause, info)."""
    job = JOBS[key]
    if src is None:
        src = open(os.path.join(repo, "control", "xferfcn.py")).read()
    module = ast.parse(src)
    fn, cnode = _find(module, job.get("cls", "TransferFunction"), job["func"])
    a = fn.args
    got = [x.arg for x in a.args]
    want = [p for p, _ in job["params"]]
    defaults = dict(zip(got[len(got) - len(a.defaults):], [ast.unparse(d) for d in a.defaults]))
    if job.get("select"):
        # one statement of the body (the others are outside this tie); only `self` must be the first parameter
        if got[:1] != ["self"]:
            raise Unsupported("parameters %s" % got)
        body = [st for st in fn.body if isinstance(st, ast.For) and ast.unparse(st.iter) == job["select"]]
        if len(body) != 1:
            raise Unsupported("%d top-level loops over %s" % (len(body), job["select"]))
        for nm, _ in job["pre"]:
            before = [n for st in fn.body[:fn.body.index(body[0])] for n in ast.walk(st)
                      if isinstance(n, ast.Name) and n.id == nm and isinstance(n.ctx, ast.Store)]
            if not before:
                raise Unsupported("%s is not bound before the loop" % nm)
        text_node = body[0]
    else:
        if a.vararg or a.kwarg or a.kwonlyargs or a.posonlyargs:
            raise Unsupported("signature")
        if got != want:
            raise Unsupported("parameters %s, expected %s" % (got, want))
        if defaults != job["defaults"]:
            raise Unsupported("default values %s, expected %s" % (defaults, job["defaults"]))
        body = fn.body
        text_node = fn
    tr = Translator(job, module, cnode)
    tr.names = {n.id for n in ast.walk(fn) if isinstance(n, ast.Name)} | set(got)
    tr.names_assigned = {n.id for n in ast.walk(fn) if isinstance(n, ast.Name) and isinstance(n.ctx, ast.Store)}
    for sub in ast.walk(text_node):
        if isinstance(sub, (ast.FunctionDef, ast.Lambda, ast.Global, ast.Nonlocal, ast.While, ast.Try,
                            ast.With, ast.Yield, ast.YieldFrom, ast.Await, ast.NamedExpr)) and sub is not fn:
            raise Unsupported(type(sub).__name__)
    env = {nm: ty for nm, ty in job["params"]}
    env.update({nm: ty for nm, ty in job.get("pre", [])})
    if any(("self_" + f) in tr.names for f, _ in job.get("fields", [])):
        raise Unsupported("a variable named self_<field>")

    def fall_off(env_):
        if job.get("result_vars"):
            vals = [Val(v, env_.get(v)) for v in job["result_vars"]]
            if [v.ty for v in vals] != [POLYARR, POLYARR]:
                raise Unsupported("%s are not two arrays after the loop" % (job["result_vars"],))
            return ["pure (%s)" % ", ".join(v.code for v in vals)]
        if job.get("result") == "self_arrays":
            raise Unsupported("the method does not end with the assignment of self.num_array, self.den_array")
        return ["PyTF.fellOff"]
    items = tr.block(body, env, fall_off)
    text = ast.get_source_segment(src, text_node)
    sha = hashlib.sha256(text.encode()).hexdigest()
    binders, rty = _signature(job)
    lean = ("/-- `%s` as the source text says it (sha256 of the function text\n%s).\n"
            "Defaults: %s. -/\n"
            "def %s %s :\n    %s :=\n%s\n") % (
        _where(job), sha, ", ".join("%s=%s" % kv for kv in sorted(defaults.items())) or "none",
        job["lean"], binders, rty, _ind(_do(items) if len(items) > 1 else items[0], 2))
    return lean, {"sha": sha, "lines": fn.end_lineno - fn.lineno + 1, "temporaries": tr.ntmp}


def _failed(job, msg):
    binders, rty = _signature(job)
    return "/-- translation FAILED: %s -/\ndef %s %s :\n    %s :=\n  .error Err.notImplemented\n" % (
        msg, job["lean"], binders, rty)


def render_file(repo, fname, src=None):
    """text of one generated file, problems, info"""
    spec = FILES[fname]
    problems, info, defs, shas = [], {}, [], []
    failed = False
    for key in spec["jobs"]:
        job = JOBS[key]
        try:
            lean, inf = translate(repo, key, src)
            info[key] = inf
            shas.append("%s %s" % (job["func"], inf["sha"]))
            defs.append((key, lean))
        except (Unsupported, SyntaxError, OSError) as e:
            msg = str(e).replace("\n", " ").replace("-/", "- /")[:200]
            problems.append("py2lean_tf: %s cannot be translated: %s" % (_where(job), msg))
            defs.append((key, _failed(job, msg)))
            shas.append("%s FAILED" % job["func"])
            failed = True
    body = []
    if spec.get("mutual") and not failed:
        body.append("mutual\n")
        for key, lean in defs:
            body.append(lean.rstrip("\n") + "\ntermination_by %s\ndecreasing_by all_goals (simp_wf; "
                        "first | omega | (simp_all <;> omega) | "
                        "(have := PyTF.isSiso_of_mkSiso (by assumption); simp_all <;> omega))\n" % MEASURES[key])
        body.append("end\n")
    else:
        if spec.get("mutual"):
            # one of the pair failed: neither can be tied (they call each other)
            defs = [(key, _failed(JOBS[key], "a function of the mutually recursive group failed")
                     if "translation FAILED" not in lean else lean) for key, lean in defs]
        body = [lean for _, lean in defs]
    head = "-- GENERATED on every run by harness/core/py2lean_tf.py from control/xferfcn.py (%s).  Do not edit.\n" % (
        "; ".join(shas))
    opts = ("set_option linter.unusedTactic false\nset_option linter.unreachableTactic false\n"
            "set_option linter.unnecessarySeqFocus false\n\n") if spec.get("mutual") else ""
    text = (head + "import CtrlVerif.Model.PyTF\n" + "".join("import %s\n" % m for m in spec["imports"])
            + "\nnamespace CtrlVerif.Generated.TF\n\nopen CtrlVerif\n\n" + opts + "\n".join(body)
            + "\nend CtrlVerif.Generated.TF\n")
    return text, problems, info


def regenerate(repo, lean_dir, files=ALL_FILES):
    """Rewrite Generated/TF*.lean; returns (list of problems, info dict).  Deterministic functions of the
    source text (no timestamps), rewritten only when changed."""
    problems, info = [], {}
    os.makedirs(os.path.join(lean_dir, "CtrlVerif", "Generated"), exist_ok=True)
    try:
        src = open(os.path.join(repo, "control", "xferfcn.py")).read()
    except OSError:
        src = None
    for fname in files:
        text, probs, inf = render_file(repo, fname, src)
        problems += probs
        info.update(inf)
        path = os.path.join(lean_dir, "CtrlVerif", "Generated", fname)
        old = open(path).read() if os.path.exists(path) else None
        if old != text:
            with open(path, "w") as f:
                f.write(text)
    return problems, info


if __name__ == "__main__":
    import sys
    if len(sys.argv) == 3 and sys.argv[2] in FILES:
        print(render_file(sys.argv[1], sys.argv[2])[0])
    else:
        lean, inf = translate(sys.argv[1], sys.argv[2])
        print(lean)
        print(inf)
