"""Fifth translator Python `ast` -> Lean 4 (DESIGN §10.3 / notes/NOTES-py2lean-canon.md): the FUNCTIONS
`similarity_transform`, `reachable_form`, `observable_form`, `canonical_form` (control/canonical.py; the
untranslated `modal_form` is a parameter of the generated `canonicalForm`) and
`model_reduction` with its nested helpers `_process_elim_or_keep / _expand_key / _resolve`
(control/modelsimp.py).  It regenerates `lean/CtrlVerif/Generated/Canon*.lean` from the source text of
the tree the check runs against on every run; `Props/C15Gen*.lean` prove the run-time layer of the
hand-written C15 model (`Model/CanonicalDyn.lean`: `DSS.similarity`, `DSS.reachableForm`,
`DSS.observableForm`, `DSS.canonicalForm`, `Reduce.processElimKeep`, `DSS.modelReduction`) EQUAL to the generated functions, so a
semantic edit of the source breaks a proof obligation and an edit that leaves the supported subset makes the
translation fail (reported the same way: the emitted definition is then `.error .notImplemented` for every
argument, which cannot equal the model).

Built on `core/py2lean_ss.py` (class `Translator`: expressions over the untyped matrix layer `PMat K` of
`Model/PyMat.lean`, static types, effects bound left to right in Python's order, `if` joins, static
`isinstance`), which is imported, not edited.  Added here:

  values      a MUTABLE `StateSpace` copy `z = StateSpace(x)`: its attributes `z.A z.B z.C z.D z.dt` are
              separate Lean variables `z_A ...`; `z.A = e` re-binds one; `return z` is the constructor call
              `PySS.mk z_A z_B z_C z_D z_dt` (an object whose arrays do not fit is no `StateSpace`).
              Python bools (`Bool`), float literals (exact), strings, `PyVal` keys (`Model/PyVal.lean`),
              coefficient lists (`List K`), integer index arrays / lists of ints (`List Int`), label lists
              (`List String`).
  statements  `z.attr = e`; `X[i, j] = e` / `z.attr[i, j] = e` (in-place, only on an array that was freshly
              allocated by `zeros_like / zeros / eye` and has not been read since: no other name can see it);
              `for i in range(a, b): ...` as `List.foldlM` over `PyArith.range` with the re-assigned variables
              as the state; a nested `def f(a, b): return <expr>` (expanded at each call, arguments first);
              nested functions with statements are separate jobs (their free variables become parameters);
              `return a, b`; `raise <Class>("literal" [% x])` with the class/message -> `Err` map of
              `families/c15.py: classify_exc`; an `if` whose only statements are `warnings.warn(...)` is dropped
              (a warning does not change the result; noted in the doc comment).
  expressions `X / c`, `transpose`, `zeros_like`, `poly`, `ctrb`, `obsv`, `issiso(x)`, `X.size`,
              `X[:, l]` / `X[l, :]` for a list of ints, `p[k]` on a coefficient list, `len`, `==` on strings,
              `x is None`, `isinstance` on `PyVal`, `labels.index`, list comprehensions over a `PyVal` list
              or `range(n)` with a filter `i not in l`, `e1 if c else e2` with a static test,
              `np.atleast_1d / np.unique / np.arange(n)[idx] / np.sort(x).tolist()` on index arrays,
              `sys.isdtime(strict=True)`, `x.state_labels` ... (parameters of the generated function).
The meaning of every emitted primitive is fixed in `Model/PyMat.lean`, `Model/PyVal.lean`,
`Model/PyArith.lean` and the ONE new hand-written file `Model/PyCanon.lean` (trusted, like the translator).
Output is deterministic (no timestamps), carries the sha256 of each function text and is rewritten only when
changed.
"""
import ast
import hashlib
import os
from fractions import Fraction

from core.py2lean import Unsupported
from core import py2lean_ss
from core.py2lean_ss import V, _ind, SS, MAT, NUM, NAT, INT, DT, PROP, OPERAND, SHAPE, module_bindings

BOOL, OBJ, NUMLIST, PYVAL, ILIST, STR, STRLIST, IRANGE = "BOOL", "OBJ", "NUMLIST", "PYVAL", "ILIST", "STR", "STRLIST", "IRANGE"
LEAN_TY = dict(py2lean_ss.LEAN_TY)
LEAN_TY.update({BOOL: "Bool", NUMLIST: "List K", PYVAL: "PyVal", ILIST: "List Int", STR: "String",
                STRLIST: "List String"})
FIELDS = [("A", MAT), ("B", MAT), ("C", MAT), ("D", MAT), ("dt", DT)]

# what the free names of the two modules must be bound to (checked against the module's imports)
IMPORTS = {
    "np": ("import", "numpy"), "warnings": ("import", "warnings"),
    "poly": ("from", "numpy"), "transpose": ("from", "numpy"), "zeros_like": ("from", "numpy"),
    "solve": ("from", "numpy.linalg"), "matrix_rank": ("from", "numpy.linalg"),
    "issiso": ("from", "iosys"), "ctrb": ("from", "statefbk"), "obsv": ("from", "statefbk"),
    "StateSpace": ("from", "statesp"),
    "ControlNotImplemented": ("from", "exception"),
}
ALLOCATORS = ("zeros_like", "np.zeros_like", "zeros", "np.zeros", "eye", "np.eye", "np.ones")


def lean_name(key):
    return key.replace(".", "_")


def classify(cls, msg):
    """the rule of harness/families/c15.py: classify_exc, applied to the class and the literal message"""
    if cls in ("ControlNotImplemented", "NotImplementedError"):
        return "notImplemented"
    if cls == "IndexError":
        return "indexRange"
    if cls == "TypeError":
        return "badArg"
    if cls == "ValueError":
        if "not controllable" in msg or "singular" in msg:
            return "illPosed"
        if "is not in list" in msg:
            return "unknownName"
        if "can't provide both" in msg or "not supported" in msg:
            return "badArg"
        return "shape"
    raise Unsupported("raise of %s" % cls)


class Translator(py2lean_ss.Translator):
    def __init__(self, job, bindings, available):
        super().__init__(job, bindings, available)
        self.fresh = set()        # env keys of arrays allocated here and not read since
        self.localfuncs = {}      # nested one-expression functions: name -> FunctionDef
        self.calls = job.get("calls", {})   # python name -> (lean name, [extra leading args], param types, ret types)

    def need(self, name, what):
        if name in self.localfuncs:
            raise Unsupported("`%s` is re-defined inside the function" % name)
        super().need(name, what)

    # -- values ---------------------------------------------------------------------------------
    def key_of(self, node, env):
        """the env key of a variable reference `x` / `z.attr` (attribute of a mutable copy or a parameter
        attribute), or None"""
        if isinstance(node, ast.Name) and node.id in env:
            return node.id
        if isinstance(node, ast.Attribute) and isinstance(node.value, ast.Name):
            k = node.value.id + "." + node.attr
            if k in env and node.value.id in env:
                return k
        return None

    def expr(self, node, env, pre):
        if isinstance(node, ast.Constant):
            v = node.value
            if type(v) is float:
                fr = Fraction(v)
                if fr.denominator == 1:
                    return V("(%d : K)" % fr.numerator if fr.numerator >= 0 else "(-%d : K)" % -fr.numerator, NUM)
                return V("(((%d : Int) : K) / ((%d : Int) : K))" % (fr.numerator, fr.denominator), NUM)
            if type(v) is str:
                return V(lean_str(v), STR, items=v)
            if v is None:
                return V("PyVal.none", PYVAL)
            if type(v) is bool:
                return V("true" if v else "false", BOOL, items=v)
        k = self.key_of(node, env)
        if k is not None:
            self.fresh.discard(k)            # read: the array may be shared from now on
            if env[k].ty == OBJ:
                raise Unsupported("use of the object `%s` as a value" % k)
            return env[k]
        if isinstance(node, ast.Name) and node.id in self.localfuncs:
            raise Unsupported("the function `%s` used as a value" % node.id)
        if isinstance(node, ast.IfExp):
            npre = []
            st, _ = self.test(node.test, env, npre)
            if st is None or npre:
                raise Unsupported("conditional expression with a dynamic test")
            self.notes.append("`%s` is statically %s" % (ast.unparse(node.test), st))
            return self.expr(node.body if st else node.orelse, env, pre)
        if isinstance(node, ast.List):
            if not node.elts:
                return V("[]", "EMPTYLIST")
            raise Unsupported("list display %s" % ast.unparse(node)[:60])
        if isinstance(node, ast.ListComp):
            return self.listcomp(node, env, pre)
        return super().expr(node, env, pre)

    def attribute(self, node, env, pre):
        v = self.expr(node.value, env, pre)
        a = node.attr
        if v.ty == MAT and a == "size":
            return V("(PyCanon.size %s)" % v.code, NAT)
        if v.ty == ILIST and a == "size":
            return V("%s.length" % v.code, NAT)
        if v.ty == SS and a in ("A", "B", "C", "D"):
            return V("(PySS.%s %s)" % (a, v.code), MAT)
        if v.ty == SS and a == "dt":
            return V("%s.dt" % v.code, DT)
        if v.ty == SS and a in ("nstates", "ninputs", "noutputs"):
            return V("%s.%s" % (v.code, {"nstates": "n", "ninputs": "m", "noutputs": "p"}[a]), NAT)
        if v.ty == MAT and a == "T":
            return V("(PMat.T %s)" % v.code, MAT)
        if v.ty == MAT and a == "shape":
            return V(None, SHAPE, items=[V("%s.r" % v.code, NAT), V("%s.c" % v.code, NAT)])
        raise Unsupported("attribute .%s of %s" % (a, v.ty))

    def as_ilist(self, v):
        if v.ty == ILIST:
            return v.code
        if v.ty == "EMPTYLIST":
            return "([] : List Int)"
        raise Unsupported("expected a list of ints, got %s" % v.ty)

    def subscript(self, node, env, pre):
        sl = node.slice
        # np.arange(n)[idx]
        if isinstance(node.value, ast.Call) and self.dotted(node.value.func) == "np.arange" \
                and len(node.value.args) == 1 and not node.value.keywords:
            self.need("np", IMPORTS["np"])
            n = self.expr(node.value.args[0], env, pre)
            idx = self.expr(sl, env, pre)
            return self.bind(pre, "PyCanon.arangeTake %s %s" % (self.as_int(n), self.as_ilist(idx)), ILIST)
        # range(len(labels))[key] for a slice object
        if isinstance(node.value, ast.Call) and self.dotted(node.value.func) == "range" \
                and len(node.value.args) == 1 and not node.value.keywords:
            n = self.expr(node.value.args[0], env, pre)
            k = self.expr(sl, env, pre)
            if k.ty == PYVAL:
                return self.bind(pre, "Py.getitem (Py.range1 %s) %s" % (self.as_int(n), k.code), PYVAL)
            raise Unsupported("range(...)[%s]" % k.ty)
        v = self.expr(node.value, env, pre)
        if v.ty == NUMLIST and not isinstance(sl, (ast.Slice, ast.Tuple)):
            i = self.expr(sl, env, pre)
            return self.bind(pre, "PyArith.getItem %s %s" % (v.code, self.as_int(i)), NUM)
        if v.ty == MAT and isinstance(sl, ast.Tuple) and len(sl.elts) == 2:
            r, c = sl.elts
            full = lambda e: isinstance(e, ast.Slice) and e.lower is None and e.upper is None and e.step is None
            if full(r) and not isinstance(c, ast.Slice):
                l = self.expr(c, env, pre)
                return self.bind(pre, "PyCanon.takeCols %s %s" % (v.code, self.as_ilist(l)), MAT)
            if full(c) and not isinstance(r, ast.Slice):
                l = self.expr(r, env, pre)
                return self.bind(pre, "PyCanon.takeRows %s %s" % (v.code, self.as_ilist(l)), MAT)
        if v.ty in (MAT, SHAPE):
            # the base class re-evaluates node.value: it must be effect free (a name / attribute / slice of one)
            probe = []
            self.expr(node.value, env, probe)
            if probe:
                raise Unsupported("subscript of a computed array: bind it to a name first")
            return super().subscript(node, env, pre)
        raise Unsupported("subscript of %s" % v.ty)

    def binop(self, node, env, pre):
        if isinstance(node.op, ast.Div):
            a = self.expr(node.left, env, pre)
            b = self.expr(node.right, env, pre)
            num = lambda v: v.ty in (NUM, INT, NAT)
            if a.ty == MAT and num(b):
                return self.bind(pre, "PyCanon.divNum %s %s" % (a.code, self.as_num(b)), MAT)
            if num(a) and num(b):
                return self.bind(pre, "PyNum.div %s %s" % (self.as_num(a), self.as_num(b)), NUM)
            raise Unsupported("%s / %s" % (a.ty, b.ty))
        return super().binop(node, env, pre)

    def listcomp(self, node, env, pre):
        if len(node.generators) != 1 or node.generators[0].is_async or not isinstance(node.generators[0].target, ast.Name):
            raise Unsupported("comprehension %s" % ast.unparse(node)[:60])
        g = node.generators[0]
        x = g.target.id
        # [i for i in range(n) if i not in l]
        if isinstance(g.iter, ast.Call) and self.dotted(g.iter.func) == "range" and len(g.iter.args) == 1 \
                and isinstance(node.elt, ast.Name) and node.elt.id == x and len(g.ifs) == 1:
            t = g.ifs[0]
            if isinstance(t, ast.Compare) and len(t.ops) == 1 and isinstance(t.ops[0], ast.NotIn) \
                    and isinstance(t.left, ast.Name) and t.left.id == x:
                n = self.expr(g.iter.args[0], env, pre)
                l = self.expr(t.comparators[0], env, pre)
                return V("(PyCanon.rangeFilter %s %s)" % (self.as_int(n), self.as_ilist(l)), ILIST)
        # [f(k) for k in key] over the elements of a PyVal list, f a generated function returning a PyVal
        if not g.ifs:
            it = self.expr(g.iter, env, pre)
            if it.ty == PYVAL:
                benv = dict(env)
                benv[x] = V(x, PYVAL)
                bpre = []
                e = self.expr(node.elt, benv, bpre)
                if e.ty != PYVAL:
                    raise Unsupported("comprehension element of type %s" % e.ty)
                body = bpre + ["pure %s" % e.code]
                if len(bpre) == 1 and bpre[0].startswith("let %s ← " % e.code):
                    body = [bpre[0][len("let %s ← " % e.code):]]
                fn = "(fun (%s : PyVal) => ((do %s) : Except Err PyVal))" % (x, "; ".join(body))
                t = self.bind(pre, "Py.iter %s" % it.code, "PYLIST")
                r = self.bind(pre, "List.mapM %s %s" % (fn, t.code), "PYLIST")
                return V("(PyVal.list %s)" % r.code, PYVAL)
        raise Unsupported("comprehension %s" % ast.unparse(node)[:60])

    def call(self, node, env, pre):
        f = self.dotted(node.func)
        args, kws = node.args, {k.arg: k.value for k in node.keywords}
        if isinstance(node.func, ast.Name) and f in self.localfuncs:
            return self.inline(self.localfuncs[f], node, env, pre)
        if isinstance(node.func, ast.Name) and f in self.calls and not kws:
            self.check_callee(f)
            lean, lead, ptys, rtys = self.calls[f]
            if len(args) != len(ptys):
                raise Unsupported("call %s with %d arguments" % (f, len(args)))
            if f in env:
                raise Unsupported("`%s` is re-bound" % f)
            vs = [self.expr(a, env, pre) for a in args]
            codes = []
            for v, t in zip(vs, ptys):
                codes.append(self.coerce(v, t))
            if len(rtys) != 1:
                raise Unsupported("internal: tuple-valued call in an expression")
            return self.bind(pre, " ".join([lean] + [env[x].code for x in lead] + codes), rtys[0])
        if f == "transpose" and len(args) == 1 and not kws:
            self.need("transpose", IMPORTS["transpose"])
            v = self.expr(args[0], env, pre)
            if v.ty == MAT:
                return V("(PMat.T %s)" % v.code, MAT)
        if f in ("zeros_like", "np.zeros_like") and len(args) == 1 and not kws:
            self.need(f.split(".")[0], IMPORTS[f.split(".")[0]])
            v = self.expr(args[0], env, pre)
            if v.ty == MAT:
                return V("(PyCanon.zerosLike %s)" % v.code, MAT)
        if f == "poly" and len(args) == 1 and not kws:
            self.need("poly", IMPORTS["poly"])
            v = self.expr(args[0], env, pre)
            if v.ty == MAT:
                return self.bind(pre, "PyCanon.poly %s" % v.code, NUMLIST)
        if f in ("ctrb", "obsv") and len(args) == 2 and not kws:
            self.need(f, IMPORTS[f])
            a = self.expr(args[0], env, pre)
            b = self.expr(args[1], env, pre)
            if a.ty == MAT and b.ty == MAT:
                return self.bind(pre, "PyCanon.%s %s %s" % (f, a.code, b.code), MAT)
        if f == "issiso" and len(args) == 1 and not kws:
            self.need("issiso", IMPORTS["issiso"])
            v = self.expr(args[0], env, pre)
            if v.ty == SS:
                return V("(PySS.issiso %s = true)" % v.code, PROP)
        if isinstance(node.func, ast.Attribute) and node.func.attr == "isdtime" and not args \
                and list(kws) == ["strict"] and isinstance(kws["strict"], ast.Constant) \
                and type(kws["strict"].value) is bool:
            v = self.expr(node.func.value, env, pre)
            if v.ty == SS:
                return V("(PyCanon.isdtime %s.dt %s = true)" % (v.code, "true" if kws["strict"].value else "false"), PROP)
        if f == "len" and len(args) == 1 and not kws:
            v = self.expr(args[0], env, pre)
            if v.ty in (ILIST, STRLIST):
                return V("%s.length" % v.code, NAT)
            if v.ty == "EMPTYLIST":
                return V("(0 : Nat)", NAT)
            raise Unsupported("len of %s" % v.ty)
        if isinstance(node.func, ast.Attribute) and node.func.attr == "index" and len(args) == 1 and not kws:
            l = self.expr(node.func.value, env, pre)
            k = self.expr(args[0], env, pre)
            if l.ty == STRLIST and k.ty == PYVAL:
                return V("(PyVal.int %s)" % self.bind(
                    pre, "Py.indexStr (PyVal.list (%s.map PyVal.str)) %s" % (l.code, k.code), INT).code, PYVAL)
        if f == "np.atleast_1d" and len(args) == 1 and not kws:
            self.need("np", IMPORTS["np"])
            v = self.expr(args[0], env, pre)
            if v.ty == PYVAL:
                return self.bind(pre, "PyCanon.atleast1d %s" % v.code, ILIST)
        if f == "np.unique" and len(args) == 1 and not kws:
            self.need("np", IMPORTS["np"])
            v = self.expr(args[0], env, pre)
            if v.ty == ILIST:
                return V("(PyCanon.unique %s)" % v.code, ILIST)
        if isinstance(node.func, ast.Attribute) and node.func.attr == "tolist" and not args and not kws \
                and isinstance(node.func.value, ast.Call) and self.dotted(node.func.value.func) == "np.sort" \
                and len(node.func.value.args) == 1 and not node.func.value.keywords:
            self.need("np", IMPORTS["np"])
            v = self.expr(node.func.value.args[0], env, pre)
            if v.ty == ILIST:
                return V("(PyCanon.sortList %s)" % v.code, ILIST)
        if f == "StateSpace" and len(args) == 1 and not kws:
            raise Unsupported("`StateSpace(x)` (a copy) is supported only as `z = StateSpace(x)`")
        if f == "StateSpace":
            self.need("StateSpace", IMPORTS["StateSpace"])
            if len(args) == 5 and not kws:
                vs = [self.expr(x, env, pre) for x in args]
                if [x.ty for x in vs] == [MAT, MAT, MAT, MAT, DT]:
                    return self.bind(pre, "PySS.mk " + " ".join(x.code for x in vs), SS)
            raise Unsupported("call %s" % ast.unparse(node)[:80])
        return super().call(node, env, pre)

    def check_callee(self, f):
        """a called sibling is the module-level / enclosing `def` of that name (not re-bound, not imported)"""
        if f in self.locals:
            raise Unsupported("`%s` is re-bound inside the function" % f)
        if f in self.bindings and self.bindings[f] != ("def",):
            raise Unsupported("`%s` is bound to %s in the module, expected a def" % (f, self.bindings[f]))

    def coerce(self, v, t):
        if v.ty == t:
            return v.code
        if t == INT and v.ty == NAT:
            return self.as_int(v)
        if t == NUM and v.ty in (INT, NAT):
            return self.as_num(v)
        if t == ILIST and v.ty == "EMPTYLIST":
            return "([] : List Int)"
        if t == PYVAL and v.ty == "EMPTYLIST":
            return "(PyVal.list [])"
        raise Unsupported("argument of type %s where %s is expected" % (v.ty, t))

    def inline(self, fn, node, env, pre):
        """call of a nested `def f(a, b): return <expr>`: arguments left to right, then the expression"""
        if node.keywords or len(node.args) != len(fn.args.args):
            raise Unsupported("call %s" % ast.unparse(node)[:60])
        vs = [self.expr(a, env, pre) for a in node.args]
        benv = dict(env)
        for p, v in zip(fn.args.args, vs):
            benv[p.arg] = v
        body = [s for s in fn.body if not self.is_doc(s)]
        return self.expr(body[0].value, benv, pre)

    # -- tests ----------------------------------------------------------------------------------
    def test(self, node, env, pre):
        if isinstance(node, (ast.Name, ast.Attribute)):
            k = self.key_of(node, env)
            if k is not None and env[k].ty == BOOL:
                return None, "(%s = true)" % env[k].code
        if isinstance(node, ast.Call) and isinstance(node.func, ast.Name) and node.func.id == "isinstance" \
                and len(node.args) == 2 and not node.keywords:
            v = self.expr(node.args[0], env, pre)
            if v.ty == PYVAL:
                cls = {"str": ".str", "list": ".list", "slice": ".slice", "int": ".int", "tuple": ".tuple"}.get(
                    ast.unparse(node.args[1]))
                if cls is None:
                    raise Unsupported("isinstance(%s)" % ast.unparse(node.args[1]))
                return None, "(Py.isinstance %s [%s] = true)" % (v.code, cls)
            r = self.class_matches(v.ty, node.args[1])
            return r, "True" if r else "False"
        if isinstance(node, ast.Compare) and len(node.ops) == 1 and isinstance(node.ops[0], (ast.Is, ast.IsNot)) \
                and isinstance(node.comparators[0], ast.Constant) and node.comparators[0].value is None:
            v = self.expr(node.left, env, pre)
            neg = isinstance(node.ops[0], ast.IsNot)
            if v.ty == PYVAL:
                c = "(Py.isNone %s = true)" % v.code
                return None, ("(¬ %s)" % c if neg else c)
            if v.ty in (ILIST, MAT, SS, NUM, INT, NAT, STR, STRLIST, NUMLIST, DT, BOOL):
                return neg, ("True" if neg else "False")     # an array / list / number is never None
            raise Unsupported("`is None` on %s" % v.ty)
        if isinstance(node, ast.Compare) and len(node.ops) == 1 and isinstance(node.ops[0], (ast.Eq, ast.NotEq)):
            probe = []
            a = self.expr(node.left, env, probe)
            b = self.expr(node.comparators[0], env, probe)
            if a.ty == STR and b.ty == STR:
                pre.extend(probe)
                c = "(%s = %s)" % (a.code, b.code)
                return None, (c if isinstance(node.ops[0], ast.Eq) else "(¬ %s)" % c)
            self.ntmp -= len(probe)
        return super().test(node, env, pre)

    # -- statements -----------------------------------------------------------------------------
    def ret_type(self):
        tys = [LEAN_TY[t] for t in self.job["ret"]]
        return tys[0] if len(tys) == 1 else " × ".join(tys)

    def obj_value(self, name, env, pre):
        """`PySS.mk` of the attribute variables of the mutable copy `name`"""
        codes = []
        for a, _ in FIELDS:
            k = name + "." + a
            self.fresh.discard(k)
            codes.append(env[k].code)
        return self.bind(pre, "PySS.mk " + " ".join(codes), SS)

    def ret_item(self, node, env, pre, ty):
        if isinstance(node, ast.Name) and node.id in env and env[node.id].ty == OBJ:
            v = self.obj_value(node.id, env, pre)
        else:
            v = self.expr(node, env, pre)
        return self.coerce(v, ty), v

    def return_stmt(self, node, env):
        want = self.job["ret"]
        pre = []
        if isinstance(node, ast.Call) and isinstance(node.func, ast.Name) and node.func.id in self.calls \
                and not node.keywords and node.func.id not in env:
            lean, lead, ptys, rtys = self.calls[node.func.id]
            self.check_callee(node.func.id)
            if rtys == want and len(node.args) == len(ptys):
                vs = [self.expr(a, env, pre) for a in node.args]
                return pre + [" ".join([lean] + [env[x].code for x in lead]
                                       + [self.coerce(v, t) for v, t in zip(vs, ptys)])]
        if len(want) == 1:
            code, v = self.ret_item(node, env, pre, want[0])
            if pre and pre[-1].startswith("let %s ← " % code):
                last = pre.pop()
                return pre + [last[len("let %s ← " % code):]]
            return pre + ["pure %s" % code]
        if not (isinstance(node, ast.Tuple) and len(node.elts) == len(want)):
            raise Unsupported("return %s (expected a %d-tuple)" % (ast.unparse(node)[:40], len(want)))
        codes = [self.ret_item(e, env, pre, t)[0] for e, t in zip(node.elts, want)]
        return pre + ["pure (%s)" % ", ".join(codes)]

    def let(self, key, v, env, pre):
        """`key = v` for a name or an attribute variable (static type follows the value)"""
        if v.ty in (SHAPE, PROP, OBJ):
            raise Unsupported("assignment of a %s" % v.ty)
        name = lean_name(key)
        if "." not in key and any(k != key and lean_name(k) == name for k in env):
            raise Unsupported("the name `%s` collides with an attribute variable" % key)
        if v.ty == "EMPTYLIST":
            v = V("([] : List Int)", ILIST)
        self.locals.add(key)
        if pre and pre[-1].startswith("let %s ← " % v.code) and v.code.startswith("t") and v.code[1:].isdigit():
            last = pre.pop()
            self.ntmp -= 1
            lines = pre + ["let %s ← %s" % (name, last[len("let %s ← " % v.code):])]
        else:
            code = v.code
            if v.lit is not None:
                code = "(%d : Int)" % v.lit
            lines = pre + ["let %s : %s := %s" % (name, LEAN_TY[v.ty], code)]
        env[key] = V(name, v.ty)
        return lines

    def raise_stmt(self, s):
        e = s.exc
        if isinstance(e, ast.Call) and isinstance(e.func, ast.Name) and len(e.args) == 1 and not e.keywords:
            cls = e.func.id
            if cls in IMPORTS:
                self.need(cls, IMPORTS[cls])
            elif cls in self.bindings or cls in self.locals:
                raise Unsupported("exception class `%s` is re-bound" % cls)
            m = e.args[0]
            if isinstance(m, ast.BinOp) and isinstance(m.op, ast.Mod):
                m = m.left
            if isinstance(m, ast.Constant) and isinstance(m.value, str):
                return "throw Err.%s" % classify(cls, m.value)
        raise Unsupported("raise %s" % ast.unparse(s)[:60])

    def warn_only(self, s):
        """an `if` whose leaves are all `warnings.warn(...)`"""
        if isinstance(s, ast.If):
            return bool(s.body) and all(self.warn_only(x) for x in list(s.body) + list(s.orelse))
        return isinstance(s, ast.Expr) and isinstance(s.value, ast.Call) and self.dotted(s.value.func) == "warnings.warn"

    def assigned(self, stmts):
        out = set()

        def target(t):
            if isinstance(t, ast.Name):
                out.add(t.id)
            elif isinstance(t, ast.Attribute) and isinstance(t.value, ast.Name):
                out.add(t.value.id + "." + t.attr)
            elif isinstance(t, ast.Subscript):
                target(t.value)
            elif isinstance(t, (ast.Tuple, ast.List)):
                for x in t.elts:
                    target(x)
        for s in stmts:
            for n in ast.walk(s):
                if isinstance(n, ast.Assign):
                    for t in n.targets:
                        target(t)
                elif isinstance(n, (ast.AugAssign, ast.AnnAssign)):
                    target(n.target)
                elif isinstance(n, ast.For):
                    target(n.target)
        return out

    def assign_stmt(self, s, env):
        """one assignment statement -> lines"""
        if len(s.targets) != 1:
            raise Unsupported("chained assignment")
        t = s.targets[0]
        # z = StateSpace(x): a mutable copy
        if isinstance(t, ast.Name) and isinstance(s.value, ast.Call) and self.dotted(s.value.func) == "StateSpace" \
                and len(s.value.args) == 1 and not s.value.keywords:
            self.need("StateSpace", IMPORTS["StateSpace"])
            src = self.expr(s.value.args[0], env, [])
            if src.ty != SS:
                raise Unsupported("StateSpace(%s)" % src.ty)
            lines = []
            env[t.id] = V(None, OBJ)
            self.locals.add(t.id)
            for a, ty in FIELDS:
                code = "%s.dt" % src.code if a == "dt" else "(PySS.%s %s)" % (a, src.code)
                lines += self.let(t.id + "." + a, V(code, ty), env, [])
            return lines
        # tuple call: a, b = f(...)
        if isinstance(t, ast.Tuple) and isinstance(s.value, ast.Call) and isinstance(s.value.func, ast.Name) \
                and s.value.func.id in self.calls and all(isinstance(x, ast.Name) for x in t.elts):
            f = s.value.func.id
            self.check_callee(f)
            lean, lead, ptys, rtys = self.calls[f]
            if len(rtys) != len(t.elts) or s.value.keywords or len(s.value.args) != len(ptys) or f in env:
                raise Unsupported("call %s" % ast.unparse(s.value)[:60])
            pre = []
            vs = [self.expr(a, env, pre) for a in s.value.args]
            codes = [self.coerce(v, ty) for v, ty in zip(vs, ptys)]
            names = [x.id for x in t.elts]
            lines = pre + ["let (%s) ← %s" % (", ".join(names), " ".join(
                [lean] + [env[x].code for x in lead] + codes))]
            for nm, ty in zip(names, rtys):
                env[nm] = V(nm, ty)
                self.locals.add(nm)
                self.fresh.discard(nm)
            return lines
        key = None
        if isinstance(t, ast.Name):
            key = t.id
        elif isinstance(t, ast.Attribute) and isinstance(t.value, ast.Name) and t.value.id in env \
                and env[t.value.id].ty == OBJ and t.attr in dict(FIELDS):
            key = t.value.id + "." + t.attr
        if key is not None:
            pre = []
            v = self.expr(s.value, env, pre)
            if "." in key and v.ty != dict(FIELDS)[t.attr]:
                raise Unsupported("assignment of a %s to .%s" % (v.ty, t.attr))
            lines = self.let(key, v, env, pre)
            if isinstance(s.value, ast.Call) and self.dotted(s.value.func) in ALLOCATORS and v.ty == MAT:
                self.fresh.add(key)
            else:
                self.fresh.discard(key)
            return lines
        if isinstance(t, ast.Tuple) and isinstance(s.value, ast.Tuple) and len(t.elts) == len(s.value.elts) \
                and all(isinstance(x, ast.Name) for x in t.elts):
            names = [x.id for x in t.elts]
            used = {n.id for n in ast.walk(s.value) if isinstance(n, ast.Name)}
            if used & set(names):
                raise Unsupported("tuple assignment that reads its own targets")
            lines = []
            for nm, val in zip(names, s.value.elts):
                pre = []
                v = self.expr(val, env, pre)
                lines += self.let(nm, v, env, pre)
                self.fresh.discard(nm)
            return lines
        if isinstance(t, ast.Subscript):
            key = self.key_of(t.value, env)
            if key is None or env[key].ty != MAT:
                raise Unsupported("item assignment %s" % ast.unparse(t)[:60])
            if key not in self.fresh:
                raise Unsupported("in-place assignment to `%s`, which is not a freshly allocated array that "
                                  "has not been read (it may be shared)" % key)
            x = env[key]
            sl = t.slice
            pre = []
            if isinstance(sl, ast.Tuple) and len(sl.elts) == 2 and not any(isinstance(e, ast.Slice) for e in sl.elts):
                i = self.expr(sl.elts[0], env, pre)
                j = self.expr(sl.elts[1], env, pre)
                v = self.expr(s.value, env, pre)
                if v.ty not in (NUM, INT, NAT):
                    raise Unsupported("element assignment of a %s" % v.ty)
                lines = pre + ["let %s ← PyCanon.setItem %s %s %s %s" % (
                    lean_name(key), x.code, self.as_int(i), self.as_int(j), self.as_num(v))]
            else:
                rs, cs = self.two_slices(sl)
                bounds = [self.slice_bound(rs.lower if rs else None, env, pre),
                          self.slice_bound(rs.upper if rs else None, env, pre),
                          self.slice_bound(cs.lower if cs else None, env, pre),
                          self.slice_bound(cs.upper if cs else None, env, pre)]
                v = self.expr(s.value, env, pre)
                if v.ty != MAT:
                    raise Unsupported("slice assignment of a %s" % v.ty)
                lines = pre + ["let %s ← PMat.setSlice %s %s %s" % (lean_name(key), x.code, " ".join(bounds), v.code)]
            env[key] = V(lean_name(key), MAT)
            self.fresh.add(key)
            return lines
        raise Unsupported("assignment %s" % ast.unparse(s)[:60])

    def for_stmt(self, s, env):
        if s.orelse or not isinstance(s.target, ast.Name):
            raise Unsupported("for statement %s" % ast.unparse(s)[:60])
        it = s.iter
        if not (isinstance(it, ast.Call) and self.dotted(it.func) == "range" and len(it.args) in (1, 2) and not it.keywords):
            raise Unsupported("loop over %s (only range(a, b))" % ast.unparse(it)[:40])
        if "range" in env or "range" in self.bindings:
            raise Unsupported("`range` is re-bound")
        pre = []
        bounds = [self.expr(a, env, pre) for a in it.args]
        lo = "(0 : Int)" if len(bounds) == 1 else self.as_int(bounds[0])
        hi = self.as_int(bounds[-1])
        i = s.target.id
        if i in env:
            raise Unsupported("the loop variable `%s` is already bound" % i)
        carried = sorted(k for k in self.assigned(s.body) if k in env)
        if not carried:
            raise Unsupported("a loop without effect")
        state = [(k, env[k].ty) for k in carried]
        benv = dict(env)
        benv[i] = V(i, INT)
        if len(state) == 1:
            var = lean_name(state[0][0])
            head = []
        else:
            var = self.tmp()
            head = ["let %s : %s := %s.%s" % (lean_name(k), LEAN_TY[t], var,
                                              "1" if n == 0 else ("2" * n + (".1" if n < len(state) - 1 else "")).replace("22", "2.2"))
                    for n, (k, t) in enumerate(state)]
        for k, t in state:
            benv[k] = V(lean_name(k), t)
        fresh0 = set(self.fresh)
        body, ended = self.seq(list(s.body), benv, state)
        if ended:
            raise Unsupported("a loop body that always returns / raises")
        for k, t in state:
            if benv[k].ty != t:
                raise Unsupported("`%s` changes its type in the loop" % k)
        self.fresh = fresh0 & self.fresh
        sty = " × ".join(LEAN_TY[t] for _, t in state)
        init = env[carried[0]].code if len(state) == 1 else "(" + ", ".join(env[k].code for k in carried) + ")"
        pat = lean_name(carried[0]) if len(state) == 1 else "(" + ", ".join(lean_name(k) for k in carried) + ")"
        lines = pre + ["let %s ← List.foldlM (fun (%s : %s) (%s : Int) => ((do" % (pat, var, sty, i)] \
            + _ind(head + body, 4) + ["    : Except Err (%s)))) %s (PyArith.range %s %s)" % (sty, init, lo, hi)]
        for k, t in state:
            env[k] = V(lean_name(k), t)
            self.locals.add(k)
        return lines

    def seq(self, stmts, env, tail):
        """translate a statement list; returns (lines, ended).  `tail`: None = the block must end in
        return / raise; a list of (key, type) = a branch of a join: ends with `pure (vars)`; [] = probe."""
        lines = []
        stmts = [s for s in stmts if not self.is_doc(s) and not isinstance(s, (ast.ImportFrom, ast.Pass))]
        for idx, s in enumerate(stmts):
            rest = stmts[idx + 1:]
            if isinstance(s, ast.FunctionDef):
                if s.name in self.job.get("nested_jobs", ()):
                    continue                      # translated as a job of its own
                body = [b for b in s.body if not self.is_doc(b)]
                a = s.args
                if len(body) == 1 and isinstance(body[0], ast.Return) and body[0].value is not None \
                        and not (a.vararg or a.kwarg or a.kwonlyargs or a.posonlyargs or a.defaults) \
                        and s.name not in env and not s.decorator_list:
                    params = {p.arg for p in a.args}
                    free = {n.id for n in ast.walk(body[0].value) if isinstance(n, ast.Name)} - params
                    if any(x in env or x in self.locals for x in free):
                        raise Unsupported("nested function %s reads local variables" % s.name)
                    self.localfuncs[s.name] = s
                    continue
                raise Unsupported("nested function %s" % s.name)
            if isinstance(s, ast.Return):
                if s.value is None:
                    raise Unsupported("bare return")
                if tail is not None and tail != []:
                    raise Unsupported("return inside a loop / join")
                return lines + self.return_stmt(s.value, env), True
            if isinstance(s, ast.Raise):
                return lines + [self.raise_stmt(s)], True
            if isinstance(s, ast.Assign):
                lines += self.assign_stmt(s, env)
                continue
            if isinstance(s, ast.For):
                lines += self.for_stmt(s, env)
                continue
            if self.warn_only(s):
                self.need("warnings", IMPORTS["warnings"])
                self.notes.append("`if %s: ... warnings.warn(...)` dropped: a warning does not change the result "
                                  "(its tests are assumed not to raise)" % ast.unparse(s.test).replace("\n", " ")[:200])
                continue
            if isinstance(s, ast.If):
                pre = []
                st, cond = self.test(s.test, env, pre)
                if st is True:
                    sub, ended = self.seq(list(s.body) + rest, env, tail)
                    return lines + pre + sub, ended
                if st is False:
                    sub, ended = self.seq(list(s.orelse) + rest, env, tail)
                    return lines + pre + sub, ended
                save, fresh0 = self.ntmp, set(self.fresh)
                benv, eenv = dict(env), dict(env)
                _, b_end = self.seq(list(s.body), benv, [])
                fresh_b = set(self.fresh)
                self.fresh = set(fresh0)
                _, e_end = self.seq(list(s.orelse), eenv, [])
                fresh_e = set(self.fresh)
                self.ntmp = save
                self.fresh = set(fresh0)
                if b_end or e_end:
                    # continuation style: the rest of the block goes into the branch(es) that go on
                    benv, eenv = dict(env), dict(env)
                    bl, b_end = self.seq(list(s.body) + ([] if b_end else rest), benv, tail)
                    fb = set(self.fresh)
                    self.fresh = set(fresh0)
                    el, e_end = self.seq(list(s.orelse) + ([] if e_end else rest), eenv, tail)
                    self.fresh = fb & self.fresh
                    if not b_end:               # the environment after the statement is the one of the
                        env.update(benv)        # branch that goes on (used by an enclosing join)
                    elif not e_end:
                        env.update(eenv)
                    return (lines + pre + ["if %s then" % cond] + _ind(bl) + ["else"] + _ind(el)), (b_end and e_end)
                # join: variables assigned in a branch that are known afterwards
                names = sorted(self.assigned(s.body) | self.assigned(s.orelse))
                live = []
                for nm in names:
                    tb, te = benv.get(nm), eenv.get(nm)
                    if tb is None or te is None:
                        continue            # defined on one path only: not available afterwards
                    if tb.ty != te.ty:
                        if {tb.ty, te.ty} == {NAT, INT}:
                            live.append((nm, INT))
                            continue
                        raise Unsupported("`%s` has type %s / %s after the branches" % (nm, tb.ty, te.ty))
                    if tb.ty == OBJ:
                        raise Unsupported("an object created inside a branch")
                    live.append((nm, tb.ty))
                if not live:
                    raise Unsupported("an if statement without effect")
                benv, eenv = dict(env), dict(env)
                bl, _ = self.seq(list(s.body), benv, live)
                self.fresh = set(fresh0)
                el, _ = self.seq(list(s.orelse), eenv, live)
                self.fresh = fresh_b & fresh_e
                tys = [LEAN_TY[t] for _, t in live]
                pat = lean_name(live[0][0]) if len(live) == 1 else "(" + ", ".join(lean_name(nm) for nm, _ in live) + ")"
                ty = tys[0] if len(tys) == 1 else " × ".join(tys)
                lines += pre + ["let %s ← (do" % pat] + _ind(["if %s then" % cond] + _ind(bl) + ["else"] + _ind(el)) \
                    + ["  : Except Err (%s))" % ty]
                for nm, t in live:
                    env[nm] = V(lean_name(nm), t)
                    self.locals.add(nm)
                livenames = [nm for nm, _ in live]
                for nm in names:
                    if nm not in livenames:
                        env.pop(nm, None)
                continue
            raise Unsupported("statement %s" % ast.unparse(s)[:60])
        if tail is None:
            raise Unsupported("a path falls off the end of the function (Python returns None)")
        if tail == []:
            return lines, False
        vals = []
        for nm, t in tail:
            if nm not in env:
                raise Unsupported("internal: join variable undefined")
            vals.append(self.as_int(env[nm]) if (t == INT and env[nm].ty == NAT) else env[nm].code)
        return lines + ["pure %s" % (vals[0] if len(vals) == 1 else "(" + ", ".join(vals) + ")")], False


def lean_str(s):
    out = []
    for ch in s:
        if ch == '"' or ch == "\\":
            out.append("\\" + ch)
        elif ch == "\n":
            out.append("\\n")
        elif 32 <= ord(ch) < 127:
            out.append(ch)
        else:
            out.append("\\u{%x}" % ord(ch))
    return '"' + "".join(out) + '"'


# -------------------------------------------------------------------------------------------------
# jobs
#   path     : the (nested) function: ["model_reduction", "_process_elim_or_keep"]
#   params   : [(python parameter, static type)] in the order of the Python signature; a parameter of type
#              SS may carry `attrs`: further Lean parameters for attributes the body reads (labels)
#   closure  : [(free variable of a nested function, type)] -> leading Lean parameters
#   ret      : the static types of the returned value(s)
# -------------------------------------------------------------------------------------------------
CANON = "control/canonical.py"
MODELSIMP = "control/modelsimp.py"
JOBS = [
    dict(path=["similarity_transform"], rel=CANON, lean="similarityTransform",
         params=[("xsys", SS), ("T", MAT), ("timescale", NUM), ("inverse", BOOL)],
         defaults={"timescale": "1", "inverse": "False"}, ret=[SS], out="CanonSimilarity.lean"),
    dict(path=["reachable_form"], rel=CANON, lean="reachableForm", params=[("xsys", SS)], defaults={},
         ret=[SS, MAT], out="CanonReachable.lean"),
    dict(path=["observable_form"], rel=CANON, lean="observableForm", params=[("xsys", SS)], defaults={},
         ret=[SS, MAT], out="CanonObservable.lean"),
]
JOBS += [
    # `modal_form` is not translated: it is a PARAMETER of the generated function (the equality theorem holds for
    # every value of it on the forms the model covers)
    dict(path=["canonical_form"], rel=CANON, lean="canonicalForm", params=[("xsys", SS), ("form", STR)],
         defaults={"form": "'reachable'"}, ret=[SS, MAT], out="CanonForm.lean",
         opaque=[("modal_form", "DSS K → Except Err (DSS K × PMat K)")],
         calls={"reachable_form": ("reachableForm", [], [SS], [SS, MAT]),
                "observable_form": ("observableForm", [], [SS], [SS, MAT]),
                "modal_form": ("modal_form", [], [SS], [SS, MAT])}),
]
KEYS = ["elim_states", "elim_inputs", "elim_outputs", "keep_states", "keep_inputs", "keep_outputs"]
MR = ["model_reduction"]
PEK = MR + ["_process_elim_or_keep"]
JOBS += [
    # `_expand_key` is recursive (through a list comprehension): the Lean definition recurses on `fuel`, the
    # bound on the nesting depth of the key (`notImplemented` when it is exceeded)
    dict(path=PEK + ["_expand_key"], rel=MODELSIMP, lean="expandKey", closure=[("labels", STRLIST)], fuel="def",
         params=[("key", PYVAL)], defaults={}, ret=[PYVAL], out="CanonReduceKeys.lean",
         calls={"_expand_key": ("expandKey", ["labels", "fuel"], [PYVAL], [PYVAL])}),
    dict(path=PEK + ["_resolve"], rel=MODELSIMP, lean="resolve", closure=[("labels", STRLIST)], fuel="pass",
         params=[("key", PYVAL)], defaults={}, ret=[ILIST], out="CanonReduceKeys.lean",
         calls={"_expand_key": ("expandKey", ["labels", "fuel"], [PYVAL], [PYVAL])}),
    dict(path=PEK, rel=MODELSIMP, lean="processElimOrKeep", fuel="pass",
         params=[("elim", PYVAL), ("keep", PYVAL), ("labels", STRLIST)], defaults={}, ret=[ILIST, ILIST],
         out="CanonReduceKeys.lean", nested_jobs=("_expand_key", "_resolve"),
         calls={"_resolve": ("resolve", ["labels", "fuel"], [PYVAL], [ILIST])}),
    dict(path=MR, rel=MODELSIMP, lean="modelReduction", fuel="pass",
         params=[("sys", SS), ("elim_states", PYVAL), ("method", STR), ("elim_inputs", PYVAL), ("elim_outputs", PYVAL),
                 ("keep_states", PYVAL), ("keep_inputs", PYVAL), ("keep_outputs", PYVAL), ("warn_unstable", BOOL)],
         attrs={"sys": [("state_labels", STRLIST), ("input_labels", STRLIST), ("output_labels", STRLIST)]},
         defaults=dict([(k, "None") for k in KEYS] + [("method", "'matchdc'"), ("warn_unstable", "True")]),
         ret=[SS], out="CanonReduce.lean", nested_jobs=("_process_elim_or_keep",),
         calls={"_process_elim_or_keep": ("processElimOrKeep", ["fuel"], [PYVAL, PYVAL, STRLIST], [ILIST, ILIST])}),
]
FILES = [("CanonSimilarity.lean", []), ("CanonReachable.lean", []), ("CanonObservable.lean", []),
         ("CanonForm.lean", ["CanonReachable", "CanonObservable"]),
         ("CanonReduceKeys.lean", []), ("CanonReduce.lean", ["CanonReduceKeys"])]


def find_function(module, path):
    body = module.body
    fn = None
    for name in path:
        found = [n for n in body if isinstance(n, ast.FunctionDef) and n.name == name]
        if len(found) != 1:
            raise Unsupported("function %s %s" % (".".join(path), "not found" if not found else "defined twice"))
        fn = found[0]
        body = fn.body
    return fn


def signature(job, prefix=""):
    parts = []
    for n, t in job.get("opaque", []):
        parts.append("(%s%s : %s)" % (prefix, n, t))
    for n, t in job.get("closure", []):
        parts.append("(%s%s : %s)" % (prefix, n, LEAN_TY[t]))
    if job.get("fuel"):
        parts.append("(%sfuel : Nat)" % prefix)
    for n, t in job["params"]:
        if t is None:
            continue
        parts.append("(%s%s : %s)" % (prefix, n, LEAN_TY[t]))
        for a, at in job.get("attrs", {}).get(n, []):
            parts.append("(%s%s_%s : %s)" % (prefix, n, a, LEAN_TY[at]))
    return " ".join(parts)


def ret_lean(job):
    tys = [LEAN_TY[t] for t in job["ret"]]
    return tys[0] if len(tys) == 1 else " × ".join(tys)


def translate(src, module, bindings, job, available):
    """-> (lean text of the definition, info)"""
    fn = find_function(module, job["path"])
    a = fn.args
    if a.vararg or a.kwarg or a.kwonlyargs or a.posonlyargs or fn.decorator_list:
        raise Unsupported("signature")
    got = [x.arg for x in a.args]
    want = [n for n, _ in job["params"]]
    if got != want:
        raise Unsupported("parameters %s, expected %s" % (got, want))
    defaults = dict(zip(got[len(got) - len(a.defaults):], [ast.unparse(d) for d in a.defaults]))
    if defaults != job["defaults"]:
        raise Unsupported("default values %s, expected %s" % (defaults, job["defaults"]))
    text = ast.get_source_segment(src, fn)
    sha = hashlib.sha256(text.encode()).hexdigest()
    tr = Translator(job, bindings, available)
    env = {}
    for n, t in job.get("closure", []):
        env[n] = V(n, t)
    for n, t in job["params"]:
        if t is None:
            continue
        env[n] = V(n, t)
        for at, aty in job.get("attrs", {}).get(n, []):
            env[n + "." + at] = V("%s_%s" % (n, at), aty)
    if job.get("fuel"):
        if any(isinstance(n, ast.Name) and n.id == "fuel" for n in ast.walk(fn)) or "fuel" in got:
            raise Unsupported("the name `fuel` is used by the function")
        env["fuel"] = V("fuel", NAT)
    lines, _ = tr.seq(fn.body, env, None)
    where = job["rel"] + ":" + ".".join(job["path"])
    notes = []
    for n in tr.notes:
        if n not in notes:
            notes.append(n)
    doc = ("/-- `%s` as the source text says it (sha256 of the function text\n%s).\nDefaults: %s.%s -/\n" % (
        where, sha, ", ".join("%s=%s" % kv for kv in sorted(defaults.items())) or "none",
        "".join("\n  note: " + n.replace("-/", "- /") for n in notes)))
    if job.get("fuel") == "def":
        body = ["match fuel with", "| 0 => throw Err.notImplemented   -- nesting deeper than `fuel`", "| fuel + 1 =>"] \
            + _ind(["do"] + _ind(lines))
    else:
        body = ["do"] + _ind(lines)
    lean = doc + "def %s %s : Except Err (%s) :=\n" % (job["lean"], signature(job), ret_lean(job)) \
        + "\n".join(_ind(body)) + "\n"
    return lean, {"sha": sha, "lines": fn.end_lineno - fn.lineno + 1, "temporaries": tr.ntmp, "notes": notes}


def regenerate(repo, lean_dir, only=None):
    """Rewrite Generated/Canon*.lean; returns (list of problems, info dict)."""
    problems, info = [], {}
    gen_dir = os.path.join(lean_dir, "CtrlVerif", "Generated")
    os.makedirs(gen_dir, exist_ok=True)
    loaded = {}
    for rel in sorted({j["rel"] for j in JOBS}):
        try:
            src = open(os.path.join(repo, rel)).read()
            module = ast.parse(src)
            loaded[rel] = (src, module, module_bindings(module), None)
        except (OSError, SyntaxError) as e:
            loaded[rel] = (None, None, None, str(e))
    available = {}
    texts = {out: [] for out, _ in FILES}
    for job in JOBS:
        where = job["rel"] + ":" + ".".join(job["path"])
        key = ".".join(job["path"])
        src, module, bindings, load_error = loaded[job["rel"]]
        try:
            if load_error:
                raise Unsupported(load_error)
            lean, inf = translate(src, module, bindings, job, available)
            info[key] = inf
        except Unsupported as e:
            msg = str(e).replace("\n", " ").replace("-/", "- /")[:300]
            problems.append("py2lean_canon: %s cannot be translated: %s" % (where, msg))
            # a definition that cannot be equal to the model, so the obligation visibly fails
            sig = signature(job, "_")
            lean = "/-- translation of `%s` FAILED: %s -/\ndef %s %s : Except Err (%s) :=\n  .error Err.notImplemented\n" % (
                where, msg, job["lean"], sig, ret_lean(job))
        available[key] = job["lean"]
        texts[job["out"]].append(lean)
    for out, deps in FILES:
        if only and out not in only:
            continue
        jobs = [j for j in JOBS if j["out"] == out]
        shas = ", ".join("%s %s" % (".".join(j["path"]), info[".".join(j["path"])]["sha"][:16]
                                    if ".".join(j["path"]) in info else "FAILED") for j in jobs)
        rels = ", ".join(sorted({j["rel"] for j in jobs}))
        text = ("-- GENERATED on every run by harness/core/py2lean_canon.py from %s (%s).  Do not edit.\n" % (rels, shas)
                + "import CtrlVerif.Model.PyCanon\n"
                + "".join("import CtrlVerif.Generated.%s\n" % d for d in deps)
                + "\nnamespace CtrlVerif.Generated\n\nopen CtrlVerif\n\nnoncomputable section\n\n"
                + "variable {K : Type} [Field K] [DecidableEq K]\n\n"
                + "\n".join(texts[out]) + "\nend\n\nend CtrlVerif.Generated\n")
        p = os.path.join(gen_dir, out)
        old = open(p).read() if os.path.exists(p) else None
        if old != text:
            with open(p, "w") as f:
                f.write(text)
    return problems, info


if __name__ == "__main__":
    import sys
    probs, inf = regenerate(sys.argv[1], sys.argv[2])
    for p in probs:
        print("PROBLEM", p)
    for k, v in inf.items():
        print(k, v["sha"][:16], v["lines"], "lines,", v["temporaries"], "temporaries", v["notes"])
