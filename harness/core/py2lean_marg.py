"""Translator Python `ast` -> Lean 4 for the SELECTION LOGIC of stability margins and bandwidth
(property C12; DESIGN §10.3, notes/NOTES-py2lean-margins.md).

On every run of `check.py C12` (hook `Family.pre_build`, `VERIF_REPO` honoured) it rewrites
    lean/CtrlVerif/Generated/MargIwSel.lean   polyIwRealCrossingSel, polyIwMag1CrossingSel, polyIwWstabSel
    lean/CtrlVerif/Generated/MargZSel.lean    zFilter, polyZRealCrossingSel, polyZMag1CrossingSel
    lean/CtrlVerif/Generated/MargSel.lean     smCand, smSelect, smReturn, stabilityMarginsSel
    lean/CtrlVerif/Generated/MargMargin.lean  smMargin
    lean/CtrlVerif/Generated/MargPcf.lean     phaseCrossoverFrequencies
    lean/CtrlVerif/Generated/MargBandwidth.lean  ltiBandwidth
from the source text of control/margins.py and control/lti.py of the tree under check;
`Props/C12GenSel*.lean`, `C12GenSm*.lean`, `C12GenMargin.lean`, `C12GenBw.lean` prove the hand-written
model (`Model/Margins.lean`) EQUAL to them.  A semantic edit of the source breaks an equality; an edit
that leaves the supported subset makes the translation fail: every definition of that file is then
emitted as `.error Err.notImplemented` (which cannot equal the model) and the problem is returned to
the runner (a broken proof obligation).

Value model (fixed in `lean/CtrlVerif/Model/PyMarg.lean`, hand-written, trusted): finite float = element
of an ordered field `K`, exact arithmetic; float that may be non-finite = `PyMarg.XF K`; complex =
`Margins.Cx K`; value of the loop (complex, possibly non-finite) = `Option (Cx K)`; 1-D arrays = lists;
boolean array = `List Bool`; index array = `List Nat`; transcendental functions and external routines
(`np.roots`, `np.abs` of a complex number, `np.angle`, `np.log`, `np.pi`, `finfo.eps ** x`, `10 ** x`,
`np.exp(1j x)`) are the fields of the parameter `P : PyMarg.Prims K`; `sys(·)`, `_poly_iw(sys)`,
`_poly_z_wstab(..)`, `scipy.optimize.root_scalar`, `_default_frequency_range`, `frequency_response`,
`dcgain()` are inputs of the generated functions.

How the pieces of the source are located
  root filters   `_poly_iw_real_crossing`, `_poly_iw_mag1_crossing`, `_poly_iw_wstab`, `_poly_z_real_crossing`,
                 `_poly_z_mag1_crossing`: the unique top-level statement `<x> = np.roots(<arg>)` splits the
                 function.  Everything before it is the HEAD, which `py2lean_arith.py` regenerates as
                 `Generated.poly…` (result: `<arg>`, for the discrete functions also `p2`); the generated
                 function calls that definition, applies `P.npRoots` and continues with the translated
                 TAIL.  The tail may read from the head only `<arg>` (when it is a name) and `p2`.
  stability_margins  the unique statement `if isinstance(<sys>, xferfcn.TransferFunction):` that is a direct
                 child of the function body and has an `else`; its body (the `else` = FRD branch is outside
                 the tie) followed by the rest of the function is cut into three definitions: the first
                 statement (`if <sys>.isctime(): ..`) = `smCand`, the last statement (`if returnall: ..`) =
                 `smReturn`, what lies between = `smSelect`; the variables a later piece reads are passed on
                 in an order that does not depend on names or on the order of independent statements
                 (`_canon_order`: by the component of the returned tuple they flow into, then by type).
  margin, phase_crossover_frequencies, LTI.bandwidth   whole bodies.

Supported subset (anything else raises `Unsupported`): see `Tr.expr` / `Tr.block`; in short
  statements  docstring; `x = e`; `a, b = e` for a tuple-valued `e`; `if/elif/else` (a branch that raises /
              returns takes the rest of the block into the other branch; otherwise the re-bound names are
              joined: `np.where(..)` tuple with `int` -> `PyMarg.WIdx`, a name bound on one path only -> an
              `Option` whose use is `PyMarg.bound`); `with np.errstate(..):` (transparent); `return`;
              `raise E(..)`; `import` / `from .. import` inside a function (names must not be re-bound);
              `def f(w): return e` with a pure `e` (a local function)
  expressions literals (ints, exact floats, `1j`, `float('inf')`, `float('nan')`, `np.inf`, `np.nan`, `np.pi`);
              `+ - * /` on scalars / arrays by NumPy's elementwise rules; comparisons (array with scalar ->
              boolean array; `resp <= 0.` on loop values -> `PyMarg.cle0`); `not / and / or` of tests with
              Python truthiness of ints; the idiom `(test and <truthy float literal>) or e`; boolean-mask,
              index-array and integer subscripts, `[0]`, `.shape[0]`, `len`; tuple items; `np.isreal, real,
              abs, angle, remainder, log, isinf, .all(), min, amin, argsort, where, nonzero, polyval,
              polyder, roots, exp(1j x), finfo(float).eps ** x, 10 ** x, isscalar`; calls of the other
              translated functions (`*tuple` and keyword arguments resolved against the callee's
              parameter list); the inputs named by the job (by source text).
Evaluation order: effectful sub-expressions are bound left to right before the statement that uses them.
"""
import ast
import hashlib
import os
from fractions import Fraction

from core.py2lean import Unsupported
from core.py2lean_arith import _ind, _do, _paren
from core import py2lean_arith

# ---- types ---------------------------------------------------------------------------------------
K, INT, XF, BOOL, PROP, CPX, RESP, IMAG, STR = "K", "Int", "XF", "Bool", "Prop", "Cx", "Resp", "Imag", "String"
ARR, XARR, CARR, RARR, BARR, IARR = "List K", "List XF", "List Cx", "List Resp", "List Bool", "List Nat"
CPOLY, WTUP, WIDX, NAT = "CPoly", "WhereTuple", "WIdx", "Nat"
LEAN_TY = {
    K: "K", INT: "Int", XF: "PyMarg.XF K", BOOL: "Bool", CPX: "Cx K", RESP: "Option (Cx K)", NAT: "Nat",
    ARR: "List K", XARR: "List (PyMarg.XF K)", CARR: "List (Cx K)", RARR: "List (Option (Cx K))",
    BARR: "List Bool", IARR: "List Nat", CPOLY: "(List K × List K)", WTUP: "List Nat", WIDX: "PyMarg.WIdx",
    STR: "String"}
BINDERS = "{K : Type} [Field K] [LinearOrder K] (P : PyMarg.Prims K)"
# `np.remainder` needs a floor function
BINDERS_FLOOR = "{K : Type} [Field K] [LinearOrder K] [IsStrictOrderedRing K] [FloorRing K] (P : PyMarg.Prims K)"
RESERVED = {
    "P", "K", "List", "Int", "Nat", "String", "Bool", "Prop", "Type", "Sort", "Err", "Except", "PyMarg", "PyArith",
    "Margins", "Cx", "pure", "decide", "at", "from", "end", "do", "fun", "let", "open", "in", "if", "then", "else",
    "match", "with", "show", "have", "by", "def", "theorem", "lemma", "namespace", "section", "variable", "where",
    "instance", "class", "structure", "deriving", "import", "export", "universe", "mutual", "private", "protected",
    "return", "for", "calc", "using", "suffices", "obtain", "nomatch", "nofun", "macro", "syntax", "notation",
    "infix", "infixl", "infixr", "prefix", "postfix", "attribute", "local", "set_option", "extends", "example",
    "axiom", "abbrev", "inductive", "noncomputable", "partial", "unsafe", "opaque", "mut", "unless", "forall",
    "exists", "this", "true", "false", "mod", "div", "fst", "snd", "id", "some", "none", "polyval", "polyadd",
    "sysEval", "ctime", "polyIwSys", "num0", "den0", "dt0", "zWstab", "siso", "dtime", "dcgain0", "omega0",
    "freqResp", "rootScalar", "stabilityMargins", "isScalar",
    "polyIwRealCrossingSel", "polyIwMag1CrossingSel", "polyIwWstabSel", "zFilter", "polyZRealCrossingSel",
    "polyZMag1CrossingSel", "smCand", "smSelect", "smReturn", "stabilityMarginsSel", "margin",
    "phaseCrossoverFrequencies", "ltiBandwidth", "smMargin", "polyZInvz", "polyIwRealCrossing", "polyIwMag1Crossing",
    "polyIwWstab", "polyZRealCrossing", "polyZMag1Crossing"}


def tup(*tys):
    return ("tuple",) + tuple(tys)


def opt(t):
    return ("opt", t)


def fun(arg, res):
    return ("fun", arg, res)


def lean_ty(t):
    if isinstance(t, tuple):
        if t[0] == "tuple":
            return "(" + " × ".join(lean_ty(x) for x in t[1:]) + ")"
        if t[0] == "opt":
            return "Option (%s)" % lean_ty(t[1])
        if t[0] == "fun":
            return "(%s → %s)" % (lean_ty(t[1]), lean_ty(t[2]))
        if t[0] == "list":
            return "List %s" % t[1]
        if t[0] == "obj":
            return t[1]
    if t not in LEAN_TY:
        raise Unsupported("a value of type %s cannot be stored" % (t,))
    return LEAN_TY[t]


def proj(code, i, n):
    """i-th component of a right-nested n-tuple"""
    if n == 1:
        return code
    return _paren(code) + "".join(".2" for _ in range(i)) + ("" if i == n - 1 else ".1")


def lean_name(name):
    if not name.isidentifier() or not name.isascii():
        raise Unsupported("the variable name `%s` cannot be used in the generated code" % name)
    if name.startswith("_"):
        return "u" + name + "'"
    if name in RESERVED or (name[:1] == "t" and name[1:].isdigit()):
        return name + "'"
    return name


def klit(q):
    q = Fraction(q)
    if q.denominator == 1:
        return "(%d : K)" % q.numerator
    return "((%d : K) / %d)" % (q.numerator, q.denominator)


class Val:
    def __init__(self, code, ty, lit=None):
        self.code, self.ty, self.lit = code, ty, lit


class Ret(Exception):
    pass


# ---- the translator ------------------------------------------------------------------------------
class Tr:
    """`job` keys: opaque {source text: (lean, type, effectful)}, callables {source text of the callee:
    (lean function, result-elementwise)}, callees {python name: (lean, needs P, [param names], [param
    types], result type)}, exc {exception class: Err}, ret (how `return` values are packed)."""

    def __init__(self, module, fn, job):
        self.module, self.fn, self.job = module, fn, job
        self.ntmp = 0
        self.locals = {a.arg for a in ast.walk(fn) if isinstance(a, ast.arg)}
        for node in ast.walk(fn):
            if isinstance(node, ast.Name) and isinstance(node.ctx, (ast.Store, ast.Del)):
                self.locals.add(node.id)
            elif isinstance(node, ast.FunctionDef) and node is not fn:
                self.locals.add(node.name)
        self.imported = set()
        for node in ast.walk(fn):
            if isinstance(node, (ast.Import, ast.ImportFrom)):
                for a in node.names:
                    self.imported.add(a.asname or a.name.split(".")[0])

    def check_builtin(self, b):
        if b in self.locals or b in self.imported or not self.unbound_at_module_level(b):
            raise Unsupported("the builtin `%s` is re-bound" % b)

    # -- module-level names ----------------------------------------------------------------------
    def unbound_at_module_level(self, name):
        for node in self.module.body:
            if isinstance(node, (ast.FunctionDef, ast.ClassDef)) and node.name == name:
                return False
            if isinstance(node, ast.Assign) and any(isinstance(t, ast.Name) and t.id == name for t in node.targets):
                return False
            if isinstance(node, (ast.Import, ast.ImportFrom)) and \
                    any((a.asname or a.name.split(".")[0]) == name for a in node.names):
                return False
        return True

    def module_binds_once(self, name):
        n = 0
        for node in self.module.body:
            if isinstance(node, (ast.Import, ast.ImportFrom)):
                n += sum(1 for a in node.names if (a.asname or a.name.split(".")[0]) == name)
            elif isinstance(node, (ast.FunctionDef, ast.ClassDef)) and node.name == name:
                n += 1
            elif isinstance(node, ast.Assign):
                n += sum(1 for t in node.targets if isinstance(t, ast.Name) and t.id == name)
        return n == 1

    def is_np(self, node):
        if not (isinstance(node, ast.Name) and node.id not in self.locals and node.id not in self.imported):
            return False
        ok = any(isinstance(n, ast.Import) and any(a.name == "numpy" and (a.asname or "numpy") == node.id
                                                    for a in n.names) for n in self.module.body)
        return ok and self.module_binds_once(node.id)

    def np_attr(self, node):
        if isinstance(node, ast.Attribute) and self.is_np(node.value):
            return node.attr
        return None

    def is_module_function(self, name):
        if name in self.locals or name in self.imported:
            return False
        defs = [n for n in self.module.body if isinstance(n, ast.FunctionDef) and n.name == name]
        return len(defs) == 1 and self.module_binds_once(name)

    # -- helpers ---------------------------------------------------------------------------------
    def fresh(self):
        self.ntmp += 1
        return "t%d" % self.ntmp

    def bind(self, binds, rhs, ty):
        t = self.fresh()
        binds.append("let %s ← %s" % (t, rhs))
        return Val(t, ty)

    def kcast(self, v):
        if v.ty == K:
            return v
        if v.ty == INT:
            if v.lit is not None:
                return Val(klit(v.lit), K, lit=v.lit)
            return Val("((%s : Int) : K)" % v.code, K)
        raise Unsupported("a value of type %s where a finite float is needed" % (v.ty,))

    def xcast(self, v):
        if v.ty == XF:
            return v
        return Val("(PyMarg.XF.fin %s)" % self.kcast(v).code, XF)

    def cast(self, v, ty):
        if v.ty == ty:
            return v
        if ty == K:
            return self.kcast(v)
        if ty == XF:
            return self.xcast(v)
        if ty == XARR and v.ty == ARR:
            return Val("(List.map PyMarg.XF.fin %s)" % v.code, XARR)
        if ty == WIDX and v.ty == WTUP:
            return Val("(PyMarg.WIdx.tup %s)" % v.code, WIDX)
        if ty == WIDX and v.ty == INT:
            return Val("(PyMarg.WIdx.int %s)" % v.code, WIDX)
        if ty == CPX and v.ty == IMAG:
            return Val("(Margins.jw %s)" % v.code, CPX)
        if ty == PROP:
            return self.prop(v)
        raise Unsupported("a value of type %s where %s is needed" % (v.ty, ty))

    @staticmethod
    def join_ty(a, b):
        if a == b:
            return a
        s = {a, b} if not (isinstance(a, tuple) or isinstance(b, tuple)) else None
        if s == {INT, K}:
            return K
        if s is not None and s <= {INT, K, XF} and XF in s:
            return XF
        if s == {WTUP, INT} or s == {WIDX, INT} or s == {WIDX, WTUP}:
            return WIDX
        if s == {ARR, XARR}:
            return XARR
        return None

    def prop(self, v):
        """Python truthiness"""
        if v.ty == PROP:
            return v
        if v.ty == BOOL:
            return Val("(%s = true)" % v.code, PROP)
        if v.ty == INT:
            return Val("(%s ≠ 0)" % v.code, PROP)
        raise Unsupported("the truth value of a %s" % (v.ty,))

    def map1(self, body, arr, ty, var="x"):
        """elementwise operation: `body` is Lean code in the variable `var`"""
        if body == var:
            return Val(arr.code, ty)
        return Val("(List.map (fun %s => %s) %s)" % (var, body, arr.code), ty)

    # -- expressions -----------------------------------------------------------------------------
    def opaque(self, node, env, binds):
        src = ast.unparse(node)
        ent = self.job.get("opaque", {}).get(src)
        if ent is None:
            return None
        lean, ty, effect = ent[:3]
        req = ent[3] if len(ent) > 3 else {}
        for n in ast.walk(node):
            if isinstance(n, ast.Name) and isinstance(n.ctx, ast.Load) and n.id in self.locals \
                    and env.get(n.id, (None,))[0] != "object" \
                    and not (n.id in req and env.get(n.id, (None,))[0] == req[n.id]):
                raise Unsupported("`%s`: `%s` is not what the job expects here" % (src, n.id))
        if effect:
            return self.bind(binds, lean, ty)
        return Val(lean, ty)

    def expr(self, node, env, binds):
        o = self.opaque(node, env, binds)
        if o is not None:
            return o
        src = ast.unparse(node)
        if isinstance(node, ast.Constant):
            v = node.value
            if type(v) is bool:
                return Val("true" if v else "false", BOOL)
            if type(v) is int:
                return Val(str(v) if v >= 0 else "(%d)" % v, INT, lit=Fraction(v))
            if type(v) is float:
                q = Fraction(repr(v))
                if float(q) != v or Fraction(v) != q:
                    raise Unsupported("float literal %r is not an exact binary fraction" % v)
                return Val(klit(q), K, lit=q)
            if type(v) is complex and v == 1j:
                return Val("(1 : K)", IMAG, lit=Fraction(1))
            if type(v) is str:
                if '"' in v or "\\" in v or not v.isprintable():
                    raise Unsupported("string literal %r" % v)
                return Val('"%s"' % v, STR)
            raise Unsupported("constant %r" % (v,))
        if isinstance(node, ast.Name):
            if node.id not in env:
                raise Unsupported("the name `%s` is not a value here" % node.id)
            e = env[node.id]
            ty = e[0]
            code = e[1] if len(e) > 1 and e[1] else lean_name(node.id)
            if ty == "object":
                raise Unsupported("the object `%s` used as a value" % node.id)
            if isinstance(ty, tuple) and ty[0] == "opt":
                return self.bind(binds, "PyMarg.bound %s" % code, ty[1])
            return Val(code, ty)
        if isinstance(node, ast.Attribute):
            a = self.np_attr(node)
            if a == "pi":
                return Val("P.pi", K)
            if a == "inf":
                return Val("PyMarg.XF.pinf", XF)
            if a == "nan":
                return Val("PyMarg.XF.nan", XF)
            v = self.expr(node.value, env, binds)
            if isinstance(v.ty, tuple) and v.ty[0] == "obj" and node.attr in v.ty[2]:
                lean, ty = v.ty[2][node.attr]
                return Val(lean % v.code, ty)
            raise Unsupported("attribute %s" % src[:60])
        if isinstance(node, ast.UnaryOp) and isinstance(node.op, ast.USub):
            v = self.expr(node.operand, env, binds)
            if v.ty == INT and v.lit is not None:
                return Val("(%d)" % (-v.lit), INT, lit=-v.lit)
            if v.ty == K and v.lit is not None:
                return Val(klit(-v.lit), K, lit=-v.lit)
            if v.ty in (INT, K):
                return Val("(-%s)" % v.code, v.ty)
            if v.ty == XF:
                return Val("(PyMarg.XF.neg %s)" % v.code, XF)
            raise Unsupported("negation of %s" % (v.ty,))
        if isinstance(node, ast.UnaryOp) and isinstance(node.op, ast.Not):
            v = self.prop(self.expr(node.operand, env, binds))
            return Val("(¬ %s)" % v.code, PROP)
        if isinstance(node, ast.BinOp):
            return self.binop(node, env, binds)
        if isinstance(node, ast.Compare):
            return self.compare(node, env, binds)
        if isinstance(node, ast.BoolOp):
            return self.boolop(node, env, binds)
        if isinstance(node, ast.Subscript) and isinstance(node.ctx, ast.Load):
            return self.subscript(node, env, binds)
        if isinstance(node, ast.Call):
            return self.call(node, env, binds)
        if isinstance(node, ast.Lambda):
            return self.lambda_(node.args, node.body, env)
        if isinstance(node, ast.Tuple) and isinstance(node.ctx, ast.Load):
            vs = [self.expr(x, env, binds) for x in node.elts]
            return Val("(" + ", ".join(v.code for v in vs) + ")", tup(*[v.ty for v in vs]))
        raise Unsupported("expression %s" % src[:80])

    def lambda_(self, args, body, env):
        if args.vararg or args.kwarg or args.kwonlyargs or args.posonlyargs or args.defaults or len(args.args) != 1:
            raise Unsupported("a local function that does not take exactly one positional argument")
        w = args.args[0].arg
        inner = dict(env)
        inner[w] = (K,)
        b = []
        v = self.expr(body, inner, b)
        if b:
            raise Unsupported("a local function whose body can fail")
        if v.ty not in LEAN_TY:
            raise Unsupported("a local function returning a %s" % (v.ty,))
        return Val("(fun (%s : K) => %s)" % (lean_name(w), v.code), fun(K, v.ty))

    def boolop(self, node, env, binds):
        # the idiom `(test and <truthy float literal>) or e`
        if isinstance(node.op, ast.Or) and len(node.values) == 2 and isinstance(node.values[0], ast.BoolOp) \
                and isinstance(node.values[0].op, ast.And) and len(node.values[0].values) == 2:
            tnode, lnode = node.values[0].values
            lb = []
            try:
                lit = self.expr(lnode, env, lb)
            except Unsupported:
                lit = None
            if lit is not None and not lb and lit.ty in (K, INT, XF) and self.truthy_literal(lnode):
                t = self.prop(self.expr(tnode, env, binds))
                cb = []
                c = self.expr(node.values[1], env, cb)
                ty = self.join_ty(lit.ty, c.ty)
                if ty is None:
                    raise Unsupported("`(t and %s) or %s`: types %s and %s" % (
                        ast.unparse(lnode), ast.unparse(node.values[1])[:40], lit.ty, c.ty))
                r = self.fresh()
                binds.append("let %s ← ((if %s then (pure %s)\n  else %s) : Except Err (%s))" % (
                    r, t.code, self.cast(lit, ty).code, _ind(_do(cb + ["pure %s" % self.cast(c, ty).code]), 2).lstrip(),
                    lean_ty(ty)))
                return Val(r, ty)
        vs = []
        for i, x in enumerate(node.values):
            b = [] if i else binds
            v = self.prop(self.expr(x, env, b))
            if i and b:
                raise Unsupported("an operand of and/or after the first that can fail: %s" % ast.unparse(x)[:60])
            vs.append(v.code)
        return Val("(" + (" ∧ " if isinstance(node.op, ast.And) else " ∨ ").join(vs) + ")", PROP)

    def truthy_literal(self, node):
        """a float literal whose truth value is True: float('inf'), float('nan'), np.inf, np.nan, non-zero number"""
        if isinstance(node, ast.Call) and isinstance(node.func, ast.Name) and node.func.id == "float" \
                and len(node.args) == 1 and isinstance(node.args[0], ast.Constant) \
                and node.args[0].value in ("inf", "nan", "-inf"):
            return True
        if self.np_attr(node) in ("inf", "nan"):
            return True
        if isinstance(node, ast.Constant) and type(node.value) in (int, float) and node.value != 0:
            return True
        return False

    # arithmetic ---------------------------------------------------------------------------------
    SCAL = (INT, K, XF)

    def scalar_op(self, sym, a, b):
        """code of `a sym b` for scalar codes of a common type"""
        ty = self.join_ty(a.ty, b.ty)
        if ty in (INT, K):
            if sym == "/":
                return None
            a, b = self.cast(a, ty), self.cast(b, ty)
            return Val("(%s %s %s)" % (a.code, sym, b.code), ty)
        if ty == XF:
            f = {"+": "add", "-": "sub", "*": "mul", "/": "div"}[sym]
            return Val("(PyMarg.XF.%s %s %s)" % (f, self.xcast(a).code, self.xcast(b).code), XF)
        return None

    def binop(self, node, env, binds):
        op = node.op
        # `np.finfo(float).eps ** x`, `10 ** x`
        if isinstance(op, ast.Pow):
            if ast.unparse(node.left) in ("np.finfo(float).eps",) and self.is_np(node.left.value.func.value):
                x = self.kcast(self.expr(node.right, env, binds))
                return Val("(P.epsPow %s)" % x.code, K)
            if isinstance(node.left, ast.Constant) and type(node.left.value) is int and node.left.value == 10:
                x = self.expr(node.right, env, binds)
                if x.ty in (K, INT):
                    return Val("(P.pow10 %s)" % self.kcast(x).code, K)
            raise Unsupported("power %s" % ast.unparse(node)[:60])
        a = self.expr(node.left, env, binds)
        b = self.expr(node.right, env, binds)
        sym = {ast.Add: "+", ast.Sub: "-", ast.Mult: "*", ast.Div: "/"}.get(type(op))
        if sym is None:
            raise Unsupported("operator %s" % type(op).__name__)
        if a.ty == NAT:
            a = Val("((%s : Nat) : Int)" % a.code, INT)
        if b.ty == NAT:
            b = Val("((%s : Nat) : Int)" % b.code, INT)
        # purely imaginary numbers: 1j * w
        if sym == "*" and IMAG in (a.ty, b.ty):
            im, other = (a, b) if a.ty == IMAG else (b, a)
            if other.ty in (K, INT):
                code = self.kcast(other).code if im.lit == 1 else "(%s * %s)" % (im.code, self.kcast(other).code)
                return Val(code, IMAG)
            if other.ty == ARR and im.lit == 1:
                return Val("(List.map Margins.jw %s)" % other.code, CARR)
            raise Unsupported("`1j *` a %s" % (other.ty,))
        if a.ty in self.SCAL and b.ty in self.SCAL:
            if sym == "/" and self.join_ty(a.ty, b.ty) in (INT, K):
                a, b = self.kcast(a), self.kcast(b)
                if b.lit is not None and b.lit != 0:
                    return Val("(%s / %s)" % (a.code, b.code), K)
                return self.bind(binds, "PyArith.div %s %s" % (a.code, b.code), K)
            return self.scalar_op(sym, a, b)
        if a.ty == BARR and b.ty == BARR and sym == "*":
            return self.bind(binds, "PyMarg.zipB (fun a b => a && b) %s %s" % (a.code, b.code), BARR)
        # array ∘ scalar / scalar ∘ array
        for arr, sc, left in ((a, b, True), (b, a, False)):
            if arr.ty in (ARR, XARR) and sc.ty in self.SCAL:
                if arr.ty == ARR and sc.ty in (K, INT):
                    c = self.kcast(sc).code
                    if sym == "/":
                        if not left:
                            raise Unsupported("scalar / finite array")
                        if sc.lit is not None and sc.lit != 0:
                            return self.map1("x / %s" % c, arr, ARR)
                        return self.bind(binds, "List.mapM (fun x => PyArith.div x %s) %s" % (c, arr.code), ARR)
                    return self.map1("x %s %s" % (sym, c) if left else "%s %s x" % (c, sym), arr, ARR)
                x = Val("x", XF) if arr.ty == XARR else Val("(PyMarg.XF.fin x)", XF)
                r = self.scalar_op(sym, x, self.xcast(sc)) if left else self.scalar_op(sym, self.xcast(sc), x)
                return self.map1(r.code, arr, XARR)
            if arr.ty == RARR and sc.ty in (K, INT) and sym == "+":
                return self.map1("PyMarg.raddS r %s" % self.kcast(sc).code, arr, RARR, var="r")
            if arr.ty == RESP and sc.ty in (K, INT) and sym == "+":
                return Val("(PyMarg.raddS %s %s)" % (arr.code, self.kcast(sc).code), RESP)
        raise Unsupported("`%s` on %s, %s" % (sym, a.ty, b.ty))

    def compare(self, node, env, binds):
        if len(node.ops) != 1:
            raise Unsupported("chained comparison")
        op = node.ops[0]
        a = self.expr(node.left, env, binds)
        b = self.expr(node.comparators[0], env, binds)
        rel = {ast.Lt: ("%s < %s", 0, "lt"), ast.LtE: ("%s ≤ %s", 0, "le"), ast.Gt: ("%s < %s", 1, "lt"),
               ast.GtE: ("%s ≤ %s", 1, "le"), ast.Eq: ("%s = %s", 0, "beq"), ast.NotEq: ("%s ≠ %s", 0, None)}.get(type(op))
        if rel is None:
            raise Unsupported("comparison %s" % type(op).__name__)
        fmt, swap, xf = rel
        if a.ty == WIDX and b.ty == INT and isinstance(op, ast.NotEq):
            return Val("((PyMarg.WIdx.neInt %s %s) = true)" % (a.code, b.code), PROP)
        if a.ty in (INT, K, NAT) and b.ty in (INT, K, NAT):
            if a.ty == NAT:
                a = Val("((%s : Nat) : Int)" % a.code, INT)
            if b.ty == NAT:
                b = Val("((%s : Nat) : Int)" % b.code, INT)
            if not (a.ty == INT and b.ty == INT):
                a, b = self.kcast(a), self.kcast(b)
            x, y = (b, a) if swap else (a, b)
            return Val("(" + fmt % (x.code, y.code) + ")", PROP)
        if a.ty == STR and b.ty == STR and isinstance(op, (ast.Eq, ast.NotEq)):
            return Val("(" + fmt % (a.code, b.code) + ")", PROP)

        def xrel(x, y):
            if xf is None:
                raise Unsupported("`!=` on floats that may be non-finite")
            x, y = (y, x) if swap else (x, y)
            return "PyMarg.XF.%s %s %s" % (xf, x, y)
        if a.ty == XF or b.ty == XF:
            if a.ty in self.SCAL and b.ty in self.SCAL:
                return Val("((%s) = true)" % xrel(self.xcast(a).code, self.xcast(b).code), PROP)
        # array with scalar
        for arr, sc, left in ((a, b, True), (b, a, False)):
            if arr.ty == ARR and sc.ty in (K, INT):
                c = self.kcast(sc).code
                x, y = ("x", c) if left else (c, "x")
                if swap:
                    x, y = y, x
                return self.map1("decide (%s)" % (fmt % (x, y)), arr, BARR)
            if arr.ty == XARR and sc.ty in self.SCAL:
                c = self.xcast(sc).code
                x, y = ("x", c) if left else (c, "x")
                return self.map1(xrel(x, y), arr, BARR)
            if arr.ty == RARR and left and isinstance(op, ast.LtE) and sc.lit == 0:
                return Val("(List.map PyMarg.cle0 %s)" % arr.code, BARR)
        raise Unsupported("comparison of %s with %s" % (a.ty, b.ty))

    def subscript(self, node, env, binds):
        sl = node.slice
        # `X.shape[0]`
        if isinstance(node.value, ast.Attribute) and node.value.attr == "shape" \
                and isinstance(sl, ast.Constant) and sl.value == 0:
            v = self.expr(node.value.value, env, binds)
            if isinstance(v.ty, str) and v.ty.startswith("List "):
                return Val("((List.length %s : Nat) : Int)" % v.code, INT)
            raise Unsupported("shape of a %s" % (v.ty,))
        lit0 = isinstance(sl, ast.Constant) and type(sl.value) is int
        # `X[w][0]` with `w` the tuple of np.where or an int (one fused primitive)
        if lit0 and sl.value == 0 and isinstance(node.value, ast.Subscript) \
                and isinstance(node.value.ctx, ast.Load) and self.opaque(node.value, env, []) is None \
                and not (isinstance(node.value.value, ast.Attribute) and node.value.value.attr == "shape"):
            xs = self.expr(node.value.value, env, binds)
            if xs.ty in self.ELEM:
                w = self.expr(node.value.slice, env, binds)
                if w.ty == WIDX:
                    return self.bind(binds, "PyMarg.itemW0 %s %s" % (xs.code, w.code), self.ELEM[xs.ty])
                base = self.index(xs, w, node.value.slice, binds)
            else:
                base = self.subscript_of(xs, node.value.slice, env, binds)
        else:
            base = self.expr(node.value, env, binds)
        return self.subscript_of(base, sl, env, binds)

    ELEM = {ARR: K, XARR: XF, CARR: CPX, RARR: RESP, BARR: BOOL, IARR: NAT}

    def subscript_of(self, base, sl, env, binds):
        lit0 = isinstance(sl, ast.Constant) and type(sl.value) is int
        if isinstance(base.ty, tuple) and base.ty[0] == "tuple":
            if not lit0 or not 0 <= sl.value < len(base.ty) - 1:
                raise Unsupported("item %s of a tuple" % ast.unparse(sl))
            return Val(proj(base.code, sl.value, len(base.ty) - 1), base.ty[1 + sl.value])
        if base.ty == WTUP:
            if lit0 and sl.value == 0:
                return Val(base.code, IARR)
            raise Unsupported("item %s of the tuple of np.where" % ast.unparse(sl))
        if isinstance(base.ty, tuple) and base.ty[0] == "list":
            i = self.expr(sl, env, binds)
            if i.ty != INT:
                raise Unsupported("index of type %s" % (i.ty,))
            return self.bind(binds, "PyArith.getItem %s %s" % (base.code, i.code), ("obj", base.ty[1], {}))
        if base.ty not in self.ELEM:
            raise Unsupported("subscript of a %s" % (base.ty,))
        if lit0 and sl.value == 0:
            return self.bind(binds, "PyMarg.first %s" % base.code, self.ELEM[base.ty])
        return self.index(base, self.expr(sl, env, binds), sl, binds)

    def index(self, base, i, sl, binds):
        if i.ty == BARR:
            return self.bind(binds, "PyMarg.mask %s %s" % (base.code, i.code), base.ty)
        if i.ty in (IARR, WTUP):
            return self.bind(binds, "PyMarg.take %s %s" % (base.code, i.code), base.ty)
        if i.ty in (INT, NAT):
            ic = i.code if i.ty == INT else "((%s : Nat) : Int)" % i.code
            return self.bind(binds, "PyArith.getItem %s %s" % (base.code, ic), self.ELEM[base.ty])
        raise Unsupported("index %s of type %s" % (ast.unparse(sl)[:40], i.ty))

    # calls --------------------------------------------------------------------------------------
    def call(self, node, env, binds):
        f = node.func
        src = ast.unparse(node)
        kw = {k.arg: k.value for k in node.keywords}
        if None in kw:
            raise Unsupported("**kwargs in %s" % src[:60])
        npf = self.np_attr(f)
        if npf is not None:
            return self.np_call(npf, node, kw, env, binds)
        # float('inf') / float('nan')
        if isinstance(f, ast.Name) and f.id == "float" and len(node.args) == 1 and not kw \
                and isinstance(node.args[0], ast.Constant) and type(node.args[0].value) is str:
            self.check_builtin("float")
            s = node.args[0].value
            if s in ("inf", "nan", "-inf"):
                return Val({"inf": "PyMarg.XF.pinf", "nan": "PyMarg.XF.nan", "-inf": "PyMarg.XF.ninf"}[s], XF)
            raise Unsupported("float(%r)" % s)
        if isinstance(f, ast.Name) and f.id in ("len", "abs") and len(node.args) == 1 and not kw:
            self.check_builtin(f.id)
            v = self.expr(node.args[0], env, binds)
            if f.id == "len":
                if (isinstance(v.ty, str) and v.ty.startswith("List ")) or (isinstance(v.ty, tuple) and v.ty[0] == "list"):
                    return Val("((List.length %s : Nat) : Int)" % v.code, INT)
                raise Unsupported("len of a %s" % (v.ty,))
            return self.np_abs(v)
        # `.all()` of a boolean array
        if isinstance(f, ast.Attribute) and f.attr == "all" and not node.args and not kw:
            v = self.expr(f.value, env, binds)
            if v.ty == BARR:
                return Val("(List.all %s id)" % v.code, BOOL)
            raise Unsupported(".all() of a %s" % (v.ty,))
        # the callable inputs of the job: `sys(x)`, `self.frequency_response(x)`
        fsrc = ast.unparse(f)
        if fsrc in self.job.get("callables", {}):
            lean, kind = self.job["callables"][fsrc]
            for n in ast.walk(f):
                if isinstance(n, ast.Name) and n.id in self.locals and env.get(n.id, (None,))[0] != "object":
                    raise Unsupported("`%s`: `%s` is not the object the job names" % (fsrc, n.id))
            extra = {k: ast.unparse(v) for k, v in kw.items()}
            if len(node.args) != 1 or any(k not in self.job.get("callable_kw", {}) or
                                          self.job["callable_kw"][k] != v for k, v in extra.items()):
                raise Unsupported("call %s" % src[:70])
            v = self.expr(node.args[0], env, binds)
            if kind == "eval":
                if v.ty == IMAG:
                    v = self.cast(v, CPX)
                if v.ty == CARR:
                    return Val("(List.map %s %s)" % (lean, v.code), RARR)
                if v.ty == CPX:
                    return Val("(%s %s)" % (lean, v.code), RESP)
                raise Unsupported("%s of a %s" % (fsrc, v.ty))
            argty, resty = kind
            if v.ty != argty:
                raise Unsupported("%s of a %s" % (fsrc, v.ty))
            return Val("(%s %s)" % (lean, v.code), resty)
        # scipy.optimize.root_scalar(f, bracket=[a, b], method='..')
        if fsrc.endswith("optimize.root_scalar") and "root_scalar" in self.job:
            root = f
            while isinstance(root, ast.Attribute):
                root = root.value
            if not (isinstance(root, ast.Name) and root.id in ("scipy", "sp") and
                    (root.id in self.imported or (root.id not in self.locals and self.module_binds_once(root.id)))):
                raise Unsupported("%s is not scipy's" % fsrc)
            if len(node.args) != 1 or set(kw) != {"bracket", "method"} or not isinstance(kw["bracket"], ast.List) \
                    or len(kw["bracket"].elts) != 2:
                raise Unsupported("call %s" % src[:70])
            fv = self.expr(node.args[0], env, binds)
            if fv.ty != fun(K, XF):
                raise Unsupported("root_scalar of a function of type %s" % (fv.ty,))
            a = self.kcast(self.expr(kw["bracket"].elts[0], env, binds))
            b = self.kcast(self.expr(kw["bracket"].elts[1], env, binds))
            m = self.expr(kw["method"], env, binds)
            if m.ty != STR:
                raise Unsupported("root_scalar method %s" % ast.unparse(kw["method"]))
            return Val("(%s %s %s %s %s)" % (self.job["root_scalar"], m.code, fv.code, a.code, b.code),
                       ("obj", "(Bool × K)", {"converged": ("%s.1", BOOL), "root": ("%s.2", K)}))
        # local functions
        if isinstance(f, ast.Name) and f.id in env and isinstance(env[f.id][0], tuple) and env[f.id][0][0] == "fun":
            if len(node.args) != 1 or kw:
                raise Unsupported("call %s" % src[:60])
            v = self.cast(self.expr(node.args[0], env, binds), env[f.id][0][1])
            return Val("(%s %s)" % (lean_name(f.id), v.code), env[f.id][0][2])
        # the other translated functions
        if isinstance(f, ast.Name) and f.id in self.job.get("callees", {}):
            lean, needs_p, pnames, ptys, rty = self.job["callees"][f.id]
            if not self.is_module_function(f.id):
                raise Unsupported("%s is not (only) a function of this module" % f.id)
            self.check_signature(f.id, pnames)
            slots = [None] * len(pnames)
            pos = 0
            for a in node.args:
                if isinstance(a, ast.Starred):
                    v = self.expr(a.value, env, binds)
                    if not (isinstance(v.ty, tuple) and v.ty[0] == "tuple"):
                        raise Unsupported("`*%s` of a %s" % (ast.unparse(a.value), v.ty))
                    n = len(v.ty) - 1
                    for i in range(n):
                        if pos >= len(slots):
                            raise Unsupported("too many arguments in %s" % src[:60])
                        slots[pos] = Val(proj(v.code, i, n), v.ty[1 + i])
                        pos += 1
                else:
                    if pos >= len(slots):
                        raise Unsupported("too many arguments in %s" % src[:60])
                    slots[pos] = self.expr(a, env, binds)
                    pos += 1
            for k, vnode in kw.items():
                if k not in pnames or slots[pnames.index(k)] is not None:
                    raise Unsupported("keyword %s in %s" % (k, src[:60]))
                slots[pnames.index(k)] = self.expr(vnode, env, binds)
            if any(s is None for s in slots):
                raise Unsupported("missing arguments in %s" % src[:60])
            args = [self.cast(s, t).code for s, t in zip(slots, ptys)]
            return self.bind(binds, "%s %s%s" % (lean, "P " if needs_p else "", " ".join(args)), rty)
        if fsrc in self.job.get("wrappers", {}):
            # `stability_margins(x)`: the argument is packed by its kind
            lean, rty = self.job["wrappers"][fsrc]
            if not self.is_module_function(fsrc) or len(node.args) != 1 or kw:
                raise Unsupported("call %s" % src[:60])
            v = self.expr(node.args[0], env, binds)
            if isinstance(v.ty, tuple) and v.ty[0] == "obj":
                arg = "(PyMarg.SysData.obj %s)" % v.code
            elif isinstance(v.ty, tuple) and v.ty[0] == "list":
                arg = "(PyMarg.SysData.seq %s)" % v.code
            else:
                raise Unsupported("%s of a %s" % (fsrc, v.ty))
            return self.bind(binds, "%s %s" % (lean, arg), rty)
        raise Unsupported("call %s" % src[:80])

    def check_signature(self, name, pnames):
        fn = [n for n in self.module.body if isinstance(n, ast.FunctionDef) and n.name == name][0]
        a = fn.args
        if a.vararg or a.kwarg or a.kwonlyargs or a.posonlyargs or [x.arg for x in a.args] != pnames or a.defaults:
            raise Unsupported("signature of %s: expected (%s)" % (name, ", ".join(pnames)))

    def np_abs(self, v):
        if v.ty in (K, INT):
            return Val("|%s|" % v.code, v.ty)
        if v.ty == XF:
            return Val("(PyMarg.XF.abs %s)" % v.code, XF)
        if v.ty == CPX:
            return Val("(P.cabs %s)" % v.code, K)
        if v.ty == RESP:
            return Val("(PyMarg.rabs P.cabs %s)" % v.code, XF)
        if v.ty == ARR:
            return self.map1("|x|", v, ARR)
        if v.ty == XARR:
            return Val("(List.map PyMarg.XF.abs %s)" % v.code, XARR)
        if v.ty == CARR:
            return Val("(List.map P.cabs %s)" % v.code, ARR)
        if v.ty == RARR:
            return Val("(List.map (PyMarg.rabs P.cabs) %s)" % v.code, XARR)
        raise Unsupported("abs of a %s" % (v.ty,))

    def np_call(self, npf, node, kw, env, binds):
        src = ast.unparse(node)
        args = node.args

        def one():
            if len(args) != 1 or kw:
                raise Unsupported("np.%s with other than one argument" % npf)
            return self.expr(args[0], env, binds)
        if npf == "abs":
            return self.np_abs(one())
        if npf == "isreal":
            v = one()
            if v.ty == CARR:
                return Val("(List.map (fun z => decide (z.im = 0)) %s)" % v.code, BARR)
            raise Unsupported("np.isreal of a %s" % (v.ty,))
        if npf == "real":
            v = one()
            if v.ty == CARR:
                return Val("(List.map (fun z => z.re) %s)" % v.code, ARR)
            if v.ty == RARR:
                return Val("(List.map PyMarg.rreal %s)" % v.code, XARR)
            raise Unsupported("np.real of a %s" % (v.ty,))
        if npf == "angle":
            if len(args) != 1 or set(kw) - {"deg"}:
                raise Unsupported("call %s" % src[:60])
            deg = False
            if "deg" in kw:
                if not (isinstance(kw["deg"], ast.Constant) and type(kw["deg"].value) is bool):
                    raise Unsupported("np.angle(deg=%s)" % ast.unparse(kw["deg"]))
                deg = kw["deg"].value
            fn = "P.angleDeg" if deg else "P.angle"
            v = self.expr(args[0], env, binds)
            if v.ty == CARR:
                return Val("(List.map %s %s)" % (fn, v.code), ARR)
            if v.ty == RARR:
                return Val("(List.map (PyMarg.rangle %s) %s)" % (fn, v.code), XARR)
            raise Unsupported("np.angle of a %s" % (v.ty,))
        if npf == "remainder":
            if len(args) != 2 or kw:
                raise Unsupported("call %s" % src[:60])
            v = self.expr(args[0], env, binds)
            p = self.expr(args[1], env, binds)
            if p.lit is None or p.lit == 0:
                raise Unsupported("np.remainder by something that is not a non-zero literal")
            if v.ty == XARR:
                return self.map1("PyMarg.XF.remainder x %s" % self.kcast(p).code, v, XARR)
            if v.ty == ARR:
                return self.map1("PyMarg.XF.remainder (PyMarg.XF.fin x) %s" % self.kcast(p).code, v, XARR)
            raise Unsupported("np.remainder of a %s" % (v.ty,))
        if npf == "log":
            v = one()
            if v.ty == XARR:
                return Val("(List.map (PyMarg.XF.log P.log) %s)" % v.code, XARR)
            if v.ty == XF:
                return Val("(PyMarg.XF.log P.log %s)" % v.code, XF)
            raise Unsupported("np.log of a %s" % (v.ty,))
        if npf == "isinf":
            v = one()
            if v.ty == XARR:
                return Val("(List.map PyMarg.XF.isInf %s)" % v.code, BARR)
            if v.ty == XF:
                return Val("(PyMarg.XF.isInf %s)" % v.code, BOOL)
            if v.ty in (K, INT):
                return Val("false", BOOL)
            raise Unsupported("np.isinf of a %s" % (v.ty,))
        if npf in ("min", "amin"):
            v = one()
            if v.ty == XARR:
                return self.bind(binds, "PyMarg.amin %s" % v.code, XF)
            if v.ty == ARR:
                return self.bind(binds, "PyMarg.aminK %s" % v.code, K)
            raise Unsupported("np.%s of a %s" % (npf, v.ty))
        if npf == "argsort":
            v = one()
            if v.ty == ARR:
                return Val("(PyMarg.argsort %s)" % v.code, IARR)
            raise Unsupported("np.argsort of a %s" % (v.ty,))
        if npf in ("where", "nonzero"):
            v = one()
            if v.ty == BARR:
                return Val("(PyMarg.whereTrue %s)" % v.code, WTUP)
            raise Unsupported("np.%s of a %s" % (npf, v.ty))
        if npf == "polyder":
            v = one()
            if v.ty == ARR:
                return Val("(Margins.polyder %s)" % v.code, ARR)
            raise Unsupported("np.polyder of a %s" % (v.ty,))
        if npf == "polyval":
            if len(args) != 2 or kw:
                raise Unsupported("call %s" % src[:60])
            p = self.expr(args[0], env, binds)
            x = self.expr(args[1], env, binds)
            if p.ty == ARR and x.ty == ARR:
                return self.map1("polyval %s x" % p.code, x, ARR)
            raise Unsupported("np.polyval on %s, %s" % (p.ty, x.ty))
        if npf == "roots":
            v = one()
            if v.ty == ARR:
                return Val("(P.npRoots %s)" % v.code, CARR)
            raise Unsupported("np.roots of a %s" % (v.ty,))
        if npf == "exp":
            v = one()
            if v.ty == IMAG:
                return Val("(P.expj %s)" % v.code, CPX)
            raise Unsupported("np.exp of a %s" % (v.ty,))
        if npf == "isscalar":
            v = one()
            if v.ty in (K, INT):
                return Val("true", BOOL)
            raise Unsupported("np.isscalar of a %s" % (v.ty,))
        raise Unsupported("call %s" % src[:80])

    # -- statements ------------------------------------------------------------------------------
    @staticmethod
    def is_doc(s):
        return isinstance(s, ast.Expr) and isinstance(s.value, ast.Constant) and isinstance(s.value.value, str)

    def flatten(self, stmts):
        out = []
        for s in stmts:
            if self.is_doc(s) or isinstance(s, ast.Pass):
                continue
            if isinstance(s, (ast.Import, ast.ImportFrom)):
                for a in s.names:
                    nm = a.asname or a.name.split(".")[0]
                    if any(isinstance(n, ast.Name) and n.id == nm and isinstance(n.ctx, (ast.Store, ast.Del))
                           for n in ast.walk(self.fn)) or any(x.arg == nm for x in ast.walk(self.fn)
                                                               if isinstance(x, ast.arg)):
                        raise Unsupported("the imported name `%s` is re-bound" % nm)
                continue
            if isinstance(s, ast.With):
                for it in s.items:
                    if it.optional_vars is not None or not (isinstance(it.context_expr, ast.Call)
                                                            and self.np_attr(it.context_expr.func) == "errstate"):
                        raise Unsupported("with %s" % ast.unparse(it.context_expr)[:60])
                out.extend(self.flatten(s.body))
                continue
            out.append(s)
        return out

    def terminates(self, stmts):
        stmts = self.flatten(stmts)
        if not stmts:
            return False
        s = stmts[-1]
        if isinstance(s, (ast.Return, ast.Raise)):
            return True
        if isinstance(s, ast.If):
            return bool(s.orelse) and self.terminates(s.body) and self.terminates(s.orelse)
        return False

    def assigned(self, stmts):
        out = []
        for s in self.flatten(stmts):
            names = []
            if isinstance(s, ast.Assign):
                for t in s.targets:
                    names += [n.id for n in ast.walk(t) if isinstance(n, ast.Name)]
            elif isinstance(s, ast.FunctionDef):
                names.append(s.name)
            elif isinstance(s, ast.If):
                names += self.assigned(s.body) + self.assigned(s.orelse)
            for n in names:
                if n not in out:
                    out.append(n)
        return out

    def block(self, stmts, env, cont):
        env = dict(env)
        stmts = self.flatten(stmts)
        items = []
        for idx, s in enumerate(stmts):
            rest = stmts[idx + 1:]
            binds = []
            if isinstance(s, ast.Assign):
                if len(s.targets) != 1:
                    raise Unsupported("multiple assignment targets")
                target = s.targets[0]
                osrc = ast.unparse(s.value)
                if isinstance(target, ast.Name) and osrc in self.job.get("objects", {}):
                    env[target.id] = ("object",)
                    continue
                v = self.expr(s.value, env, binds)
                if isinstance(target, ast.Name):
                    nm = lean_name(target.id)
                    if isinstance(v.ty, tuple) and v.ty[0] == "obj" and not v.ty[2]:
                        ty_code = v.ty[1]
                    else:
                        ty_code = lean_ty(v.ty)
                    if binds and binds[-1].startswith("let %s ← " % v.code):
                        binds[-1] = "let %s ← " % nm + binds[-1][len("let %s ← " % v.code):]
                        items += binds
                    else:
                        items += binds
                        items.append("let %s : %s := %s" % (nm, ty_code, v.code))
                    env[target.id] = (v.ty,)
                elif isinstance(target, ast.Tuple) and all(isinstance(e, ast.Name) for e in target.elts):
                    if not (isinstance(v.ty, tuple) and v.ty[0] == "tuple" and len(v.ty) - 1 == len(target.elts)):
                        raise Unsupported("unpacking a %s into %d names" % (v.ty, len(target.elts)))
                    items += binds
                    if not v.code.isidentifier():
                        t = self.fresh()
                        items.append("let %s : %s := %s" % (t, lean_ty(v.ty), v.code))
                        v = Val(t, v.ty)
                    n = len(target.elts)
                    for i, e in enumerate(target.elts):
                        items.append("let %s : %s := %s" % (lean_name(e.id), lean_ty(v.ty[1 + i]), proj(v.code, i, n)))
                        env[e.id] = (v.ty[1 + i],)
                else:
                    raise Unsupported("assignment target %s" % ast.unparse(target)[:60])
                continue
            if isinstance(s, ast.FunctionDef):
                body = [x for x in s.body if not self.is_doc(x)]
                if s.decorator_list or len(body) != 1 or not isinstance(body[0], ast.Return) or body[0].value is None:
                    raise Unsupported("local function %s is not `def f(w): return e`" % s.name)
                v = self.lambda_(s.args, body[0].value, env)
                items.append("let %s : %s := %s" % (lean_name(s.name), lean_ty(v.ty), v.code))
                env[s.name] = (v.ty,)
                continue
            if isinstance(s, ast.Raise):
                if rest:
                    raise Unsupported("code after raise")
                e = s.exc
                cls = e.func if isinstance(e, ast.Call) else e
                exc = self.job.get("exc", {})
                if isinstance(cls, ast.Name) and cls.id in exc and s.cause is None and cls.id not in self.locals:
                    items.append("(.error Err.%s)" % exc[cls.id])
                    return items
                raise Unsupported("raise %s" % ast.unparse(s)[:60])
            if isinstance(s, ast.Return):
                if rest:
                    raise Unsupported("code after return")
                if s.value is None:
                    raise Unsupported("bare return")
                parts = list(s.value.elts) if isinstance(s.value, ast.Tuple) else [s.value]
                vals = [self.expr(p, env, binds) for p in parts]
                items += binds
                items.append("pure %s" % self.job["ret"](self, vals))
                return items
            if isinstance(s, ast.If):
                return items + self.if_stmt(s, rest, env, cont)
            raise Unsupported("statement %s" % ast.unparse(s).split("\n")[0][:70])
        return items + cont(env)

    @staticmethod
    def render(c, a, b):
        return "(if %s then\n%s\n  else\n%s)" % (c, _ind(_do(a), 4), _ind(_do(b), 4))

    def if_stmt(self, s, rest, env, cont):
        binds = []
        c = self.prop(self.expr(s.test, env, binds))
        t_term, e_term = self.terminates(s.body), self.terminates(s.orelse)
        if not rest or t_term or e_term:
            if rest and t_term and e_term:
                raise Unsupported("unreachable code after if")
            a = self.block(list(s.body) + ([] if t_term else rest), env, cont)
            b = self.block(list(s.orelse) + ([] if e_term else rest), env, cont)
            return binds + [self.render(c.code, a, b)]
        # both branches fall through and code follows: the re-bound names are joined
        cand = self.assigned(list(s.body) + list(s.orelse))
        saved = self.ntmp
        outs = {}

        def probe(key):
            def k(e):
                outs[key] = e
                return ["pure ()"]
            return k
        self.block(s.body, env, probe("t"))
        self.block(s.orelse, env, probe("e"))
        self.ntmp = saved
        out = []          # (name, joined type, kind)
        dropped = []
        for v in cand:
            tt = outs["t"].get(v, (None,))[0]
            te = outs["e"].get(v, (None,))[0]
            if tt == "object" or te == "object":
                raise Unsupported("the object `%s` is bound inside an if" % v)
            if tt is not None and te is not None:
                ty = self.join_ty(tt, te)
                if ty is None:
                    dropped.append(v)
                else:
                    out.append((v, ty, "both"))
            elif tt is not None or te is not None:
                if any(v in _names(x, ast.Load) for x in rest):
                    out.append((v, opt(tt if tt is not None else te), "one"))
        if not out:
            raise Unsupported("an if that binds nothing usable afterwards")

        def k(e):
            vals = []
            for v, ty, kind in out:
                if kind == "both":
                    cur = e[v]
                    vals.append(self.cast(Val(cur[1] if len(cur) > 1 and cur[1] else lean_name(v), cur[0]), ty).code)
                elif v in e and e[v][0] is not None:
                    vals.append("(some %s)" % lean_name(v))
                else:
                    vals.append("none")
            return ["pure (%s)" % ", ".join(vals)]
        a = self.block(s.body, env, k)
        b = self.block(s.orelse, env, k)
        r = self.fresh()
        tys = " × ".join(lean_ty(ty) for _, ty, _ in out)
        items = binds + ["let %s ← (%s : Except Err (%s))" % (r, self.render(c.code, a, b), tys)]
        env2 = dict(env)
        for v in dropped:
            env2.pop(v, None)
        for i, (v, ty, _) in enumerate(out):
            items.append("let %s : %s := %s" % (lean_name(v), lean_ty(ty), proj(r, i, len(out))))
            env2[v] = (ty,)
        return items + self.block(rest, env2, cont)


# ------------------------------------------------------------------------------------------------
# jobs
# ------------------------------------------------------------------------------------------------
def _sha(text):
    return hashlib.sha256(text.encode()).hexdigest()


def _parse(repo, rel):
    src = open(os.path.join(repo, rel)).read()
    return src, ast.parse(src)


def find_function(module, name, cls=None):
    body = module.body
    if cls is not None:
        found = [n for n in body if isinstance(n, ast.ClassDef) and n.name == cls]
        if len(found) != 1:
            raise Unsupported("%d definitions of class %s" % (len(found), cls))
        body = found[0].body
    found = [n for n in body if isinstance(n, ast.FunctionDef) and n.name == name]
    if len(found) != 1:
        raise Unsupported("%d definitions of %s" % (len(found), name))
    if found[0].decorator_list:
        raise Unsupported("decorated function")
    return found[0]


def check_params(fn, want, defaults=None, vararg=None):
    a = fn.args
    if a.kwarg or a.kwonlyargs or a.posonlyargs:
        raise Unsupported("signature of %s" % fn.name)
    if (a.vararg.arg if a.vararg else None) != vararg:
        raise Unsupported("signature of %s: *args" % fn.name)
    got = [x.arg for x in a.args]
    if got != want:
        raise Unsupported("parameters of %s: %s, expected %s" % (fn.name, got, want))
    d = dict(zip(got[len(got) - len(a.defaults):], [ast.unparse(x) for x in a.defaults]))
    if d != (defaults or {}):
        raise Unsupported("default values of %s: %s, expected %s" % (fn.name, d, defaults or {}))


def fall_off(_env):
    raise Unsupported("a path falls off the end of the function (returns None implicitly)")


def ret_tuple(*tys):
    def pack(tr, vals):
        if len(vals) != len(tys):
            raise Unsupported("returns %d values, %d expected" % (len(vals), len(tys)))
        cs = [tr.cast(v, t).code for v, t in zip(vals, tys)]
        return "(" + ", ".join(cs) + ")" if len(cs) > 1 else cs[0]
    return pack


def ret_sm(tr, vals):
    if len(vals) == 1 and isinstance(vals[0].ty, tuple) and vals[0].ty[0] == "tuple":
        v = vals[0]
        n = len(v.ty) - 1
        vals = [Val(proj(v.code, i, n), v.ty[1 + i]) for i in range(n)]
    if len(vals) != 6:
        raise Unsupported("stability_margins returns %d values, 6 expected" % len(vals))
    tys = [v.ty for v in vals]
    if all(t in (XARR, ARR) for t in tys):
        want = [XARR, XARR, XARR, ARR, ARR, ARR]
        if tys != want:
            raise Unsupported("returnall: arrays of types %s, expected %s" % (tys, want))
        return "(PyMarg.SmOut.all %s)" % " ".join(v.code for v in vals)
    return "(PyMarg.SmOut.mins %s)" % " ".join(tr.xcast(v).code for v in vals)


EXC = {"ValueError": "badArg", "TypeError": "notImplemented", "ControlMIMONotImplemented": "notImplemented",
       "Exception": "illPosed"}
ZARGS = ["num", "den", "num_inv_zp", "den_inv_zq", "p_q", "dt", "epsw"]
ZTYS = [ARR, ARR, ARR, ARR, INT, K, K]
CALLEES = {
    "_poly_iw_real_crossing": ("polyIwRealCrossingSel", True, ["num_iw", "den_iw", "epsw"], [CPOLY, CPOLY, K], ARR),
    "_poly_iw_mag1_crossing": ("polyIwMag1CrossingSel", True, ["num_iw", "den_iw", "epsw"], [CPOLY, CPOLY, K], ARR),
    "_poly_iw_wstab": ("polyIwWstabSel", True, ["num_iw", "den_iw", "epsw"], [CPOLY, CPOLY, K], ARR),
    "_z_filter": ("zFilter", True, ["z", "dt", "eps"], [CARR, K, K], tup(CARR, ARR)),
    "_poly_z_real_crossing": ("polyZRealCrossingSel", True, ZARGS, ZTYS, tup(CARR, ARR)),
    "_poly_z_mag1_crossing": ("polyZMag1CrossingSel", True, ZARGS, ZTYS, tup(CARR, ARR)),
}
ZINVZ_TY = tup(ARR, ARR, ARR, ARR, INT, K)

# the root filters: python name, lean name, key of the head job in py2lean_arith, parameters
SEL = [
    ("_poly_iw_real_crossing", "polyIwRealCrossingSel", "poly_iw_real_crossing",
     [("num_iw", CPOLY), ("den_iw", CPOLY), ("epsw", K)], ARR),
    ("_poly_iw_mag1_crossing", "polyIwMag1CrossingSel", "poly_iw_mag1_crossing",
     [("num_iw", CPOLY), ("den_iw", CPOLY), ("epsw", K)], ARR),
    ("_poly_iw_wstab", "polyIwWstabSel", "poly_iw_wstab",
     [("num_iw", CPOLY), ("den_iw", CPOLY), ("epsw", K)], ARR),
    ("_z_filter", "zFilter", None, [("z", CARR), ("dt", K), ("eps", K)], tup(CARR, ARR)),
    ("_poly_z_real_crossing", "polyZRealCrossingSel", "poly_z_real_crossing", list(zip(ZARGS, ZTYS)), tup(CARR, ARR)),
    ("_poly_z_mag1_crossing", "polyZMag1CrossingSel", "poly_z_mag1_crossing", list(zip(ZARGS, ZTYS)), tup(CARR, ARR)),
]


def _def(name, params, rty, items, doc, pre="", binders=BINDERS):
    sig = "".join(" (%s : %s)" % (n, t) for n, t in params)
    return "/-- %s -/\ndef %s %s%s%s :\n    Except Err (%s) :=\n%s\n" % (
        doc.replace("-/", "- /").replace("/-", "/ -"), name, pre, binders, sig, rty,
        _ind(_do(items) if len(items) > 1 else items[0], 2))


def _failed_def(name, params, rty, msg, pre="", binders=BINDERS):
    sig = "".join(" (%s : %s)" % (n, t) for n, t in params)
    return "/-- translation FAILED: %s -/\ndef %s %s%s%s :\n    Except Err (%s) :=\n  .error Err.notImplemented\n" % (
        msg, name, pre, binders, sig, rty)


def _names(node, ctx):
    return {n.id for n in ast.walk(node) if isinstance(n, ast.Name) and isinstance(n.ctx, ctx)}


def translate_sel(src, module, entry):
    py, lean, headkey, params, rty = entry
    fn = find_function(module, py)
    check_params(fn, [p for p, _ in params])
    job = dict(callees=CALLEES, exc=EXC, ret=ret_tuple(*(rty[1:] if isinstance(rty, tuple) else [rty])))
    tr = Tr(module, fn, job)
    env = {p: (t,) for p, t in params}
    items = []
    body = fn.body
    if headkey is not None:
        hjob = py2lean_arith.JOBS[headkey]
        calls = [n for n in ast.walk(fn) if isinstance(n, ast.Call) and tr.np_attr(n.func) == "roots"]
        split = [i for i, s in enumerate(body) if isinstance(s, ast.Assign) and len(s.targets) == 1
                 and isinstance(s.targets[0], ast.Name) and isinstance(s.value, ast.Call)
                 and tr.np_attr(s.value.func) == "roots" and len(s.value.args) == 1 and not s.value.keywords]
        if len(calls) != 1 or len(split) != 1:
            raise Unsupported("%s: expected exactly one statement `<x> = np.roots(<arg>)` at the top level "
                              "(%d calls of np.roots, %d such statements)" % (py, len(calls), len(split)))
        i = split[0]
        head, tail = body[:i], body[i:]
        arg = body[i].value.args[0]
        head_assigned = set()
        for s in head:
            head_assigned |= _names(s, (ast.Store, ast.Del))
        exported = list(hjob["until"][1])
        argname = arg.id if isinstance(arg, ast.Name) else None
        read_tail = set()
        for s in tail[1:]:                      # tail[0] is `<x> = np.roots(<arg>)`: <arg> is the head's result
            read_tail |= _names(s, ast.Load)
        bad = (read_tail & head_assigned) - set(exported) - ({argname} if argname else set())
        if bad:
            raise Unsupported("%s: the part after np.roots reads %s, which the part before it computes "
                              "(only the argument of np.roots%s is passed on)" % (
                                  py, sorted(bad), "".join(" and `%s`" % x for x in exported)))
        hargs = [p for p, t in hjob["params"] if t in py2lean_arith.LEAN_TY]
        t = tr.fresh()
        items.append("let %s ← %s %s" % (t, hjob["lean"], " ".join(hargs)))
        n = 1 + len(exported)
        polycode = proj(t, 0, n)
        if argname:
            env[argname] = (ARR, polycode)
        for k, x in enumerate(exported):
            env[x] = (ARR, proj(t, k + 1, n))
        # `np.roots(<arg>)` of the tail is `P.npRoots` of the head's result
        orig = tr.np_call

        def np_call(npf, node, kw, env_, binds_):
            if npf == "roots":
                return Val("(P.npRoots %s)" % polycode, CARR)
            return orig(npf, node, kw, env_, binds_)
        tr.np_call = np_call
        body = tail
    items += tr.block(body, env, fall_off)
    text = ast.get_source_segment(src, fn)
    doc = ("`control/margins.py:%s` as the source text says it (sha256 of the function text\n%s)%s." % (
        py, _sha(text), ("; the statements before `np.roots` are `Generated.%s`, `np.roots` is `P.npRoots`"
                         % py2lean_arith.JOBS[headkey]["lean"]) if headkey else ""))
    rt = lean_ty(rty)
    rt = rt[1:-1] if rt.startswith("(") else rt
    return _def(lean, [(lean_name(p), lean_ty(t)) for p, t in params], rt, items, doc), text


def sel_failed(entry, msg):
    py, lean, headkey, params, rty = entry
    rt = lean_ty(rty)
    rt = rt[1:-1] if rt.startswith("(") else rt
    return _failed_def(lean, [(lean_name(p), lean_ty(t)) for p, t in params], rt, msg)


def translate_selfile(repo, which):
    src, module = _parse(repo, "control/margins.py")
    defs, texts = [], []
    for e in SEL:
        if (e[0].startswith("_poly_iw")) != (which == "iw"):
            continue
        d, t = translate_sel(src, module, e)
        defs.append(d)
        texts.append(t)
    return "\n".join(defs), {"sha": _sha("\n".join(texts))}


def failed_selfile(which, msg):
    return "\n".join(sel_failed(e, msg) for e in SEL if (e[0].startswith("_poly_iw")) == (which == "iw"))


# -- stability_margins -------------------------------------------------------------------------------
SM_INPUTS = [("sysEval", "Cx K → Option (Cx K)"), ("ctime", "Bool"),
             ("polyIwSys", "(List K × List K) × (List K × List K)"), ("num0", "List K"), ("den0", "List K"),
             ("dt0", "K"), ("zWstab", "List (Cx K) × List K"), ("returnall", "Bool"), ("epsw", "K")]
SM_SEG_INPUTS = {"smCand": ["sysEval", "ctime", "polyIwSys", "num0", "den0", "dt0", "zWstab", "epsw"],
                 "smSelect": [], "smReturn": ["returnall"]}
SM_OUT = "PyMarg.SmOut K"


def _first_reads(stmts, names):
    """the names (of `names`) the statements read, in the order of their first read in the source text"""
    out = []
    for s in stmts:
        loads = [n for n in ast.walk(s) if isinstance(n, ast.Name) and isinstance(n.ctx, ast.Load) and n.id in names]
        loads.sort(key=lambda n: (n.lineno, n.col_offset))
        for n in loads:
            if n.id not in out:
                out.append(n.id)
    return out


def _canon_order(live, later):
    """Order the variables handed to the remaining statements `later` so that the order survives renaming and
    the re-ordering of independent statements: by the smallest position, in the first `return <tuple>` of the
    last statement, of a component that depends on the variable (name-based, flow-insensitive dependence through
    the assignments of `later`), then by type, then by first read."""
    dep = {}
    for s in later:
        for node in ast.walk(s):
            if isinstance(node, ast.Assign):
                reads = _names(node.value, ast.Load)
                for t in node.targets:
                    for nm in _names(t, ast.Store):
                        dep.setdefault(nm, set()).update(reads)
    rets = [n for n in ast.walk(later[-1]) if isinstance(n, ast.Return) and isinstance(n.value, ast.Tuple)] if later else []
    rets.sort(key=lambda n: (n.lineno, n.col_offset))
    key = {}
    if rets:
        for i, elt in enumerate(rets[0].value.elts):
            seen, todo = set(), list(_names(elt, ast.Load))
            while todo:
                x = todo.pop()
                if x not in seen:
                    seen.add(x)
                    todo.extend(dep.get(x, ()))
            for x in seen:
                key.setdefault(x, i)
    tyrank = [ARR, XARR, CARR, RARR, BARR, IARR]
    idx = {n: k for k, (n, _) in enumerate(live)}
    return sorted(live, key=lambda nt: (key.get(nt[0], 10 ** 6), tyrank.index(nt[1]) if nt[1] in tyrank else 99,
                                        idx[nt[0]]))


def translate_sm(repo):
    src, module = _parse(repo, "control/margins.py")
    fn = find_function(module, "stability_margins")
    check_params(fn, ["sysdata", "returnall", "epsw", "method"],
                 {"returnall": "False", "epsw": "0.0", "method": "'best'"})
    # the branch for a transfer function
    piv = [s for s in fn.body if isinstance(s, ast.If) and isinstance(s.test, ast.Call)
           and isinstance(s.test.func, ast.Name) and s.test.func.id == "isinstance" and len(s.test.args) == 2
           and isinstance(s.test.args[0], ast.Name) and ast.unparse(s.test.args[1]) == "xferfcn.TransferFunction"
           and s.orelse]
    if len(piv) != 1:
        raise Unsupported("%d top-level statements `if isinstance(<sys>, xferfcn.TransferFunction): .. else: ..` "
                          "in stability_margins, expected exactly one" % len(piv))
    piv = piv[0]
    sysn = piv.test.args[0].id
    if not any(isinstance(n, ast.ImportFrom) and any(a.name == "xferfcn" and a.asname is None for a in n.names)
               for n in module.body):
        raise Unsupported("`xferfcn` is not imported from the package")
    k = [i for i, s in enumerate(fn.body) if s is piv][0]
    for s in fn.body[k:]:
        if sysn in _names(s, (ast.Store, ast.Del)):
            raise Unsupported("`%s` is re-bound in the translated part" % sysn)
    stmts = list(piv.body) + list(fn.body[k + 1:])
    if len(stmts) < 3 or not isinstance(stmts[0], ast.If) or ast.unparse(stmts[0].test) != "%s.isctime()" % sysn \
            or not isinstance(stmts[-1], ast.If):
        raise Unsupported("the transfer-function branch does not start with `if %s.isctime():` / the function "
                          "does not end with an `if`" % sysn)
    segs = [("smCand", stmts[:1]), ("smSelect", stmts[1:-1]), ("smReturn", stmts[-1:])]
    job = dict(
        opaque={"%s.isctime()" % sysn: ("(ctime = true)", PROP, False),
                "_poly_iw(%s)" % sysn: ("polyIwSys", tup(CPOLY, CPOLY), False),
                "_poly_z_invz(%s)" % sysn: ("polyZInvz num0 den0 dt0", ZINVZ_TY, True),
                "_poly_z_wstab(*zargs, epsw=epsw)": ("zWstab", tup(CARR, ARR), False, {"zargs": ZINVZ_TY, "epsw": K})},
        callables={sysn: ("sysEval", "eval")}, callable_kw={"warn_infinite": "False"},
        callees=CALLEES, exc=EXC, ret=ret_sm)
    base_env = {sysn: ("object",), "returnall": (BOOL,), "epsw": (K,)}
    tr = Tr(module, fn, job)
    for f in ("_poly_iw", "_poly_z_invz", "_poly_z_wstab"):
        if not tr.is_module_function(f):
            raise Unsupported("%s is not (only) a function of this module" % f)
    defs = []
    carried = []                 # [(name, type)] handed to the current segment
    calls = []
    for si, (name, ss) in enumerate(segs):
        later = [s for _, x in segs[si + 1:] for s in x]
        env = {}
        for nm in SM_SEG_INPUTS[name]:
            if nm in base_env:
                env[nm] = base_env[nm]
        if name == "smCand":
            env[sysn] = base_env[sysn]
        for nm, ty in carried:
            env[nm] = (ty,)
        produced = {}

        def cont(e, later=later, produced=produced):
            assigned = set()
            for s in ss:
                assigned |= _names(s, ast.Store)
            live = [n for n in _first_reads(later, tr.locals) if n in e and e[n][0] not in ("object", None)
                    and (n in assigned or n in [c for c, _ in carried])]
            for n in live:
                if isinstance(e[n][0], tuple) and e[n][0][0] == "opt":
                    raise Unsupported("`%s` may be unbound where it is handed on" % n)
            produced["live"] = _canon_order([(n, e[n][0]) for n in live], later)
            live = [n for n, _ in produced["live"]]
            if len(live) == 1:
                return ["pure %s" % lean_name(live[0])]
            return ["pure (%s)" % ", ".join(lean_name(n) for n in live)]
        params = [(n, t) for n, t in SM_INPUTS if n in SM_SEG_INPUTS[name]] + \
                 [(lean_name(n), lean_ty(t)) for n, t in carried]
        if si == len(segs) - 1:
            items = tr.block(ss, env, fall_off)
            rty = SM_OUT
        else:
            items = tr.block(ss, env, cont)
            if "live" not in produced:
                raise Unsupported("the piece %s returns on every path" % name)
            rty = " × ".join(lean_ty(t) for _, t in produced["live"])
        text = "\n".join(ast.get_source_segment(src, s) for s in ss)
        doc = ("piece `%s` of `control/margins.py:stability_margins` (statements at the lines %d-%d of the "
               "function text; sha256 of their text\n%s)" % (
                   name, ss[0].lineno - fn.lineno + 1, ss[-1].end_lineno - fn.lineno + 1, _sha(text)))
        defs.append(_def(name, params, rty, items, doc, binders=BINDERS_FLOOR))
        calls.append((name, [n for n, _ in params], list(produced.get("live", []))))
        carried = produced.get("live", [])
    # the composition
    items = []
    for name, args, live in calls:
        call = "%s P %s" % (name, " ".join(args))
        if not live:
            items.append(call)
        else:
            t = tr.fresh()
            items.append("let %s ← %s" % (t, call))
            for i, (n, ty) in enumerate(live):
                items.append("let %s : %s := %s" % (lean_name(n), lean_ty(ty), proj(t, i, len(live))))
    text = "\n".join(ast.get_source_segment(src, s) for s in stmts)
    doc = ("`control/margins.py:stability_margins`: the branch for a transfer function `%s` (the unique top-level\n"
           "`if isinstance(%s, xferfcn.TransferFunction):`) and everything after it, as the source text says it\n"
           "(sha256 of these statements %s).\n"
           "`sysEval` is `%s(·)`, `ctime` is `%s.isctime()`, `polyIwSys` is `_poly_iw(%s)`, `num0 den0 dt0` are\n"
           "`%s.num[0][0]`, `%s.den[0][0]`, `%s.dt` (read by `_poly_z_invz`), `zWstab` is `_poly_z_wstab(*zargs, epsw=epsw)`.\n"
           "The FRD branch (`else:`) and the statements before (conversion, `method`) are outside this tie."
           % (sysn, sysn, _sha(text), sysn, sysn, sysn, sysn, sysn, sysn))
    defs.append(_def("stabilityMarginsSel", SM_INPUTS, SM_OUT, items, doc, binders=BINDERS_FLOOR))
    return "\n".join(defs), {"sha": _sha(text), "temporaries": tr.ntmp}


def failed_sm(msg):
    K6 = "List K × List (Option (Cx K)) × List K × List (Option (Cx K)) × List K × List (Option (Cx K))"
    X6 = "List K × List K × List K × List (PyMarg.XF K) × List (PyMarg.XF K) × List (PyMarg.XF K)"
    lk, lr, lx = ("List K", "List (Option (Cx K))", "List (PyMarg.XF K)")
    return "\n".join([
        _failed_def("smCand", [(n, t) for n, t in SM_INPUTS if n in SM_SEG_INPUTS["smCand"]], K6, msg, binders=BINDERS_FLOOR),
        _failed_def("smSelect", [("w1", lk), ("r1", lr), ("w2", lk), ("r2", lr), ("w3", lk), ("r3", lr)], X6, msg, binders=BINDERS_FLOOR),
        _failed_def("smReturn", [("returnall", "Bool"), ("w1", lk), ("w2", lk), ("w3", lk), ("GM", lx), ("PM", lx),
                                 ("SM", lx)], SM_OUT, msg, binders=BINDERS_FLOOR),
        _failed_def("stabilityMarginsSel", SM_INPUTS, SM_OUT, msg, binders=BINDERS_FLOOR)])


# -- margin ------------------------------------------------------------------------------------------
X6 = "PyMarg.XF K × PyMarg.XF K × PyMarg.XF K × PyMarg.XF K × PyMarg.XF K × PyMarg.XF K"
X4 = "PyMarg.XF K × PyMarg.XF K × PyMarg.XF K × PyMarg.XF K"
MARGIN_PARAMS = [("stabilityMargins", "PyMarg.SysData α → Except Err (%s)" % X6), ("args", "List α")]


def translate_margin(repo):
    src, module = _parse(repo, "control/margins.py")
    fn = find_function(module, "margin")
    check_params(fn, [], vararg="args")
    job = dict(wrappers={"stability_margins": ("stabilityMargins", tup(XF, XF, XF, XF, XF, XF))}, exc=EXC,
               ret=ret_tuple(XF, XF, XF, XF))
    tr = Tr(module, fn, job)
    sm = find_function(module, "stability_margins")
    d = dict(zip([x.arg for x in sm.args.args][-len(sm.args.defaults):], [ast.unparse(x) for x in sm.args.defaults]))
    if d.get("returnall") != "False":
        raise Unsupported("the default of `returnall` in stability_margins is %s" % d.get("returnall"))
    items = tr.block(fn.body, {"args": (("list", "α"),)}, fall_off)
    text = ast.get_source_segment(src, fn)
    doc = ("`control/margins.py:margin` as the source text says it (sha256 of the function text\n%s).\n"
           "`stabilityMargins` is `stability_margins` called with one argument (default `returnall=False`): the\n"
           "argument is one object (`SysData.obj`) or the sequence `args` itself (`SysData.seq`)." % _sha(text))
    return _def("smMargin", MARGIN_PARAMS, X4, items, doc, pre="{α : Type} "), {"sha": _sha(text)}


def failed_margin(msg):
    return _failed_def("smMargin", MARGIN_PARAMS, X4, msg, pre="{α : Type} ")


# -- phase_crossover_frequencies -------------------------------------------------------------------------
PCF_PARAMS = [("sysEval", "Cx K → Option (Cx K)"), ("siso", "Bool"), ("ctime", "Bool"),
              ("polyIwSys", "(List K × List K) × (List K × List K)"), ("num0", "List K"), ("den0", "List K"),
              ("dt0", "K")]
PCF_RET = "List K × List (PyMarg.XF K)"


def translate_pcf(repo):
    src, module = _parse(repo, "control/margins.py")
    fn = find_function(module, "phase_crossover_frequencies")
    check_params(fn, ["sys"])
    conv = "xferfcn._convert_to_transfer_function(sys)"
    tfs = [s.targets[0].id for s in fn.body if isinstance(s, ast.Assign) and len(s.targets) == 1
           and isinstance(s.targets[0], ast.Name) and ast.unparse(s.value) == conv]
    if len(tfs) != 1:
        raise Unsupported("%d statements `<tf> = %s`, expected exactly one" % (len(tfs), conv))
    tf = tfs[0]
    if sum(1 for n in ast.walk(fn) if isinstance(n, ast.Name) and n.id in (tf, "sys")
           and isinstance(n.ctx, (ast.Store, ast.Del))) != 1:
        raise Unsupported("`%s` or `sys` is re-bound" % tf)
    job = dict(
        objects={conv: "tf"},
        opaque={"sys.isctime()": ("(ctime = true)", PROP, False), "issiso(%s)" % tf: ("(siso = true)", PROP, False),
                "_poly_iw(%s)" % tf: ("polyIwSys", tup(CPOLY, CPOLY), False),
                "_poly_z_invz(%s)" % tf: ("polyZInvz num0 den0 dt0", ZINVZ_TY, True)},
        callables={"sys": ("sysEval", "eval")}, callable_kw={"warn_infinite": "False"},
        callees=CALLEES, exc=EXC, ret=ret_tuple(ARR, XARR))
    tr = Tr(module, fn, job)
    for f in ("_poly_iw", "_poly_z_invz"):
        if not tr.is_module_function(f):
            raise Unsupported("%s is not (only) a function of this module" % f)
    if not any(isinstance(n, ast.ImportFrom) and any(a.name == "issiso" and a.asname is None for a in n.names)
               for n in module.body) or not tr.module_binds_once("issiso"):
        raise Unsupported("`issiso` is not imported from the package")
    items = tr.block(fn.body, {"sys": ("object",)}, fall_off)
    text = ast.get_source_segment(src, fn)
    doc = ("`control/margins.py:phase_crossover_frequencies` as the source text says it (sha256 of the function\n"
           "text %s).\n`%s` is the converted transfer function: `siso` is `issiso(%s)`, `polyIwSys` is `_poly_iw(%s)`,\n"
           "`num0 den0 dt0` are `%s.num[0][0]`, `%s.den[0][0]`, `%s.dt` (read by `_poly_z_invz`); `ctime` is `sys.isctime()`,\n"
           "`sysEval` is `sys(·, warn_infinite=False)`." % (_sha(text), tf, tf, tf, tf, tf, tf))
    return _def("phaseCrossoverFrequencies", PCF_PARAMS, PCF_RET, items, doc), {"sha": _sha(text)}


def failed_pcf(msg):
    return _failed_def("phaseCrossoverFrequencies", PCF_PARAMS, PCF_RET, msg)


# -- LTI.bandwidth ---------------------------------------------------------------------------------------
BW_PARAMS = [("sysEval", "Cx K → Option (Cx K)"), ("siso", "Bool"), ("dtime", "Bool"), ("dcgain0", "PyMarg.XF K"),
             ("omega0", "List K"), ("freqResp", "List K → List (PyMarg.XF K) × List K × List K"), ("dt0", "K"),
             ("rootScalar", "String → (K → PyMarg.XF K) → K → K → Bool × K"), ("dbdrop", "K")]
BW_RET = "PyMarg.XF K"


def translate_bw(repo):
    src, module = _parse(repo, "control/lti.py")
    fn = find_function(module, "bandwidth", cls="LTI")
    check_params(fn, ["self", "dbdrop"], {"dbdrop": "-3"})
    if "self" in _names(fn, (ast.Store, ast.Del)) or "dbdrop" in _names(fn, (ast.Store, ast.Del)):
        raise Unsupported("`self` or `dbdrop` is re-bound")
    job = dict(
        opaque={"self.issiso()": ("(siso = true)", PROP, False), "self.dcgain()": ("dcgain0", XF, False),
                "_default_frequency_range(self)": ("omega0", ARR, False),
                "self.isdtime(strict=True)": ("(dtime = true)", PROP, False), "self.dt": ("dt0", K, False)},
        callables={"self": ("sysEval", "eval"), "self.frequency_response": ("freqResp", (ARR, tup(XARR, ARR, ARR)))},
        callable_kw={}, root_scalar="rootScalar", exc=EXC, ret=ret_tuple(XF))
    tr = Tr(module, fn, job)
    if "_default_frequency_range" not in tr.imported:
        raise Unsupported("`_default_frequency_range` is not imported inside the function")
    items = tr.block(fn.body, {"self": ("object",), "dbdrop": (K,)}, fall_off)
    text = ast.get_source_segment(src, fn)
    doc = ("`control/lti.py:LTI.bandwidth` as the source text says it (sha256 of the function text\n%s).\n"
           "`siso` is `self.issiso()`, `dcgain0` is `self.dcgain()`, `omega0` is `_default_frequency_range(self)`,\n"
           "`freqResp` is `self.frequency_response`, `dtime` is `self.isdtime(strict=True)`, `dt0` is `self.dt`, `sysEval` is\n"
           "`self(·)`, `rootScalar m f a b` is `scipy.optimize.root_scalar(f, bracket=[a, b], method=m)` as the pair\n"
           "(`.converged`, `.root`)." % _sha(text))
    return _def("ltiBandwidth", BW_PARAMS, BW_RET, items, doc), {"sha": _sha(text)}


def failed_bw(msg):
    return _failed_def("ltiBandwidth", BW_PARAMS, BW_RET, msg)


# ------------------------------------------------------------------------------------------------
HEADS = ["CtrlVerif.Generated.PolyIwRealCrossing", "CtrlVerif.Generated.PolyIwMag1Crossing",
         "CtrlVerif.Generated.PolyIwWstab"]
JOBS = [
    # key, output file, imports, translate, failed, description
    ("iwsel", "MargIwSel.lean", ["CtrlVerif.Model.PyMarg"] + HEADS, lambda r: translate_selfile(r, "iw"),
     lambda m: failed_selfile("iw", m), "control/margins.py (_poly_iw_* after np.roots)"),
    ("zsel", "MargZSel.lean", ["CtrlVerif.Model.PyMarg", "CtrlVerif.Generated.PolyZRealCrossing",
                               "CtrlVerif.Generated.PolyZMag1Crossing"], lambda r: translate_selfile(r, "z"),
     lambda m: failed_selfile("z", m), "control/margins.py (_z_filter, _poly_z_* after np.roots)"),
    ("sm", "MargSel.lean", ["CtrlVerif.Model.PyMarg", "CtrlVerif.Generated.PolyZInvz", "CtrlVerif.Generated.MargIwSel",
                            "CtrlVerif.Generated.MargZSel"], translate_sm, failed_sm,
     "control/margins.py:stability_margins (transfer-function branch and return)"),
    ("margin", "MargMargin.lean", ["CtrlVerif.Model.PyMarg"], translate_margin, failed_margin,
     "control/margins.py:margin"),
    ("pcf", "MargPcf.lean", ["CtrlVerif.Model.PyMarg", "CtrlVerif.Generated.PolyZInvz", "CtrlVerif.Generated.MargIwSel",
                             "CtrlVerif.Generated.MargZSel"], translate_pcf, failed_pcf,
     "control/margins.py:phase_crossover_frequencies"),
    ("bw", "MargBandwidth.lean", ["CtrlVerif.Model.PyMarg"], translate_bw, failed_bw, "control/lti.py:LTI.bandwidth"),
]


def regenerate(repo, lean_dir, keys=None):
    """Rewrite Generated/Marg*.lean; returns (list of problems, info dict).  Deterministic (no timestamps),
    rewritten only when changed."""
    problems, info = [], {}
    os.makedirs(os.path.join(lean_dir, "CtrlVerif", "Generated"), exist_ok=True)
    for key, out, imports, translate, failed, where in JOBS:
        if keys is not None and key not in keys:
            continue
        try:
            lean, inf = translate(repo)
            info[key] = inf
            head = "-- GENERATED on every run by harness/core/py2lean_marg.py from %s (sha256 %s).  Do not edit.\n" % (
                where, inf["sha"])
        except (Unsupported, SyntaxError, OSError) as e:
            msg = str(e).replace("\n", " ").replace("-/", "- /").replace("/-", "/ -")[:240]
            problems.append("py2lean_marg: %s cannot be translated: %s" % (where, msg))
            head = "-- GENERATED by harness/core/py2lean_marg.py: translation of %s FAILED.  Do not edit.\n" % where
            lean = failed(msg)
        text = (head + "".join("import %s\n" % m for m in imports)
                + "\nnamespace CtrlVerif.Generated\n\nopen CtrlVerif CtrlVerif.Margins\n\n" + lean
                + "\nend CtrlVerif.Generated\n")
        path = os.path.join(lean_dir, "CtrlVerif", "Generated", out)
        old = open(path).read() if os.path.exists(path) else None
        if old != text:
            with open(path, "w") as f:
                f.write(text)
    return problems, info


if __name__ == "__main__":
    import sys
    for key, out, imports, translate, failed, where in JOBS:
        if len(sys.argv) > 2 and key not in sys.argv[2:]:
            continue
        try:
            lean, inf = translate(sys.argv[1])
            print(lean)
            print("--", inf)
        except Unsupported as e:
            print("-- %s FAILED: %s" % (key, e))
