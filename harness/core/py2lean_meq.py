"""Sixth translator Python `ast` -> Lean 4 (DESIGN §10.3 / notes/NOTES-py2lean-mateqn.md): the BODIES of
`lyap`, `dlyap`, `care`, `dare` and `_slycot_or_scipy` (control/mateqn.py) - the argument plumbing
around the SciPy solvers.  It regenerates `lean/CtrlVerif/Generated/MatEqnMethod.lean MatEqnLyap.lean
MatEqnDlyap.lean MatEqnCare.lean MatEqnDare.lean` from the source text of the tree the check runs
against on every run; `Props/C10GenMethod.lean C10GenLyap.lean C10GenCare.lean C10GenDare.lean` prove
the hand-written model (`Model/MatEqn.lean`: `lyapD dlyapD careD dareD`, i.e. validation + `lyap sylv
dlyap care dare`) EQUAL to the generated functions for every solver, all sizes, entries, dtypes and
every combination of optional arguments, so a semantic edit of the source breaks a proof obligation,
and an edit that leaves the supported subset makes the translation fail (reported the same way: the
emitted definition is then `.error .notImplemented` for every argument, which cannot equal the model).

Value model (fixed in `lean/CtrlVerif/Model/PyMeq.lean`, hand-written, trusted; it re-uses
`Model/PyMat.lean` for matrix expressions and `Generated/MatEqnCheck.lean` for `_check_shape`):
  an argument array            -> `DMat K` (shape, entries, dtype tolerance)        static type DARR
  an optional argument         -> `Option (DMat K)`                                 OPT (NONEV / DARR once tested)
  a matrix expression          -> `PMat K` (untyped, every shape check at run time)  MAT
  `X.shape[i]`                 -> `Nat`
  `stabilizing`                -> `Bool`;  `name=` strings -> `String`
  `method`                     -> `PyMeq.Method` (None / 'scipy' / 'slycot' / anything else); what
                                  `_slycot_or_scipy` returns ('slycot' / 'scipy') -> `PyMeq.Backend`
  the SciPy solvers            -> the parameter `Sv : Solvers K` of the model, through `PyMeq.solve…`
  the eigenvalue routines      -> ONE parameter `ev : PyMeq.EigFun K L` through `PyMeq.eig`
  `np.eye / np.zeros`          -> float64 arrays: parameter `eps` (machine epsilon) as in the model
Exceptions: `ControlArgument` -> `Err.badArg`, `ControlDimension` -> `Err.shape`, `ControlSlycot` ->
`Err.notImplemented` (the rule of families/c10.py: classify_exc, plus the Slycot class).

Slycot is ABSENT in the environment of the check (the model is the SciPy route): `slycot_check()` is
the primitive `PyMeq.slycotCheck` (= false), a module-level name bound by `try: from slycot import f /
except ImportError: f = None` is `None`, and a `try: from slycot import f / except ImportError: raise
ControlSlycot(..)` inside a body raises.  What `method` is known to be is tracked along the control
flow (`if method == 'slycot': <raises>` leaves `'scipy'`), so code that only the Slycot route reaches
is DEAD and not translated; if an edit makes it reachable the translation fails.

Tests `x is None` / `x is not None` on optional arguments become `match`es that refine the static
type in the branches (a conjunction of such tests: one `match` on several variables with a wildcard
arm); `if` statements whose branch ends in `return` / `raise` take the rest of the block into the
other branch, otherwise they are a join returning the variables re-bound in the branches (an array
re-bound in one branch and `None` in the other is an `Option` again); `a if x is None else b` is
`PyMeq.ifNone x a fun x => b` (both branches effect-free).  Effectful sub-expressions (`@ + -` of
arrays, `solve`, solver / eigenvalue / `_check_shape` calls) are bound left to right in Python's
order.  Calls are bound to parameters BY NAME through the signature read from the source
(`_check_shape`) resp. the documented SciPy signature (keywords `e=`, `s=`), default values of the
translated functions are compared with the expected ones, free names (`np sp solve eigvals eye
_check_shape …`) are resolved through the module's imports and must not be re-bound.  Python locals
whose names collide with names of the emitted Lean code (`K`, `L`, `eps`, keywords) get a suffix `_`.
The sha256 of each function text is recorded; output is deterministic and rewritten only when changed.

Supported subset (anything else raises `Unsupported`):
  statements  docstring, `x = e`, `a, b = e1, e2`, `w, _ = <eig call>`, `_check_shape(...)` as a
              statement, `if / elif / else`, `raise ControlArgument|ControlDimension|ControlSlycot(msg)`,
              `return e`, `return e1, e2, e3`, the Slycot import guard above
  tests       `x is None`, `x is not None` (and `and` of them), `not t`, `stabilizing`,
              `method == 'scipy'|'slycot'`, `method is None`, `slycot_check()`, `and` / `or` of those
  expressions names, `None`, `True/False`, string and non-negative int literals, `X.T`, `-X`,
              `X.shape[0|1]`, `X @ Y`, `X + Y`, `X - Y`, `a if x is None else b`, and the calls
              `np.array(X, ndmin=2)`, `np.eye(n)`, `eye(n)`, `np.zeros((n, m))`, `np.linalg.solve`,
              `solve`, `sp.linalg.solve`, `sp.linalg.solve_continuous_lyapunov / solve_discrete_lyapunov
              / solve_sylvester / solve_continuous_are / solve_discrete_are`, `np.linalg.eig`,
              `sp.linalg.eig`, `eigvals`, `_slycot_or_scipy(method)`, `_check_shape(...)`
"""
import ast
import hashlib
import os
import re

from core.py2lean import Unsupported
from core.py2lean_ss import module_bindings, _ind

DARR, OPT, NONEV, MAT, NAT, BOOL, STR, METHOD, BACKEND, EIG, EIGPAIR, SHAPE = (
    "DARR", "OPT", "NONEV", "MAT", "NAT", "BOOL", "STR", "METHOD", "BACKEND", "EIG", "EIGPAIR", "SHAPE")
LEAN_TY = {DARR: "DMat K", OPT: "Option (DMat K)", MAT: "PMat K", NAT: "Nat", BOOL: "Bool", STR: "String",
           METHOD: "PyMeq.Method", BACKEND: "PyMeq.Backend", EIG: "L"}
RESERVED = {"K", "L", "Sv", "ev", "eps",
            # Lean keywords / names the emitted code refers to: a Python local of that name gets a suffix
            "none", "some", "pure", "true", "false", "do", "let", "match", "with", "if", "then", "else", "fun",
            "throw", "at", "from", "have", "show", "end", "open", "by", "in", "where", "Type", "Generated", "PyMeq",
            "PMat", "DMat", "Err", "Except", "Option", "Solvers", "Int", "Nat", "Bool", "String", "Unit"}
REL = "control/mateqn.py"

# what the free names of control/mateqn.py must be bound to (checked against the module's imports)
IMPORTS = {
    "np": ("import", "numpy"), "sp": ("import", "scipy"),
    "eye": ("from", "numpy"), "solve": ("from", "scipy.linalg"), "eigvals": ("from", "scipy.linalg"),
    "ControlArgument": ("from", "exception"), "ControlDimension": ("from", "exception"),
    "ControlSlycot": ("from", "exception"),
    "_check_shape": ("def",), "_slycot_or_scipy": ("def",), "slycot_check": ("from", "exception"),
}
EXC = {"ControlArgument": "badArg", "ControlDimension": "shape", "ControlSlycot": "notImplemented"}
# SciPy signatures (documented): positional order, optional keywords the translator accepts
SOLVERS = {
    "solve_continuous_lyapunov": ("solveContinuousLyapunov", ["a", "q"], []),
    "solve_discrete_lyapunov": ("solveDiscreteLyapunov", ["a", "q"], []),
    "solve_sylvester": ("solveSylvester", ["a", "b", "q"], []),
    "solve_continuous_are": ("solveContinuousAre", ["a", "b", "q", "r"], ["e", "s"]),
    "solve_discrete_are": ("solveDiscreteAre", ["a", "b", "q", "r"], ["e", "s"]),
}
CHECK_PARAMS = ["M", "n", "m", "square", "symmetric", "name"]


class V:
    """a translated effect-free expression: Lean code (atomic or parenthesised), static type, literal
    value (int / bool / str), the known value of a back-end variable, the items of a tuple"""

    def __init__(self, code, ty, lit=None, known=None, items=None):
        self.code, self.ty, self.lit, self.known, self.items = code, ty, lit, known, items


def lname(name):
    """the Lean name of a Python local"""
    if name in RESERVED or re.fullmatch(r"t\d+", name):
        return name + "_"
    return name


def slycot_none_names(module):
    """module-level names that are `None` when Slycot cannot be imported: assigned `None` in the
    `except ImportError` handler of a `try` whose body imports from slycot (handlers may nest)"""
    out = set()

    def scan(tr):
        if not any(isinstance(b, ast.ImportFrom) and (b.module or "").split(".")[0] == "slycot" for b in tr.body):
            return
        for h in tr.handlers:
            if h.type is None or ast.unparse(h.type) != "ImportError":
                continue
            for b in h.body:
                if isinstance(b, ast.Assign) and isinstance(b.value, ast.Constant) and b.value.value is None:
                    for t in b.targets:
                        if isinstance(t, ast.Name):
                            out.add(t.id)
                elif isinstance(b, ast.Try):
                    scan(b)

    for node in module.body:
        if isinstance(node, ast.Try):
            scan(node)
    return out


class Translator:
    def __init__(self, job, module, bindings):
        self.job = job
        self.module = module
        self.bindings = bindings
        self.slycot_none = slycot_none_names(module)
        self.ntmp = 0
        self.notes = []
        self.locals = set()

    # ---------------------------------------------------------------------------------------
    def tmp(self):
        self.ntmp += 1
        return "t%d" % self.ntmp

    def need(self, name):
        got = self.bindings.get(name)
        if name in self.locals:
            raise Unsupported("`%s` is re-bound inside the function" % name)
        if got != IMPORTS[name]:
            raise Unsupported("`%s` is bound to %s in the module, expected %s" % (name, got, IMPORTS[name]))

    def bind(self, pre, code, ty):
        t = self.tmp()
        pre.append("let %s ← %s" % (t, code))
        return V(t, ty)

    def note(self, text):
        if text not in self.notes:
            self.notes.append(text)

    # -- coercions ----------------------------------------------------------------------------
    def mat(self, v):
        if v.ty == MAT:
            return v.code
        if v.ty == DARR:
            return "(PyMeq.toP %s)" % v.code
        raise Unsupported("expected an array, got %s" % v.ty)

    def opt_mat(self, v):
        """an optional array handed to a SciPy keyword"""
        if v.ty == NONEV:
            return "none"
        if v.ty == OPT:
            return "(Option.map PyMeq.toP %s)" % v.code
        return "(some %s)" % self.mat(v)

    def nat(self, v):
        if v.ty == NAT:
            return v.code
        raise Unsupported("expected a size, got %s" % v.ty)

    def coerce(self, v, ty):
        """the code of `v` where a value of static type `ty` is expected"""
        if v.ty == ty:
            return v.code
        if ty == OPT and v.ty == DARR:
            return "(some %s)" % v.code
        if ty == OPT and v.ty == NONEV:
            return "none"
        if ty == MAT and v.ty == DARR:
            return self.mat(v)
        if ty == BACKEND and v.ty == STR and v.lit in ("scipy", "slycot"):
            return "PyMeq.Backend.%s" % v.lit
        raise Unsupported("a %s where a %s is expected" % (v.ty, ty))

    @staticmethod
    def unify(a, b):
        if a == b:
            return a
        if {a, b} <= {OPT, DARR, NONEV}:
            return OPT
        if {a, b} == {MAT, DARR}:
            return MAT
        return None

    # -- tests ----------------------------------------------------------------------------------
    def test(self, node, env):
        """Python test -> ('static', bool) | ('opt', [(name, is_none)]) | ('bool', Lean Prop, fact)
        where fact = (name, value in the then branch, value in the else branch) or None"""
        if isinstance(node, ast.UnaryOp) and isinstance(node.op, ast.Not):
            t = self.test(node.operand, env)
            if t[0] == "static":
                return ("static", not t[1])
            if t[0] == "opt" and len(t[1]) == 1:
                return ("opt", [(t[1][0][0], not t[1][0][1])])
            if t[0] == "bool":
                f = t[2]
                return ("bool", "(¬ %s)" % t[1], None if f is None else (f[0], f[2], f[1]))
            raise Unsupported("negated test %s" % ast.unparse(node)[:60])
        if isinstance(node, ast.BoolOp):
            is_and = isinstance(node.op, ast.And)
            parts = [self.test(sub, env) for sub in node.values]
            dyn = [t for t in parts if t[0] != "static"]
            if any(t[0] == "static" and t[1] != is_and for t in parts):
                # a False operand of `and` / a True operand of `or` decides (the operands are effect-free)
                return ("static", not is_and)
            if not dyn:
                return ("static", is_and)
            if all(t[0] == "opt" for t in dyn) and is_and:
                atoms = [a for t in dyn for a in t[1]]
                if len({a for a, _ in atoms}) != len(atoms):
                    raise Unsupported("a variable tested twice in %s" % ast.unparse(node)[:60])
                return ("opt", atoms)
            if all(t[0] == "bool" for t in dyn):
                if len(dyn) == 1:
                    return dyn[0]
                return ("bool", "(" + (" ∧ " if is_and else " ∨ ").join(t[1] for t in dyn) + ")", None)
            raise Unsupported("`%s` of %s" % ("and" if is_and else "or", ast.unparse(node)[:60]))
        if isinstance(node, ast.Compare) and len(node.ops) == 1:
            op, lhs, rhs = node.ops[0], node.left, node.comparators[0]
            if isinstance(lhs, ast.Name) and lhs.id in env and env[lhs.id].ty == METHOD:
                # the raw `method` argument: None, 'scipy', 'slycot' or anything else
                v = env[lhs.id]
                if isinstance(op, (ast.Is, ast.IsNot)) and isinstance(rhs, ast.Constant) and rhs.value is None:
                    code = "(%s = PyMeq.Method.none)" % v.code
                    return ("bool", code if isinstance(op, ast.Is) else "(¬ %s)" % code, None)
                if isinstance(op, (ast.Eq, ast.NotEq)) and isinstance(rhs, ast.Constant) \
                        and rhs.value in ("scipy", "slycot"):
                    code = "(%s = PyMeq.Method.%s)" % (v.code, rhs.value)
                    return ("bool", code if isinstance(op, ast.Eq) else "(¬ %s)" % code, None)
                raise Unsupported("test of the method argument: %s" % ast.unparse(node)[:60])
            if isinstance(op, (ast.Is, ast.IsNot)) and isinstance(rhs, ast.Constant) and rhs.value is None \
                    and isinstance(lhs, ast.Name):
                want = isinstance(op, ast.Is)
                if lhs.id in env:
                    v = env[lhs.id]
                    if v.ty == NONEV:
                        return ("static", want)
                    if v.ty == OPT:
                        return ("opt", [(lhs.id, want)])
                    if v.ty in (DARR, MAT, NAT, BOOL, STR, BACKEND, EIG):
                        return ("static", not want)
                    raise Unsupported("`is None` on a %s" % v.ty)
                if lhs.id in self.locals:
                    raise Unsupported("unknown local %s" % lhs.id)
                if lhs.id in self.slycot_none and self.bindings.get(lhs.id) is None:
                    self.note("`%s` is None: Slycot is absent (module-level `try: from slycot import … except "
                              "ImportError: … = None`)" % lhs.id)
                    return ("static", want)
                raise Unsupported("`%s is None` for a name that is neither a local nor a Slycot routine" % lhs.id)
            if isinstance(op, (ast.Eq, ast.NotEq)) and isinstance(lhs, ast.Name) and lhs.id in env \
                    and env[lhs.id].ty == BACKEND and isinstance(rhs, ast.Constant) and isinstance(rhs.value, str):
                v = env[lhs.id]
                eq = isinstance(op, ast.Eq)
                if rhs.value not in ("scipy", "slycot"):
                    return ("static", not eq)
                other = "slycot" if rhs.value == "scipy" else "scipy"
                if v.known is not None:
                    return ("static", (v.known == rhs.value) == eq)
                code = "(%s = PyMeq.Backend.%s)" % (v.code, rhs.value)
                if eq:
                    return ("bool", code, (lhs.id, rhs.value, other))
                return ("bool", "(¬ %s)" % code, (lhs.id, other, rhs.value))
        if isinstance(node, ast.Name) and node.id in env and env[node.id].ty == BOOL:
            return ("bool", "(%s = true)" % env[node.id].code, None)
        if isinstance(node, ast.Call) and ast.unparse(node) == "slycot_check()":
            self.need("slycot_check")
            self.note("`slycot_check()` is `PyMeq.slycotCheck` (False: Slycot is absent)")
            return ("bool", "(PyMeq.slycotCheck = true)", None)
        raise Unsupported("test %s" % ast.unparse(node)[:80])

    # -- expressions --------------------------------------------------------------------------
    def expr(self, node, env, pre):
        if isinstance(node, ast.Name):
            if node.id in env:
                return env[node.id]
            raise Unsupported("unknown name %s" % node.id)
        if isinstance(node, ast.Constant):
            if node.value is None:
                return V("(none : Option (DMat K))", NONEV)
            if node.value is True or node.value is False:
                return V("true" if node.value else "false", BOOL, lit=node.value)
            if type(node.value) is int and node.value >= 0:
                return V("(%d : Nat)" % node.value, NAT, lit=node.value)
            if isinstance(node.value, str):
                if '"' in node.value or "\\" in node.value or "\n" in node.value:
                    raise Unsupported("string literal %r" % node.value)
                return V('"%s"' % node.value, STR, lit=node.value)
            raise Unsupported("constant %r" % (node.value,))
        if isinstance(node, ast.UnaryOp) and isinstance(node.op, ast.USub):
            v = self.expr(node.operand, env, pre)
            if v.ty in (MAT, DARR):
                return V("(PMat.neg %s)" % self.mat(v), MAT)
            raise Unsupported("unary minus on %s" % v.ty)
        if isinstance(node, ast.Tuple):
            return V(None, SHAPE, items=[self.expr(e, env, pre) for e in node.elts])
        if isinstance(node, ast.Attribute):
            v = self.expr(node.value, env, pre)
            if node.attr == "T" and v.ty in (MAT, DARR):
                return V("(PMat.T %s)" % self.mat(v), MAT)
            if node.attr == "shape" and v.ty == DARR:
                return V(None, SHAPE, items=[V("%s.p" % v.code, NAT), V("%s.q" % v.code, NAT)])
            if node.attr == "shape" and v.ty == MAT:
                return V(None, SHAPE, items=[V("%s.r" % v.code, NAT), V("%s.c" % v.code, NAT)])
            raise Unsupported("attribute .%s of %s" % (node.attr, v.ty))
        if isinstance(node, ast.Subscript):
            v = self.expr(node.value, env, pre)
            sl = node.slice
            if v.ty == SHAPE and isinstance(sl, ast.Constant) and sl.value in (0, 1) and type(sl.value) is int \
                    and len(v.items) == 2:
                return v.items[sl.value]
            raise Unsupported("subscript %s" % ast.unparse(node)[:60])
        if isinstance(node, ast.BinOp):
            a = self.expr(node.left, env, pre)
            b = self.expr(node.right, env, pre)
            arr = lambda v: v.ty in (MAT, DARR)
            if isinstance(node.op, ast.MatMult) and arr(a) and arr(b):
                return self.bind(pre, "PMat.matmul %s %s" % (self.mat(a), self.mat(b)), MAT)
            if isinstance(node.op, ast.Add) and arr(a) and arr(b):
                return self.bind(pre, "PMat.add %s %s" % (self.mat(a), self.mat(b)), MAT)
            if isinstance(node.op, ast.Sub) and arr(a) and arr(b):
                return self.bind(pre, "PMat.sub %s %s" % (self.mat(a), self.mat(b)), MAT)
            raise Unsupported("%s %s %s" % (a.ty, type(node.op).__name__, b.ty))
        if isinstance(node, ast.IfExp):
            return self.ifexp(node, env, pre)
        if isinstance(node, ast.Call):
            return self.call(node, env, pre)
        raise Unsupported("expression %s" % ast.unparse(node)[:80])

    def ifexp(self, node, env, pre):
        t = self.test(node.test, env)
        if t[0] == "static":
            return self.expr(node.body if t[1] else node.orelse, env, pre)
        if t[0] != "opt" or len(t[1]) != 1:
            raise Unsupported("conditional expression on %s" % ast.unparse(node.test)[:60])
        x, is_none = t[1][0]
        env_none, env_some = dict(env), dict(env)
        env_none[x] = V("(none : Option (DMat K))", NONEV)
        env_some[x] = V(lname(x), DARR)
        p1, p2 = [], []
        v_then = self.expr(node.body, env_none if is_none else env_some, p1)
        v_else = self.expr(node.orelse, env_some if is_none else env_none, p2)
        if p1 or p2:
            raise Unsupported("effectful branch of a conditional expression")
        ty = self.unify(v_then.ty, v_else.ty)
        if ty is None:
            raise Unsupported("conditional expression of %s / %s" % (v_then.ty, v_else.ty))
        v_none, v_some = (v_then, v_else) if is_none else (v_else, v_then)
        return V("(PyMeq.ifNone %s %s fun %s => %s)" % (
            env[x].code, self.coerce(v_none, ty), lname(x), self.coerce(v_some, ty)), ty)

    def bind_args(self, node, names, optional, env, pre):
        """bind the arguments of a call to parameter names (positional order `names + optional`)"""
        order = list(names) + list(optional)
        given = {}
        if len(node.args) > len(order):
            raise Unsupported("too many arguments in %s" % ast.unparse(node)[:60])
        # Python evaluates positional arguments, then keywords, left to right
        for nm, a in zip(order, node.args):
            if isinstance(a, ast.Starred):
                raise Unsupported("starred argument")
            given[nm] = self.expr(a, env, pre)
        for kw in node.keywords:
            if kw.arg is None or kw.arg not in order or kw.arg in given:
                raise Unsupported("keyword %s in %s" % (kw.arg, ast.unparse(node)[:60]))
            given[kw.arg] = self.expr(kw.value, env, pre)
        for nm in names:
            if nm not in given:
                raise Unsupported("missing argument %s in %s" % (nm, ast.unparse(node)[:60]))
        return given

    def call(self, node, env, pre):
        f = ast.unparse(node.func)
        args, kws = node.args, {k.arg: k.value for k in node.keywords}
        if f == "np.array" and len(args) == 1 and list(kws) == ["ndmin"] and isinstance(kws["ndmin"], ast.Constant) \
                and kws["ndmin"].value == 2:
            self.need("np")
            v = self.expr(args[0], env, pre)
            if v.ty == DARR:
                return V("(PyMeq.array2d %s)" % v.code, DARR)
            raise Unsupported("np.array of a %s" % v.ty)
        if f in ("np.eye", "eye") and len(args) == 1 and not kws:
            self.need("np" if f == "np.eye" else "eye")
            n = self.expr(args[0], env, pre)
            if not self.job["eps"]:
                raise Unsupported("np.eye in a function without float64 arrays")
            return V("(PyMeq.eye eps %s)" % self.nat(n), DARR)
        if f == "np.zeros" and len(args) == 1 and not kws and isinstance(args[0], ast.Tuple) and len(args[0].elts) == 2:
            self.need("np")
            r = self.expr(args[0].elts[0], env, pre)
            c = self.expr(args[0].elts[1], env, pre)
            if not self.job["eps"]:
                raise Unsupported("np.zeros in a function without float64 arrays")
            return V("(PyMeq.zeros eps %s %s)" % (self.nat(r), self.nat(c)), DARR)
        if f in ("np.linalg.solve", "solve", "sp.linalg.solve") and len(args) == 2 and not kws:
            self.need({"np.linalg.solve": "np", "solve": "solve", "sp.linalg.solve": "sp"}[f])
            a = self.expr(args[0], env, pre)
            b = self.expr(args[1], env, pre)
            return self.bind(pre, "PMat.solve %s %s" % (self.mat(a), self.mat(b)), MAT)
        if f.startswith("sp.linalg.") and f[len("sp.linalg."):] in SOLVERS:
            self.need("sp")
            lean, names, optional = SOLVERS[f[len("sp.linalg."):]]
            given = self.bind_args(node, names, optional, env, pre)
            code = ["PyMeq.%s Sv" % lean] + [self.mat(given[nm]) for nm in names]
            for nm in optional:
                code.append(self.opt_mat(given[nm]) if nm in given else "none")
            return self.bind(pre, " ".join(code), MAT)
        if f in ("np.linalg.eig", "sp.linalg.eig", "eigvals", "sp.linalg.eigvals"):
            if not self.job["eig"]:
                raise Unsupported("eigenvalue call in %s" % self.job["func"])
            self.need({"np.linalg.eig": "np", "sp.linalg.eig": "sp", "eigvals": "eigvals", "sp.linalg.eigvals": "sp"}[f])
            given = self.bind_args(node, ["a"], [] if f == "np.linalg.eig" else ["b"], env, pre)
            e = self.opt_mat(given["b"]) if "b" in given else "none"
            pair = f.endswith(".eig")
            return self.bind(pre, "PyMeq.eig ev %s %s" % (self.mat(given["a"]), e), EIGPAIR if pair else EIG)
        if f == "_slycot_or_scipy" and len(args) == 1 and not kws:
            self.need("_slycot_or_scipy")
            v = self.expr(args[0], env, pre)
            if v.ty != METHOD:
                raise Unsupported("_slycot_or_scipy of a %s" % v.ty)
            return self.bind(pre, "Generated.slycotOrScipy %s" % v.code, BACKEND)
        if f == "_check_shape":
            return self.check_shape(node, env, pre)
        raise Unsupported("call %s" % ast.unparse(node)[:80])

    def check_shape(self, node, env, pre):
        """`_check_shape(...)`: arguments bound by name through the signature in the source"""
        self.need("_check_shape")
        fn = [n for n in self.module.body if isinstance(n, ast.FunctionDef) and n.name == "_check_shape"]
        if len(fn) != 1:
            raise Unsupported("_check_shape defined %d times" % len(fn))
        a = fn[0].args
        params = [x.arg for x in a.args]
        if a.vararg or a.kwarg or a.kwonlyargs or a.posonlyargs or params != CHECK_PARAMS:
            raise Unsupported("signature of _check_shape: %s" % params)
        defaults = dict(zip(params[len(params) - len(a.defaults):], a.defaults))
        given = {}
        if len(node.args) > len(params):
            raise Unsupported("too many arguments in %s" % ast.unparse(node)[:60])
        for nm, x in zip(params, node.args):
            given[nm] = self.expr(x, env, pre)
        for kw in node.keywords:
            if kw.arg is None or kw.arg not in params or kw.arg in given:
                raise Unsupported("keyword %s in %s" % (kw.arg, ast.unparse(node)[:60]))
            given[kw.arg] = self.expr(kw.value, env, pre)
        for nm in params:
            if nm not in given:
                if nm not in defaults:
                    raise Unsupported("missing argument %s in %s" % (nm, ast.unparse(node)[:60]))
                given[nm] = self.expr(defaults[nm], {}, [])
        want = {"M": DARR, "n": NAT, "m": NAT, "square": BOOL, "symmetric": BOOL, "name": STR}
        for nm in params:
            if given[nm].ty != want[nm]:
                raise Unsupported("argument %s of _check_shape is a %s" % (nm, given[nm].ty))
        code = "Generated.checkShape %s (%s : Int) (%s : Int) %s %s %s" % (
            given["M"].code, given["n"].code, given["m"].code, given["square"].code, given["symmetric"].code,
            given["name"].code)
        return self.bind(pre, code, DARR)

    # -- statements ---------------------------------------------------------------------------
    @staticmethod
    def is_doc(s):
        return isinstance(s, ast.Expr) and isinstance(s.value, ast.Constant) and isinstance(s.value.value, str)

    def assign(self, name, v, env, pre):
        """`name = v` (the static type follows the value)"""
        if v.ty in (SHAPE, EIGPAIR, METHOD):
            raise Unsupported("assignment of a %s" % v.ty)
        self.locals.add(name)
        ln = lname(name)
        if pre and re.fullmatch(r"t\d+", v.code or "") and pre[-1].startswith("let %s ← " % v.code):
            last = pre.pop()
            self.ntmp -= 1
            lines = pre + ["let %s ← %s" % (ln, last[len("let %s ← " % v.code):])]
            env[name] = V(ln, v.ty)
            return lines
        if v.ty == NONEV:
            env[name] = V("(none : Option (DMat K))", NONEV)
            return pre
        env[name] = V(ln, v.ty)
        return pre + ["let %s : %s := %s" % (ln, LEAN_TY[v.ty], v.code)]

    def ret(self, node, env):
        pre = []
        want = self.job["ret"]
        if isinstance(node, ast.Tuple):
            vs = [self.expr(e, env, pre) for e in node.elts]
        else:
            vs = [self.expr(node, env, pre)]
        if len(vs) != len(want):
            raise Unsupported("returns %d values, expected %d" % (len(vs), len(want)))
        codes = [self.coerce(v, ty) for v, ty in zip(vs, want)]
        if len(vs) == 1 and pre and pre[-1].startswith("let %s ← " % vs[0].code) and re.fullmatch(r"t\d+", vs[0].code):
            last = pre.pop()
            self.ntmp -= 1
            return pre + [last[len("let %s ← " % vs[0].code):]]
        return pre + ["pure %s" % (codes[0] if len(codes) == 1 else "(" + ", ".join(codes) + ")")]

    def slycot_import(self, s):
        """`try: from slycot import f / except ImportError: raise ControlSlycot(..)`"""
        if s.orelse or s.finalbody or len(s.handlers) != 1:
            return False
        h = s.handlers[0]
        if not all(isinstance(b, ast.ImportFrom) and (b.module or "").split(".")[0] == "slycot" for b in s.body) \
                or not s.body:
            return False
        if h.type is None or ast.unparse(h.type) != "ImportError" or len(h.body) != 1 \
                or not isinstance(h.body[0], ast.Raise):
            return False
        return self.exc_kind(h.body[0])

    def exc_kind(self, s):
        e = s.exc
        if isinstance(e, ast.Call) and isinstance(e.func, ast.Name) and e.func.id in EXC and len(e.args) == 1 \
                and not e.keywords:
            self.need(e.func.id)
            for n in ast.walk(e.args[0]):
                if isinstance(n, (ast.Call, ast.Subscript, ast.Attribute, ast.Await, ast.NamedExpr)):
                    raise Unsupported("message of %s" % ast.unparse(s)[:60])
            return EXC[e.func.id]
        raise Unsupported("raise %s" % ast.unparse(s)[:60])

    @staticmethod
    def assigned(stmts):
        out = set()
        for s in stmts:
            for n in ast.walk(s):
                if isinstance(n, ast.Name) and isinstance(n.ctx, ast.Store):
                    out.add(n.id)
        out.discard("_")
        return out

    def seq(self, stmts, env, tail):
        """translate a statement list; returns (lines, ended).  `tail`: None = the block must end in
        return / raise; "probe" = only find out whether it ends; a list of (name, type) = a branch of a
        join: ends with `pure (vars)` (`pure ()` for the empty list)."""
        lines = []
        stmts = [s for s in stmts if not self.is_doc(s) and not isinstance(s, ast.Pass)]
        for idx, s in enumerate(stmts):
            rest = stmts[idx + 1:]
            if isinstance(s, ast.Return):
                if s.value is None:
                    raise Unsupported("bare return")
                return lines + self.ret(s.value, env), True
            if isinstance(s, ast.Raise):
                return lines + ["throw Err.%s" % self.exc_kind(s)], True
            if isinstance(s, ast.Try):
                kind = self.slycot_import(s)
                if kind:
                    self.note("`try: from slycot import … except ImportError: raise …`: Slycot is absent, the "
                              "handler runs; the code after it is dead")
                    return lines + ["throw Err.%s" % kind], True
                raise Unsupported("try statement %s" % ast.unparse(s)[:60])
            if isinstance(s, ast.Expr):
                if isinstance(s.value, ast.Call) and ast.unparse(s.value.func) == "_check_shape":
                    pre = []
                    v = self.expr(s.value, env, pre)
                    last = pre.pop()
                    self.ntmp -= 1
                    lines += pre + ["let _ ← %s" % last[len("let %s ← " % v.code):]]
                    continue
                raise Unsupported("expression statement %s" % ast.unparse(s)[:60])
            if isinstance(s, ast.Assign) and len(s.targets) == 1:
                t = s.targets[0]
                if isinstance(t, ast.Name):
                    pre = []
                    v = self.expr(s.value, env, pre)
                    lines += self.assign(t.id, v, env, pre)
                    continue
                if isinstance(t, ast.Tuple) and len(t.elts) == 2 and all(isinstance(x, ast.Name) for x in t.elts) \
                        and t.elts[1].id == "_" and isinstance(s.value, ast.Call):
                    pre = []
                    v = self.expr(s.value, env, pre)
                    if v.ty != EIGPAIR:
                        raise Unsupported("unpacking of a %s" % v.ty)
                    self.note("`w, _ = eig(…)`: the eigenvectors are discarded, `w` are the eigenvalues")
                    lines += self.assign(t.elts[0].id, V(v.code, EIG), env, pre)
                    continue
                if isinstance(t, ast.Tuple) and isinstance(s.value, ast.Tuple) and len(t.elts) == len(s.value.elts) \
                        and all(isinstance(x, ast.Name) for x in t.elts):
                    names = [x.id for x in t.elts]
                    used = {n.id for n in ast.walk(s.value) if isinstance(n, ast.Name)}
                    if used & set(names):
                        raise Unsupported("tuple assignment that reads its own targets")
                    for nm, val in zip(names, s.value.elts):
                        pre = []
                        v = self.expr(val, env, pre)
                        lines += self.assign(nm, v, env, pre)
                    continue
                raise Unsupported("assignment %s" % ast.unparse(s)[:60])
            if isinstance(s, ast.If):
                got = self.if_stmt(s, rest, env, tail)
                if got[0] == "done":
                    return lines + got[1], got[2]
                lines += got[1]
                continue
            raise Unsupported("statement %s" % ast.unparse(s)[:60])
        if tail is None:
            raise Unsupported("a path falls off the end of the function (Python returns None)")
        if tail == "probe":
            return lines, False
        vals = []
        for nm, ty in tail:
            if nm not in env:
                raise Unsupported("internal: join variable undefined")
            vals.append(self.coerce(env[nm], ty))
        return lines + ["pure %s" % ("()" if not vals else vals[0] if len(vals) == 1 else "(" + ", ".join(vals) + ")")], False

    def branch_envs(self, t, env):
        benv, eenv = dict(env), dict(env)
        if t[0] == "opt":
            for x, is_none in t[1]:
                benv[x] = V("(none : Option (DMat K))", NONEV) if is_none else V(lname(x), DARR)
            if len(t[1]) == 1:
                x, is_none = t[1][0]
                eenv[x] = V(lname(x), DARR) if is_none else V("(none : Option (DMat K))", NONEV)
        elif t[2] is not None:
            x, kb, ke = t[2]
            benv[x] = V(env[x].code, BACKEND, known=kb)
            eenv[x] = V(env[x].code, BACKEND, known=ke)
        return benv, eenv

    def branch_code(self, t, env, bl, el):
        """the Lean lines of a two-way branch on the test `t` with the branch bodies `bl`, `el`"""
        if t[0] == "bool":
            return ["if %s then do" % t[1]] + _ind(bl) + ["else do"] + _ind(el)
        atoms = t[1]
        scrut = ", ".join(env[x].code for x, _ in atoms)
        pat = ", ".join("none" if is_none else "some %s" % lname(x) for x, is_none in atoms)
        if len(atoms) == 1:
            x, is_none = atoms[0]
            other = "some %s" % lname(x) if is_none else "none"
            return ["match %s with" % scrut, "| %s => do" % pat] + _ind(bl) + ["| %s => do" % other] + _ind(el)
        wild = ", ".join("_" for _ in atoms)
        return ["match %s with" % scrut, "| %s => do" % pat] + _ind(bl) + ["| %s => do" % wild] + _ind(el)

    def if_stmt(self, s, rest, env, tail):
        t = self.test(s.test, env)
        if t[0] == "static":
            sub, ended = self.seq((list(s.body) if t[1] else list(s.orelse)) + rest, env, tail)
            return ("done", sub, ended)
        save = self.ntmp
        benv, eenv = self.branch_envs(t, env)
        _, b_end = self.seq(list(s.body), benv, "probe")
        _, e_end = self.seq(list(s.orelse), eenv, "probe")
        self.ntmp = save
        if b_end or e_end:
            # continuation style: the rest of the block goes into the branch(es) that go on
            benv, eenv = self.branch_envs(t, env)
            bl, b_end2 = self.seq(list(s.body) + ([] if b_end else rest), benv, tail)
            save2 = self.ntmp
            self.ntmp = save if b_end else self.ntmp
            el, e_end2 = self.seq(list(s.orelse) + ([] if e_end else rest), eenv, tail)
            self.ntmp = max(self.ntmp, save2)
            return ("done", self.branch_code(t, env, bl, el), b_end2 and e_end2)
        # join: the variables assigned in a branch that are known afterwards
        names = sorted(self.assigned(s.body) | self.assigned(s.orelse))
        live = []
        for nm in names:
            tb, te = benv.get(nm), eenv.get(nm)
            if tb is None or te is None:
                continue                    # defined on one path only: not available afterwards
            ty = self.unify(tb.ty, te.ty)
            if ty is None:
                raise Unsupported("`%s` is a %s / %s after the branches" % (nm, tb.ty, te.ty))
            live.append((nm, ty))
        benv, eenv = self.branch_envs(t, env)
        bl, _ = self.seq(list(s.body), benv, live)
        el, _ = self.seq(list(s.orelse), eenv, live)
        tys = [LEAN_TY[ty] for _, ty in live]
        pat = "_" if not live else lname(live[0][0]) if len(live) == 1 else "(" + ", ".join(lname(nm) for nm, _ in live) + ")"
        ty = "Unit" if not tys else tys[0] if len(tys) == 1 else " × ".join(tys)
        lines = ["let %s ← (do" % pat] + _ind(self.branch_code(t, env, bl, el)) + ["  : Except Err (%s))" % ty]
        for nm, vty in live:
            env[nm] = V(lname(nm), vty)
            self.locals.add(nm)
        for nm in names:
            if nm not in [x for x, _ in live]:
                env.pop(nm, None)
        return ("cont", lines)


# -------------------------------------------------------------------------------------------------
# jobs
# -------------------------------------------------------------------------------------------------
_NAMES = ["_As", "_Bs", "_Qs", "_Rs", "_Ss", "_Es"]
_NAME_DEFAULTS = {"_As": "'A'", "_Bs": "'B'", "_Qs": "'Q'", "_Rs": "'R'", "_Ss": "'S'", "_Es": "'E'"}
JOBS = [
    dict(func="_slycot_or_scipy", lean="slycotOrScipy", out="MatEqnMethod.lean", eps=False, eig=False, ret=[BACKEND],
         params=[("method", METHOD)], defaults={}, solvers=False, imports=[]),
    dict(func="lyap", lean="lyap", out="MatEqnLyap.lean", eps=False, eig=False, ret=[MAT],
         params=[("A", DARR), ("Q", DARR), ("C", OPT), ("E", OPT), ("method", METHOD)],
         defaults={"C": "None", "E": "None", "method": "None"}),
    dict(func="dlyap", lean="dlyap", out="MatEqnDlyap.lean", eps=False, eig=False, ret=[MAT],
         params=[("A", DARR), ("Q", DARR), ("C", OPT), ("E", OPT), ("method", METHOD)],
         defaults={"C": "None", "E": "None", "method": "None"}),
    dict(func="care", lean="care", out="MatEqnCare.lean", eps=True, eig=True, ret=[MAT, EIG, MAT],
         params=[("A", DARR), ("B", DARR), ("Q", DARR), ("R", OPT), ("S", OPT), ("E", OPT), ("stabilizing", BOOL),
                 ("method", METHOD)] + [(n, STR) for n in _NAMES],
         defaults=dict({"R": "None", "S": "None", "E": "None", "stabilizing": "True", "method": "None"},
                       **_NAME_DEFAULTS)),
    dict(func="dare", lean="dare", out="MatEqnDare.lean", eps=True, eig=True, ret=[MAT, EIG, MAT],
         params=[("A", DARR), ("B", DARR), ("Q", DARR), ("R", OPT), ("S", OPT), ("E", OPT), ("stabilizing", BOOL),
                 ("method", METHOD)] + [(n, STR) for n in _NAMES],
         defaults=dict({"S": "None", "E": "None", "stabilizing": "True", "method": "None"}, **_NAME_DEFAULTS)),
]


def ret_type(job):
    return " × ".join(LEAN_TY[t] for t in job["ret"])


def signature(job, hide=False):
    us = "_" if hide else ""
    parts = ["(%sSv : Solvers K)" % us] if job.get("solvers", True) else []
    if job["eig"]:
        parts.append("(%sev : PyMeq.EigFun K L)" % us)
    if job["eps"]:
        parts.append("(%seps : K)" % us)
    for n, t in job["params"]:
        parts.append("(%s%s : %s)" % ("x" if hide else "", lname(n), LEAN_TY[t]))
    return ("{L : Type} " if job["eig"] else "") + " ".join(parts)


def find_function(module, func):
    found = [n for n in module.body if isinstance(n, ast.FunctionDef) and n.name == func]
    if len(found) != 1:
        raise Unsupported("function %s %s" % (func, "not found" if not found else "defined twice"))
    return found[0]


def translate(src, module, bindings, job):
    """-> (lean text of the definition, info)"""
    fn = find_function(module, job["func"])
    a = fn.args
    if a.vararg or a.kwarg or a.kwonlyargs or a.posonlyargs:
        raise Unsupported("signature")
    got = [x.arg for x in a.args]
    want = [n for n, _ in job["params"]]
    if got != want:
        raise Unsupported("parameters %s, expected %s" % (got, want))
    defaults = dict(zip(got[len(got) - len(a.defaults):], [ast.unparse(d) for d in a.defaults]))
    if defaults != job["defaults"]:
        raise Unsupported("default values %s, expected %s" % (defaults, job["defaults"]))
    text = ast.get_source_segment(src, fn)
    sha = hashlib.sha256(text.encode()).hexdigest()
    tr = Translator(job, module, bindings)
    env = {n: V(lname(n), t) for n, t in job["params"]}
    lines, _ = tr.seq(fn.body, env, None)
    where = REL + ":" + job["func"]
    doc = ("/-- `%s` as the source text says it (sha256 of the function text\n%s).\nDefaults: %s.%s -/\n" % (
        where, sha, ", ".join("%s=%s" % kv for kv in sorted(defaults.items())) or "none",
        "".join("\n  note: " + n.replace("-/", "- /") for n in tr.notes)))
    lean = doc + "def %s %s : Except Err (%s) := do\n" % (job["lean"], signature(job), ret_type(job)) \
        + "\n".join(_ind(lines)) + "\n"
    return lean, {"sha": sha, "lines": fn.end_lineno - fn.lineno + 1, "temporaries": tr.ntmp, "notes": tr.notes}


def regenerate(repo, lean_dir, only=None):
    """Rewrite Generated/MatEqn{Lyap,Dlyap,Care,Dare}.lean; returns (list of problems, info dict).  The
    files are deterministic functions of the source text (no timestamps), rewritten only when changed."""
    problems, info = [], {}
    gen_dir = os.path.join(lean_dir, "CtrlVerif", "Generated")
    os.makedirs(gen_dir, exist_ok=True)
    path = os.path.join(repo, REL)
    try:
        src = open(path).read()
        module = ast.parse(src)
        bindings = module_bindings(module)
        load_error = None
    except (OSError, SyntaxError) as e:
        src = module = bindings = None
        load_error = str(e)
    for job in JOBS:
        if only and job["func"] not in only:
            continue
        where = REL + ":" + job["func"]
        try:
            if load_error:
                raise Unsupported(load_error)
            lean, inf = translate(src, module, bindings, job)
            info[job["func"]] = inf
            sha = inf["sha"][:16]
        except Unsupported as e:
            msg = str(e).replace("\n", " ").replace("-/", "- /")[:300]
            problems.append("py2lean_meq: %s cannot be translated: %s" % (where, msg))
            sha = "FAILED"
            # a definition that cannot be equal to the model, so the obligation visibly fails
            lean = "/-- translation of `%s` FAILED: %s -/\ndef %s %s : Except Err (%s) :=\n  .error Err.notImplemented\n" % (
                where, msg, job["lean"], signature(job, hide=True), ret_type(job))
        text = ("-- GENERATED on every run by harness/core/py2lean_meq.py from %s (%s %s).  Do not edit.\n" % (
                    REL, job["func"], sha)
                + "import CtrlVerif.Model.PyMeq\n"
                + "".join("import CtrlVerif.Generated.%s\n" % m for m in job.get("imports", ["MatEqnCheck", "MatEqnMethod"]))
                + "\nnamespace CtrlVerif.Generated\n\nopen CtrlVerif MatEqn\n\n"
                + "variable {K : Type} [Field K] [LinearOrder K] [DecidableEq K]\n\n"
                + lean + "\nend CtrlVerif.Generated\n")
        p = os.path.join(gen_dir, job["out"])
        old = open(p).read() if os.path.exists(p) else None
        if old != text:
            with open(p, "w") as f:
                f.write(text)
    return problems, info


if __name__ == "__main__":
    import sys
    probs, inf = regenerate(sys.argv[1], sys.argv[2], sys.argv[3:] or None)
    for p in probs:
        print("PROBLEM", p)
    for k, v in inf.items():
        print(k, v["sha"][:16], v["lines"], "lines,", v["temporaries"], "temporaries", v["notes"])
