"""py2lean_bdalgfn - source-text tie of the functional wrappers of control/bdalg.py (C01, tag py2lean-bdalgfn).

Translates the TEXT of `feedback`, `negate`, `series`, `parallel`, `append` of the tree under check into Lean
functions over the trusted object layer `lean/CtrlVerif/Model/PyBdalg.lean` (Python objects = number / ndarray /
TransferFunction / opaque others; isinstance; method and operator dispatch; update_names / deepcopy leave the value
unchanged; try/except; tuple indexing / slicing; reduce).  `Props/C01GenFn*.lean` prove the hand-written model
(`Model/TFCall.lean`) equal to the generated functions.

Fragment: assignments, expression statements (method calls), `return`, `raise Cls(...)`, `pass`, `if/elif/else` (branches
that return / raise, or that only assign already bound names), `try: <returning body> except (classes): ...`, `for x in
<sequence>: <assignments>` (a fold), `reduce(lambda a, b: <expr>, xs, init)`, `isinstance`, `not / and / or`, `is`, `y * x`,
`x + y`, `-x`, `xs[i]`, `xs[a:b]`, `deepcopy`, the conversions `tf._convert_to_transfer_function`, `frd._convert_to_frd`,
`ss._convert_to_statespace`, the methods `.feedback(other, sign, **kw)`, `.append(x)`, `.update_names(**kw)`, `.omega`.
Anything else: the function is emitted as `.error .untranslated` (it cannot equal the model) and a problem is returned.

Pinned (checked on every run, a problem otherwise): the module-level imports that give `reduce`, `deepcopy`, `np`, `tf`,
`frd`, `ss`, `InputOutputSystem` their meaning, and the signature `feedback(self, other=1, sign=-1)` of
`TransferFunction.feedback` (no naming keywords: that is what makes the keyword path of the wrapper raise TypeError).

usage:  regenerate(repo, lean_dir) -> (problems, info);  CLI: py2lean_bdalgfn.py <repo> [function]
"""
import ast
import hashlib
import os

FUNCS = ["feedback", "negate", "series", "parallel", "append"]
FILES = {"feedback": "BdalgFnFeedback.lean", "negate": "BdalgFnNegate.lean", "series": "BdalgFnSeries.lean",
         "parallel": "BdalgFnParallel.lean", "append": "BdalgFnAppend.lean"}
# positional parameter types per wrapper (the API); '*' = the vararg tuple
SIGS = {"feedback": (["val", "val", "K"], False), "negate": (["val"], False),
        "series": ([], True), "parallel": ([], True), "append": ([], True)}
LEANTY = {"val": "PyBdalg.Val K", "K": "K", "list": "List (PyBdalg.Val K)", "kw": "PyBdalg.Kw", "bool": "Bool"}
RET = "Except PyBdalg.Exc (PyBdalg.Val K)"

PINNED_IMPORTS = {
    "reduce": ("functools", "reduce"), "deepcopy": ("copy", "deepcopy"),
    "np": ("", "numpy"), "tf": (".", "xferfcn"), "frd": (".", "frdata"), "ss": (".", "statesp"),
    "InputOutputSystem": (".iosys", "InputOutputSystem"),
}
CLS_NAMES = {"int": "int", "float": "float", "complex": "complex", "InputOutputSystem": "InputOutputSystem",
             "LTI": "LTI"}
CLS_ATTRS = {("np", "number"): "npNumber", ("np", "ndarray"): "ndarray", ("tf", "TransferFunction"): "TransferFunction",
             ("ss", "StateSpace"): "StateSpace", ("frd", "FrequencyResponseData"): "FrequencyResponseData",
             ("frd", "FRD"): "FrequencyResponseData"}
EXC_RAISE = {"TypeError": "typeError", "AttributeError": "attributeError", "IndexError": "indexError",
             "ValueError": "valueError"}
EXC_CLS = {"TypeError", "AttributeError", "IndexError", "ValueError", "Exception"}


class Untranslatable(Exception):
    pass


def bad(node, why):
    raise Untranslatable("line %s: %s" % (getattr(node, "lineno", "?"), why))


class Tr:
    """translator of one function body"""

    def __init__(self, local_imports):
        self.n = 0
        self.local_imports = local_imports

    def tmp(self):
        self.n += 1
        return "t%d" % self.n

    # ---------------- expressions: -> (pre lines, term, type, monadic?) ----------------
    # `monadic` True: `term` is a computation of type Except Exc <type>; pre are `let` lines
    def ex(self, e, env, want=None):
        if isinstance(e, ast.Name):
            if e.id not in env:
                bad(e, "unknown name %s" % e.id)
            return [], e.id, env[e.id], False
        if isinstance(e, ast.Constant) or (isinstance(e, ast.UnaryOp) and isinstance(e.op, ast.USub)
                                           and isinstance(e.operand, ast.Constant)):
            v = e.value if isinstance(e, ast.Constant) else -e.operand.value
            if isinstance(v, bool) or not isinstance(v, (int, float)) or v != int(v):
                bad(e, "constant %r" % (v,))
            lit = "(%d : K)" % int(v)
            if want == "K":
                return [], lit, "K", False
            kind = ".pyInt" if isinstance(v, int) else ".pyFloat"
            return [], "(PyBdalg.Val.num %s %s)" % (kind, lit), "val", False
        if isinstance(e, ast.UnaryOp):
            if isinstance(e.op, ast.Not):
                pre, t = self.cond(e.operand, env)
                return pre, "(!%s)" % t, "bool", False
            if isinstance(e.op, ast.USub):
                pre, t, ty = self.atom(e.operand, env, want)
                if ty == "K":
                    return pre, "(-%s)" % t, "K", False
                if ty == "val":
                    return pre, "PyBdalg.Val.neg %s" % t, "val", True
            bad(e, "unary operator")
        if isinstance(e, ast.BoolOp):
            op = "&&" if isinstance(e.op, ast.And) else "||"
            pre, ts = [], []
            for i, v in enumerate(e.values):
                p, t = self.cond(v, env)
                if p and i > 0:
                    bad(e, "a later operand of and/or that can raise")
                pre += p
                ts.append(t)
            return pre, "(" + (" %s " % op).join(ts) + ")", "bool", False
        if isinstance(e, ast.Compare):
            if len(e.ops) == 1 and isinstance(e.ops[0], (ast.Is, ast.IsNot)):
                p1, a, ta = self.atom(e.left, env)
                p2, b, tb = self.atom(e.comparators[0], env)
                if ta == "val" and tb == "val":
                    t = "(PyBdalg.isObj w %s %s)" % (a, b)
                    return p1 + p2, t if isinstance(e.ops[0], ast.Is) else "(!%s)" % t, "bool", False
            bad(e, "comparison")
        if isinstance(e, ast.BinOp):
            if isinstance(e.op, (ast.Mult, ast.Add)):
                p1, a, ta = self.atom(e.left, env)
                p2, b, tb = self.atom(e.right, env)
                if ta == "val" and tb == "val":
                    f = "mul" if isinstance(e.op, ast.Mult) else "add"
                    return p1 + p2, "PyBdalg.Val.%s %s %s" % (f, a, b), "val", True
            bad(e, "binary operator")
        if isinstance(e, ast.Subscript):
            p, xs, ty = self.atom(e.value, env)
            if ty != "list":
                bad(e, "subscript of a non-sequence")
            s = e.slice
            if isinstance(s, ast.Slice):
                if s.step is not None:
                    bad(e, "slice step")
                lo = "none" if s.lower is None else "(some (%d : Int))" % self.intconst(s.lower)
                hi = "none" if s.upper is None else "(some (%d : Int))" % self.intconst(s.upper)
                return p, "(PyBdalg.slice %s %s %s)" % (xs, lo, hi), "list", False
            return p, "PyBdalg.item %s (%d : Int)" % (xs, self.intconst(s)), "val", True
        if isinstance(e, ast.Attribute):
            if e.attr == "omega":
                p, x, ty = self.atom(e.value, env)
                if ty == "val":
                    return p, "PyBdalg.Val.omega %s" % x, "val", True
            bad(e, "attribute .%s" % e.attr)
        if isinstance(e, ast.Call):
            return self.call(e, env)
        bad(e, "expression %s" % type(e).__name__)

    def intconst(self, e):
        if isinstance(e, ast.Constant) and isinstance(e.value, int) and not isinstance(e.value, bool):
            return e.value
        if isinstance(e, ast.UnaryOp) and isinstance(e.op, ast.USub) and isinstance(e.operand, ast.Constant) \
                and isinstance(e.operand.value, int):
            return -e.operand.value
        bad(e, "index that is not an integer literal")

    def atom(self, e, env, want=None):
        """expression as a pure term (a monadic one is bound to a temporary first)"""
        pre, t, ty, mon = self.ex(e, env, want)
        if mon:
            v = self.tmp()
            return pre + ["let %s ← %s" % (v, t)], v, ty
        return pre, t, ty

    def cond(self, e, env):
        pre, t, ty = self.atom(e, env)
        if ty == "kw":
            return pre, "(PyBdalg.kwTruthy %s)" % t,
        if ty == "bool":
            return pre, t
        bad(e, "truth value of a %s" % ty)

    def classes(self, e):
        items = e.elts if isinstance(e, ast.Tuple) else [e]
        out = []
        for c in items:
            if isinstance(c, ast.Name) and c.id in CLS_NAMES:
                out.append(CLS_NAMES[c.id])
            elif isinstance(c, ast.Attribute) and isinstance(c.value, ast.Name) and (c.value.id, c.attr) in CLS_ATTRS:
                out.append(CLS_ATTRS[(c.value.id, c.attr)])
            else:
                out.append("other")
        return "[" + ", ".join("PyBdalg.Cls." + c for c in out) + "]"

    def kwarg(self, call, env):
        """the `**kwargs` of a call -> kw term ('[]' when absent); other keywords returned by name"""
        kw, named = "[]", {}
        for k in call.keywords:
            if k.arg is None:
                if not (isinstance(k.value, ast.Name) and env.get(k.value.id) == "kw") or kw != "[]":
                    bad(call, "** of something that is not the keyword dictionary")
                kw = k.value.id
            else:
                named[k.arg] = k.value
        return kw, named

    def call(self, e, env):
        f = e.func
        kw, named = self.kwarg(e, env)
        if isinstance(f, ast.Name):
            if f.id == "isinstance" and len(e.args) == 2 and not e.keywords:
                p, x, ty = self.atom(e.args[0], env)
                if ty != "val":
                    bad(e, "isinstance of a %s" % ty)
                return p, "(PyBdalg.isinstance %s %s)" % (x, self.classes(e.args[1])), "bool", False
            if f.id == "deepcopy" and len(e.args) == 1 and not e.keywords:
                p, x, ty = self.atom(e.args[0], env)
                if ty != "val":
                    bad(e, "deepcopy of a %s" % ty)
                return p, "(PyBdalg.deepcopy %s)" % x, "val", False
            if f.id == "reduce" and len(e.args) == 3 and not e.keywords and isinstance(e.args[0], ast.Lambda):
                lam = e.args[0]
                a = lam.args
                if len(a.args) != 2 or a.vararg or a.kwarg or a.defaults or a.kwonlyargs:
                    bad(e, "reduce with a function that is not a two-argument lambda")
                x, y = a.args[0].arg, a.args[1].arg
                p1, xs, t1 = self.atom(e.args[1], env)
                p2, init, t2 = self.atom(e.args[2], env)
                if t1 != "list" or t2 != "val":
                    bad(e, "reduce over a %s from a %s" % (t1, t2))
                env2 = dict(env)
                env2[x] = env2[y] = "val"
                body = self.block_expr(lam.body, env2)
                return p1 + p2, "List.foldlM (fun (%s %s : PyBdalg.Val K) => %s) %s %s" % (x, y, body, init, xs), "val", True
            bad(e, "call of %s" % f.id)
        if isinstance(f, ast.Attribute):
            if isinstance(f.value, ast.Name) and f.value.id in ("tf", "frd", "ss") and f.value.id not in env:
                key = (f.value.id, f.attr)
                if key == ("tf", "_convert_to_transfer_function") and len(e.args) == 1 and not e.keywords:
                    p, x, ty = self.atom(e.args[0], env)
                    return p, "PyBdalg.convertToTF %s" % x, "val", True
                if key == ("ss", "_convert_to_statespace") and len(e.args) == 1 and not e.keywords:
                    p, x, ty = self.atom(e.args[0], env)
                    return p, "PyBdalg.convertToSS %s" % x, "val", True
                if key == ("frd", "_convert_to_frd") and len(e.args) == 2 and not e.keywords:
                    p1, x, _ = self.atom(e.args[0], env)
                    p2, o, _ = self.atom(e.args[1], env)
                    return p1 + p2, "PyBdalg.convertToFRD %s %s" % (x, o), "val", True
                bad(e, "call of %s.%s" % key)
            p, recv, ty = self.atom(f.value, env)
            if ty != "val":
                bad(e, "method of a %s" % ty)
            if f.attr == "feedback":
                # TransferFunction.feedback(self, other=1, sign=-1) (signature pinned)
                slots = {"other": None, "sign": None}
                order = ["other", "sign"]
                if len(e.args) > 2:
                    bad(e, "feedback with more than two positional arguments")
                for i, a in enumerate(e.args):
                    slots[order[i]] = a
                for k, v in named.items():
                    if k not in slots or slots[k] is not None:
                        bad(e, "feedback keyword %s" % k)
                    slots[k] = v
                pre = list(p)
                args = []
                for nm, want in (("other", "val"), ("sign", "K")):
                    if slots[nm] is None:
                        args.append("none")
                    else:
                        q, t, ty2 = self.atom(slots[nm], env, want)
                        if ty2 != want:
                            bad(e, "feedback argument %s is a %s" % (nm, ty2))
                        pre += q
                        args.append("(some %s)" % t)
                return pre, "PyBdalg.Val.feedbackM %s %s %s %s" % (recv, args[0], args[1], kw), "val", True
            if f.attr == "update_names" and not e.args and not named:
                return p, "PyBdalg.Val.updateNames %s %s" % (recv, kw), "unit", True
            if f.attr == "append" and len(e.args) == 1 and not e.keywords:
                q, x, ty2 = self.atom(e.args[0], env)
                if ty2 != "val":
                    bad(e, "append of a %s" % ty2)
                return p + q, "PyBdalg.Val.appendM %s %s" % (recv, x), "val", True
            bad(e, "method .%s" % f.attr)
        bad(e, "call")

    def block_expr(self, e, env):
        """an expression as a parenthesised computation"""
        pre, t, ty, mon = self.ex(e, env)
        if ty != "val":
            bad(e, "lambda returning a %s" % ty)
        last = t if mon else "pure %s" % t
        if not pre:
            return "(%s)" % last
        return "(do " + "; ".join(pre + [last]) + ")"

    # ---------------- statements ----------------
    def terminates(self, body):
        if not body:
            return False
        s = body[-1]
        if isinstance(s, (ast.Return, ast.Raise)):
            return True
        if isinstance(s, ast.If):
            return self.terminates(s.body) and self.terminates(s.orelse)
        if isinstance(s, ast.Try):
            return self.terminates(s.body) and all(self.terminates(h.body) for h in s.handlers)
        return False

    def assigned(self, body):
        out = []
        for s in body:
            if isinstance(s, ast.Assign) and len(s.targets) == 1 and isinstance(s.targets[0], ast.Name):
                if s.targets[0].id not in out:
                    out.append(s.targets[0].id)
            elif isinstance(s, ast.If):
                for v in self.assigned(s.body) + self.assigned(s.orelse):
                    if v not in out:
                        out.append(v)
            elif isinstance(s, (ast.Pass, ast.Expr)):
                pass
            else:
                bad(s, "statement %s inside a branch that falls through" % type(s).__name__)
        return out

    def stmts(self, body, env, ind, tail=None):
        """lines of a do-block for `body`; `tail`: None - the function body (must end in return / raise), or a list
        of names whose values the block yields (`pure (a, b)`) when it falls through"""
        env = dict(env)
        out = []
        pad = " " * ind
        for idx, s in enumerate(body):
            rest = body[idx + 1:]
            if isinstance(s, (ast.Import, ast.ImportFrom)):
                continue
            if isinstance(s, ast.Pass):
                continue
            if isinstance(s, ast.Expr) and isinstance(s.value, ast.Constant) and isinstance(s.value.value, str):
                continue
            if isinstance(s, ast.Return):
                if tail is not None or s.value is None:
                    bad(s, "return here")
                pre, t, ty, mon = self.ex(s.value, env)
                if ty != "val":
                    bad(s, "returns a %s" % ty)
                return out + [pad + l for l in pre] + [pad + (t if mon else "pure %s" % t)]
            if isinstance(s, ast.Raise):
                if tail is not None:
                    bad(s, "raise here")
                exc = s.exc
                nm = exc.func.id if isinstance(exc, ast.Call) and isinstance(exc.func, ast.Name) else \
                    exc.id if isinstance(exc, ast.Name) else None
                if nm not in EXC_RAISE:
                    bad(s, "raise of %s" % nm)
                return out + [pad + "(Except.error PyBdalg.Exc.%s)" % EXC_RAISE[nm]]
            if isinstance(s, ast.Assign):
                if len(s.targets) != 1 or not isinstance(s.targets[0], ast.Name):
                    bad(s, "assignment target")
                x = s.targets[0].id
                pre, t, ty, mon = self.ex(s.value, env, env.get(x) if env.get(x) == "K" else None)
                if ty == "unit":
                    bad(s, "assignment of None")
                out += [pad + l for l in pre] + [pad + ("let %s ← %s" if mon else "let %s := %s") % (x, t)]
                env[x] = ty
                continue
            if isinstance(s, ast.Expr):
                pre, t, ty, mon = self.ex(s.value, env)
                if not (mon and ty == "unit"):
                    bad(s, "expression statement")
                out += [pad + l for l in pre] + [pad + t]
                continue
            if isinstance(s, ast.If):
                pre, c = self.cond(s.test, env)
                out += [pad + l for l in pre]
                tb, te = self.terminates(s.body), self.terminates(s.orelse)
                if tail is None and (tb or te):
                    b1 = s.body if tb else s.body + rest
                    b2 = s.orelse if te else s.orelse + rest
                    out += [pad + "if %s then" % c, pad + "  (do"] + self.stmts(b1, env, ind + 4) + \
                           [pad + "  )", pad + "else", pad + "  (do"] + self.stmts(b2, env, ind + 4) + [pad + "  )"]
                    return out
                # names first bound inside a branch are local to it (a later use is an unknown name)
                vs = [v for v in self.assigned(s.body + s.orelse) if v in env]
                if not vs:
                    bad(s, "a branch without effect on values")
                tup = vs[0] if len(vs) == 1 else "(" + ", ".join(vs) + ")"
                out += [pad + "let %s ← (if %s then" % (tup, c), pad + "    (do"] + self.stmts(s.body, env, ind + 6, vs) + \
                       [pad + "    )", pad + "  else", pad + "    (do"] + self.stmts(s.orelse, env, ind + 6, vs) + \
                       [pad + "    ) : Except PyBdalg.Exc (%s))" % " × ".join(LEANTY[env[v]] for v in vs)]
                continue
            if isinstance(s, ast.Try):
                if tail is not None or s.orelse or s.finalbody or not self.terminates(s.body):
                    bad(s, "try whose body does not return, or with else / finally")
                ev = self.tmp()
                out += [pad + "match ((do"] + self.stmts(s.body, env, ind + 4) + [pad + "  ) : %s) with" % RET,
                        pad + "| .ok %s_v => pure %s_v" % (ev, ev), pad + "| .error %s =>" % ev]
                for h in s.handlers:
                    if h.name is not None:
                        bad(h, "except ... as name")
                    items = [] if h.type is None else (h.type.elts if isinstance(h.type, ast.Tuple) else [h.type])
                    cls = []
                    for c in items:
                        cls.append(c.id if isinstance(c, ast.Name) and c.id in EXC_CLS else "other")
                    if h.type is None:
                        cls = ["Exception"]
                    hb = h.body if self.terminates(h.body) else h.body + rest
                    out += [pad + "  if PyBdalg.excMatches w %s [%s] then" % (ev, ", ".join("PyBdalg.ExcCls." + c for c in cls)),
                            pad + "    (do"] + self.stmts(hb, env, ind + 6) + [pad + "    )", pad + "  else"]
                out += [pad + "  (Except.error %s)" % ev]
                return out
            if isinstance(s, ast.For):
                if s.orelse or not isinstance(s.target, ast.Name):
                    bad(s, "for loop form")
                pre, xs, ty = self.atom(s.iter, env)
                if ty != "list":
                    bad(s, "loop over a %s" % ty)
                # names first bound inside the loop body are local to it (a later use is an unknown name)
                vs = [v for v in self.assigned(s.body) if v in env]
                if not vs or s.target.id in vs:
                    bad(s, "loop without a carried value")
                env2 = dict(env)
                env2[s.target.id] = "val"
                tup = vs[0] if len(vs) == 1 else "(" + ", ".join(vs) + ")"
                sty = " × ".join(LEANTY[env[v]] for v in vs)
                out += [pad + l for l in pre]
                out += [pad + "let %s ← List.foldlM (fun (%s : %s) (%s : PyBdalg.Val K) =>" % (tup, tup if len(vs) == 1 else "st", sty, s.target.id),
                        pad + "    ((do"]
                if len(vs) > 1:
                    out += [pad + "      let %s := st" % tup]
                out += self.stmts(s.body, env2, ind + 6, vs) + [pad + "    ) : Except PyBdalg.Exc (%s))) %s %s" % (sty, tup, xs)]
                continue
            bad(s, "statement %s" % type(s).__name__)
        if tail is None:
            bad(body[-1] if body else None, "the function can fall off its end")
        return out + [pad + "pure %s" % (tail[0] if len(tail) == 1 else "(" + ", ".join(tail) + ")")]


def fn_text(src, node):
    lines = src.split("\n")
    return "\n".join(lines[node.lineno - 1:node.end_lineno])


def check_pins(repo, tree):
    """the module-level meaning of the names the translation reads"""
    probs = []
    bound = {}
    for n in tree.body:
        if isinstance(n, ast.ImportFrom):
            mod = "." * n.level + (n.module or "")
            for a in n.names:
                bound[a.asname or a.name] = (mod, a.name)
        elif isinstance(n, ast.Import):
            for a in n.names:
                bound[a.asname or a.name] = ("", a.name)
        elif isinstance(n, (ast.FunctionDef, ast.ClassDef)) and n.name in PINNED_IMPORTS:
            bound[n.name] = ("<local definition>", n.name)
        elif isinstance(n, ast.Assign):
            for t in n.targets:
                if isinstance(t, ast.Name) and t.id in PINNED_IMPORTS:
                    bound[t.id] = ("<assignment>", t.id)
    for nm, want in PINNED_IMPORTS.items():
        if bound.get(nm) != want:
            probs.append("bdalg.py: the name `%s` is bound to %r, the translator reads it as %r" % (nm, bound.get(nm), want))
    try:
        xt = ast.parse(open(os.path.join(repo, "control", "xferfcn.py")).read())
        sig = None
        for c in xt.body:
            if isinstance(c, ast.ClassDef) and c.name == "TransferFunction":
                for m in c.body:
                    if isinstance(m, ast.FunctionDef) and m.name == "feedback":
                        sig = ast.unparse(m.args)
        if sig != "self, other=1, sign=-1":
            probs.append("xferfcn.py: TransferFunction.feedback has the signature (%s); the object layer Model/PyBdalg.lean "
                         "reads it as (self, other=1, sign=-1)" % sig)
    except (OSError, SyntaxError) as ex:
        probs.append("xferfcn.py unreadable: %s" % ex)
    return probs


def translate(src, tree, name):
    """-> (lean text of the file, problem or None, info)"""
    node = next((n for n in tree.body if isinstance(n, ast.FunctionDef) and n.name == name), None) if tree else None
    ptypes, vararg = SIGS[name]
    if vararg:
        params = "(sys : List (PyBdalg.Val K))"
    elif name == "feedback":
        params = "(sys1 : PyBdalg.Val K) (sys2 : Option (PyBdalg.Val K)) (sign : Option K)"
    else:
        params = "(sys : PyBdalg.Val K)"
    problem, sha, body_lines, doc = None, "-", None, ""
    if node is None:
        problem = "control/bdalg.py has no function %s" % name
    else:
        text = fn_text(src, node)
        sha = hashlib.sha256(text.encode()).hexdigest()
        try:
            a = node.args
            if a.kwonlyargs or a.posonlyargs or a.kwarg is None:
                bad(node, "signature: keyword-only / positional-only parameters or no **kwargs")
            env = {a.kwarg.arg: "kw"}
            pre = []
            plist = []
            if vararg:
                if a.args or a.vararg is None:
                    bad(node, "signature: expected (*sys, **kwargs)")
                env[a.vararg.arg] = "list"
                plist = ["(%s : List (PyBdalg.Val K))" % a.vararg.arg]
            else:
                if a.vararg is not None or len(a.args) != len(ptypes):
                    bad(node, "signature: expected %d positional parameters" % len(ptypes))
                nd = len(a.defaults)
                tr0 = Tr(set())
                for i, (p, ty) in enumerate(zip(a.args, ptypes)):
                    env[p.arg] = ty
                    di = i - (len(a.args) - nd)
                    if di >= 0:
                        _, t, ty2, _ = tr0.ex(a.defaults[di], {}, ty)
                        if ty2 != ty:
                            bad(node, "default of %s" % p.arg)
                        plist.append("(%s : Option (%s))" % (p.arg, LEANTY[ty]))
                        pre.append("let %s := %s.getD %s" % (p.arg, p.arg, t))
                    else:
                        plist.append("(%s : %s)" % (p.arg, LEANTY[ty]))
            plist.append("(%s : PyBdalg.Kw)" % a.kwarg.arg)
            params = " ".join(plist)
            tr = Tr(set())
            body_lines = ["    " + l for l in pre] + tr.stmts(node.body, env, 4)
        except Untranslatable as ex:
            problem = "control/bdalg.py:%s cannot be translated: %s" % (name, ex)
            body_lines = None
    hdr = "-- GENERATED on every run by harness/core/py2lean_bdalgfn.py from control/bdalg.py (%s %s).  Do not edit.\n" % (name, sha)
    out = hdr + "import CtrlVerif.Model.PyBdalg\n\nnamespace CtrlVerif.Generated.BdalgFn\n\nopen CtrlVerif\n\n"
    out += "/-- `control/bdalg.py:%s` as the source text says it (sha256 of the function text\n%s).\n" % (name, sha)
    out += "`w`: what values do not determine (object identity, which model errors are TypeErrors);\na parameter with a default is an `Option` (`none`: not passed). -/\n"
    if body_lines is None:
        if vararg:
            params = "(sys : List (PyBdalg.Val K)) (kwargs : PyBdalg.Kw)"
        elif name == "feedback":
            params = "(sys1 : PyBdalg.Val K) (sys2 : Option (PyBdalg.Val K)) (sign : Option K) (kwargs : PyBdalg.Kw)"
        else:
            params = "(sys : PyBdalg.Val K) (kwargs : PyBdalg.Kw)"
        out += "-- TRANSLATION FAILED: %s\n" % (problem or "").replace("\n", " ")
        out += "def %s {K : Type} [Field K] [DecidableEq K] (w : PyBdalg.World) %s :\n    %s :=\n  .error .untranslated\n" % (name, params, RET)
    else:
        out += "def %s {K : Type} [Field K] [DecidableEq K] (w : PyBdalg.World) %s :\n    %s :=\n  (do\n" % (name, params, RET)
        out += "\n".join(body_lines) + ")\n"
    out += "\nend CtrlVerif.Generated.BdalgFn\n"
    return out, problem, {"bdalgfn." + name: sha}


def regenerate(repo, lean_dir, funcs=FUNCS):
    """Rewrite Generated/BdalgFn*.lean; returns (problems, info).  Deterministic; rewritten only when changed."""
    problems, info = [], {}
    gdir = os.path.join(lean_dir, "CtrlVerif", "Generated")
    os.makedirs(gdir, exist_ok=True)
    try:
        src = open(os.path.join(repo, "control", "bdalg.py")).read()
        tree = ast.parse(src)
    except (OSError, SyntaxError) as ex:
        src, tree = None, None
        problems.append("control/bdalg.py unreadable: %s" % ex)
    if tree is not None:
        problems += check_pins(repo, tree)
    for name in funcs:
        text, prob, inf = translate(src, tree, name)
        if prob:
            problems.append(prob)
        info.update(inf)
        path = os.path.join(gdir, FILES[name])
        old = open(path).read() if os.path.exists(path) else None
        if old != text:
            with open(path, "w") as f:
                f.write(text)
    return problems, info


if __name__ == "__main__":
    import sys
    repo = sys.argv[1]
    src = open(os.path.join(repo, "control", "bdalg.py")).read()
    tree = ast.parse(src)
    print(check_pins(repo, tree))
    for nm in (sys.argv[2:] or FUNCS):
        t, p, i = translate(src, tree, nm)
        print(t)
        print(p, i)
