"""Sixth translator Python `ast` -> Lean 4 (DESIGN §10.3 / notes/NOTES-py2lean-frd.md): the arithmetic
METHODS of `class FrequencyResponseData` (control/frdata.py) and the operand conversion
`_convert_to_frd` - NumPy programs on 3-D arrays `frdata[i, j, k]` with loops over the frequency
index, `isinstance` dispatch on the kind of the other operand, SISO promotion through `append` and
timebase handling through `common_timebase`.  It regenerates `lean/CtrlVerif/Generated/FRD*.lean`
from the source text of the tree the check runs against on every run; `Props/C09Gen*.lean` prove the
run-time layer of the hand-written C09 model (`Model/FRDDyn.lean`: `DFRD.convert neg add sub rsub mul
rmul truediv rtruediv pow feedback append select eval`) EQUAL to the generated functions, so a
semantic edit of the source breaks a proof obligation, and an edit that leaves the supported subset
makes the translation fail (reported the same way: the emitted definition is then `.error
.notImplemented` for every argument, which cannot equal the model).

Built on `core/py2lean_ss.py` (class `Translator`: coercions, static tests, specialisation per operand
kind, evaluation order, joins); this module adds the FRD value model, 3-D arrays, `for` loops (folds
over `List.range`), list comprehensions, `try ... except Exception: pass`, short-circuit `and` with an
effectful right operand, and the primitives of `lean/CtrlVerif/Model/PyFRD.lean` (hand-written,
trusted).

Value model:
  a `FrequencyResponseData` object -> `PyFRD K` (grid length, the model's record `DFRD K n`, timebase)
  the other operand                -> `PyOpd K`: an FRD object, a number, a 2-D ndarray, an LTI system
  a 3-D ndarray                    -> `PArr3 K`  (static views ARR3 `(p, m, n)` and STK `(n, p, m)`)
  a 2-D ndarray                    -> `PMat K` (py2lean_ss), 1-D arrays -> `FVec` (reals), `PBVec`, `PKVec K`
  Python float / complex           -> an arbitrary field `K`, EXACT arithmetic; frequencies -> `ℚ`
  sizes -> `Nat`, Python ints -> `Int`, timebase -> `Dt`, `common_timebase` -> `common`
Errors: `raise ValueError(msg)` -> `shape` (`missing` for "not all frequencies ..."), `raise
NotImplementedError / TypeError` and `return NotImplemented` -> `notImplemented` (the rule of
`families/c09.py: classify_exc`).

Supported subset beyond py2lean_ss (anything else raises `Unsupported`):
  statements  `for i in range(n): ...` with ONE array updated in the body, `A[:, :, i] = e`,
              `A[i, j, :] = e`, `A[a:b, c:d, :] = e`, `a, b = X.shape`, `if <test>: warn(...)` (dropped: no
              effect on values), `raise E("fmt" % (...))`, `try: ... return e  except Exception: pass`
              followed by the rest of the function, assignments of opaque values (names, labels)
  expressions see `FrdTranslator.call / binop / attribute / subscript`.
"""
import ast
import hashlib
import os
from fractions import Fraction

from core.py2lean import Unsupported
from core import py2lean_ss as S
from core.py2lean_ss import V, _ind, module_bindings

FRD, OPD, LTI, ARR3, STK, MAT, VEC, KVEC, BVEC = "FRD", "OPD", "LTI", "ARR3", "STK", "MAT", "VEC", "KVEC", "BVEC"
NUM, RAT, NAT, INT, DT, BOOL, PROP, SHAPE = "NUM", "RAT", "NAT", "INT", "DT", "BOOL", "PROP", "SHAPE"
LNAT, LLNAT, KEY, OPAQUE, NONE = "LNAT", "LLNAT", "KEY", "OPAQUE", "NONE"
LEAN_TY = {FRD: "PyFRD K", OPD: "PyOpd K", LTI: "LTI K", ARR3: "PArr3 K", STK: "PArr3 K", MAT: "PMat K",
           VEC: "FVec", KVEC: "PKVec K", BVEC: "PBVec", NUM: "K", RAT: "ℚ", NAT: "Nat", INT: "Int", DT: "Dt",
           BOOL: "Bool", LNAT: "List Nat", LLNAT: "List (List Nat)", KEY: "List Nat × List Nat"}
NUMBERS = ("int", "float", "complex", "np.number")
LEAN_KEYWORDS = {"match", "with", "do", "let", "fun", "if", "then", "else", "at", "from", "have", "show", "end",
                 "open", "in", "by", "where", "instance", "def", "theorem", "structure", "class", "local", "mut", "matches", "is", "to", "for", "unless", "return", "try", "catch", "finally", "nomatch", "using"}

# what the free names of control/frdata.py must be bound to (checked against the module's imports)
IMPORTS = {
    "np": ("import", "numpy"),
    "array": ("from", "numpy"), "empty": ("from", "numpy"), "eye": ("from", "numpy"), "linalg": ("from", "numpy"),
    "ones": ("from", "numpy"), "sort": ("from", "numpy"),
    "bdalg": ("from", ""), "common_timebase": ("from", "iosys"), "NamedSignal": ("from", "iosys"),
    "_process_subsys_index": ("from", "iosys"), "LTI": ("from", "lti"),
    "_process_frequency_response": ("from", "lti"), "warn": ("from", "warnings"),
    "Iterable": ("from", "collections.abc"), "config": ("from", ""),
    "FRD": ("assign",), "FrequencyResponseData": ("class",), "_convert_to_frd": ("def",),
}


def classify_raise(cls, msg):
    """the rule of harness/families/c09.py: classify_exc"""
    if cls in ("NotImplementedError", "TypeError"):
        return "notImplemented"
    if cls == "ValueError":
        return "missing" if "not all frequencies" in msg else "shape"
    if cls == "IndexError":
        return "indexRange"
    raise Unsupported("raise %s" % cls)


def lean_name(name):
    return name + "'" if name in LEAN_KEYWORDS else name


class FrdTranslator(S.Translator):
    def __init__(self, job, bindings, available, consts):
        S.Translator.__init__(self, job, bindings, available)
        self.consts = consts            # class attributes read from the source: {"_epsw": Fraction}

    # ---------------------------------------------------------------------------------------
    def need(self, name, what=None):
        S.Translator.need(self, name, IMPORTS[name] if what is None else what)

    def np_or_bare(self, f, bare):
        """`np.x` / bare `x` imported from numpy"""
        if f == "np." + bare:
            self.need("np")
            return True
        if f == bare:
            self.need(bare)
            return True
        return False

    def as_operand(self, v):
        if v.ty == OPD:
            return v.code
        if v.ty == FRD:
            return "(PyOpd.frd %s)" % v.code
        if v.ty == MAT:
            return "(PyOpd.ofMat %s)" % v.code
        if v.ty == LTI:
            return "(PyOpd.lti %s)" % v.code
        if v.ty in (NUM, INT, NAT) or v.lit is not None:
            return "(PyOpd.scalar %s)" % self.as_num(v)
        raise Unsupported("not an operand: %s" % v.ty)

    def as_bool(self, v):
        if v.ty == BOOL:
            return v.code
        if v.ty == PROP:
            return "(decide %s)" % v.code
        raise Unsupported("expected a bool, got %s" % v.ty)

    def as_rat(self, v):
        if v.ty == RAT:
            return v.code
        if v.lit is not None:
            return "(%d : ℚ)" % v.lit
        raise Unsupported("expected a real number, got %s" % v.ty)

    # -- static tests -------------------------------------------------------------------------
    def class_matches(self, ty, node):
        if isinstance(node, ast.Tuple):
            return any(self.class_matches(ty, e) for e in node.elts)
        src = ast.unparse(node)
        if src in NUMBERS:
            if src == "np.number":
                self.need("np")
            return ty in (NUM, INT, NAT)
        if src == "np.ndarray":
            self.need("np")
            return ty == MAT
        if src in ("FRD", "FrequencyResponseData"):
            self.need(src)
            return ty == FRD
        if src == "LTI":
            self.need("LTI")
            return ty in (FRD, LTI)
        if src == "Iterable":
            self.need("Iterable")
            if ty == KEY:
                return True
        raise Unsupported("isinstance(%s value, %s)" % (ty, src))

    def is_none_test(self, node):
        """`x is None` / `x is not None` -> (expr node, positive?)"""
        if isinstance(node, ast.Compare) and len(node.ops) == 1 and isinstance(node.ops[0], (ast.Is, ast.IsNot)) \
                and isinstance(node.comparators[0], ast.Constant) and node.comparators[0].value is None:
            return node.left, isinstance(node.ops[0], ast.Is)
        return None

    def test(self, node, env, pre):
        nt = self.is_none_test(node)
        if nt is not None:
            v = self.expr(node, env, pre)
            return None, "(%s = true)" % v.code
        if isinstance(node, ast.UnaryOp) and isinstance(node.op, ast.Not):
            s, c = self.test(node.operand, env, pre)
            if s is not None:
                return (not s), ("False" if s else "True")
            return None, "(¬ %s)" % c
        if isinstance(node, ast.BoolOp):
            is_and = isinstance(node.op, ast.And)
            parts = []
            for idx, sub in enumerate(node.values):
                npre = []
                s, c = self.test(sub, env, npre)
                if npre and (parts or idx > 0):
                    if s is not None:
                        raise Unsupported("effectful static operand of and/or")
                    # short circuit with an effectful later operand: bind a Bool
                    if not parts:
                        raise Unsupported("effectful operand of and/or after static operands only")
                    first = parts[0] if len(parts) == 1 else "(" + (" ∧ " if is_and else " ∨ ").join(parts) + ")"
                    rest_nodes = node.values[idx:]
                    rnode = rest_nodes[0] if len(rest_nodes) == 1 else ast.BoolOp(op=node.op, values=rest_nodes)
                    rpre = []
                    rs, rc = self.test(rnode, env, rpre)
                    if rs is not None:
                        raise Unsupported("static tail of and/or")
                    t = self.tmp()
                    inner = rpre + ["pure (decide %s)" % rc]
                    if is_and:
                        pre.extend(["let %s ← (do" % t, "  if %s then" % first] + _ind(inner, 4)
                                   + ["  else", "    pure false", "  : Except Err Bool)"])
                    else:
                        pre.extend(["let %s ← (do" % t, "  if %s then" % first, "    pure true", "  else"]
                                   + _ind(inner, 4) + ["  : Except Err Bool)"])
                    return None, "(%s = true)" % t
                pre.extend(npre)
                if s is not None:
                    if s != is_and:
                        return s, ("True" if s else "False")
                    continue
                parts.append(c)
            if not parts:
                return is_and, ("True" if is_and else "False")
            if len(parts) == 1:
                return None, parts[0]
            return None, "(" + (" ∧ " if is_and else " ∨ ").join(parts) + ")"
        if isinstance(node, ast.Compare) and len(node.ops) == 1 and not ast.unparse(node.left).startswith("type("):
            a = self.expr(node.left, env, pre)
            b = self.expr(node.comparators[0], env, pre)
            if a.lit is not None and b.lit is not None:
                fn = {ast.Eq: lambda x, y: x == y, ast.NotEq: lambda x, y: x != y, ast.Lt: lambda x, y: x < y,
                      ast.LtE: lambda x, y: x <= y, ast.Gt: lambda x, y: x > y,
                      ast.GtE: lambda x, y: x >= y}.get(type(node.ops[0]))
                if fn is None:
                    raise Unsupported("comparison %s" % ast.unparse(node))
                r = fn(a.lit, b.lit)
                return r, "True" if r else "False"
            sym = {ast.Eq: "=", ast.NotEq: "≠", ast.Lt: "<", ast.LtE: "≤", ast.Gt: ">", ast.GtE: "≥"}.get(
                type(node.ops[0]))
            if sym is None:
                raise Unsupported("comparison %s" % ast.unparse(node))
            return None, "(" + self.cmp_int(a, b, sym) + ")"
        if isinstance(node, ast.Call):
            f = self.dotted(node.func)
            if f == "any" and len(node.args) == 1 and not node.keywords:
                v = self.expr(node, env, pre)
                return None, "(%s = true)" % v.code
            if isinstance(node.func, ast.Attribute) and node.func.attr in ("all", "any") and not node.args:
                v = self.expr(node, env, pre)
                return None, "(%s = true)" % v.code
        return S.Translator.test(self, node, env, pre)

    # -- expressions --------------------------------------------------------------------------
    def expr(self, node, env, pre):
        if isinstance(node, ast.Name):
            if node.id in env:
                return env[node.id]
            raise Unsupported("unknown name %s" % node.id)
        if isinstance(node, ast.Constant):
            if node.value is None:
                return V("Dt.none", NONE)
            if node.value is True or node.value is False:
                return V("true" if node.value else "false", BOOL)
            if type(node.value) is int:
                return V("(%d : Int)" % node.value, INT, lit=node.value)
            if type(node.value) is str:
                return V("()", OPAQUE)
            raise Unsupported("constant %r" % (node.value,))
        nt = self.is_none_test(node)
        if nt is not None:
            inner, positive = nt
            if isinstance(inner, ast.Attribute) and inner.attr == "_ifunc":
                o = self.expr(inner.value, env, pre)
                if o.ty == FRD:
                    return V("(!(PyFRD.smooth %s))" % o.code if positive else "(PyFRD.smooth %s)" % o.code, BOOL)
            raise Unsupported("test %s" % ast.unparse(node))
        if isinstance(node, ast.BoolOp):
            vals = [self.expr(x, env, pre) for x in node.values]
            op = " && " if isinstance(node.op, ast.And) else " || "
            return V("(" + op.join(self.as_bool(v) for v in vals) + ")", BOOL)
        if isinstance(node, ast.UnaryOp) and isinstance(node.op, ast.USub):
            v = self.expr(node.operand, env, pre)
            if v.lit is not None:
                return V("(%d : Int)" % -v.lit, INT, lit=-v.lit)
            if v.ty == ARR3:
                return V("(PArr3.neg %s)" % v.code, ARR3)
            if v.ty == MAT:
                return V("(PMat.neg %s)" % v.code, MAT)
            if v.ty == NUM:
                return V("(-%s)" % v.code, NUM)
            if v.ty in (INT, NAT):
                return V("(-%s)" % self.as_int(v), INT)
            if v.ty == FRD:
                return self.call_method("__neg__", v, [], pre)
            if v.ty == LTI:
                return V("(LTI.neg %s)" % v.code, LTI)
            raise Unsupported("unary minus on %s" % v.ty)
        if isinstance(node, ast.ListComp):
            return self.listcomp(node, env, pre)
        if isinstance(node, ast.Compare) and len(node.ops) == 1:
            a = self.expr(node.left, env, pre)
            b = self.expr(node.comparators[0], env, pre)
            fn = {ast.Lt: "ltNum", ast.Gt: "gtNum", ast.Eq: "eqNum"}.get(type(node.ops[0]))
            if a.ty == VEC and fn is not None and (b.ty == RAT or b.lit is not None):
                return V("(FVec.%s %s %s)" % (fn, a.code, self.as_rat(b)), BVEC)
            raise Unsupported("comparison %s as a value" % ast.unparse(node)[:60])
        return S.Translator.expr(self, node, env, pre)

    def listcomp(self, node, env, pre):
        if len(node.generators) != 1 or node.generators[0].ifs or node.generators[0].is_async \
                or not isinstance(node.generators[0].target, ast.Name):
            raise Unsupported("comprehension %s" % ast.unparse(node)[:60])
        g = node.generators[0]
        it = self.expr(g.iter, env, pre)
        x = lean_name(g.target.id)
        if it.ty == VEC:
            lst, ety = "(FVec.toList %s)" % it.code, RAT
        elif it.ty == LLNAT:
            lst, ety = it.code, LNAT
        else:
            raise Unsupported("iteration over %s" % it.ty)
        benv = dict(env)
        benv[g.target.id] = V(x, ety)
        bpre = []
        save = self.ntmp
        b = self.expr(node.elt, benv, bpre)
        out_ty = {LNAT: LLNAT, NAT: LNAT}.get(b.ty)
        if out_ty is None:
            raise Unsupported("list of %s" % b.ty)
        if not bpre:
            self.ntmp = save
            return V("(List.map (fun (%s : %s) => %s) %s)" % (x, LEAN_TY[ety], b.code, lst), out_ty)
        body = bpre + ["pure %s" % b.code]
        t = self.tmp()
        pre.extend(["let %s ← List.mapM (fun (%s : %s) => (do" % (t, x, LEAN_TY[ety])] + _ind(body, 4)
                   + ["    : Except Err %s)) %s" % (LEAN_TY[b.ty], lst)])
        return V(t, out_ty)

    def attribute(self, node, env, pre):
        src = ast.unparse(node)
        if src == "FRD._epsw":
            self.need("FRD")
            if "_epsw" not in self.consts:
                raise Unsupported("class attribute _epsw not found as a numeric literal")
            q = self.consts["_epsw"]
            return V("((%d : ℚ) / %d)" % (q.numerator, q.denominator), RAT)
        if src == "np.newaxis":
            raise Unsupported("np.newaxis outside an index")
        v = self.expr(node.value, env, pre)
        a = node.attr
        if v.ty == FRD:
            if a == "frdata":
                return V("(PyFRD.frdata %s)" % v.code, ARR3)
            if a == "omega":
                return V("(PyFRD.omega %s)" % v.code, VEC)
            if a == "dt":
                return V("%s.dt" % v.code, DT)
            if a in ("ninputs", "noutputs"):
                return V("(PyFRD.%s %s)" % (a, v.code), NAT)
            if a in ("output_labels", "input_labels", "name"):
                return V("()", OPAQUE)
        if v.ty == LTI:
            if a == "dt":
                return V("(LTI.dt %s)" % v.code, DT)
            if a in ("ninputs", "noutputs"):
                return V("(LTI.%s %s)" % ({"ninputs": "m", "noutputs": "p"}[a], v.code), NAT)
        if v.ty in (NUM, INT, NAT, MAT) and a in ("ninputs", "noutputs"):
            raise AttributeErrorInSource("a %s operand has no attribute %s" % (v.ty, a))
        if v.ty in (ARR3, STK) and a == "shape":
            items = [V("%s.p" % v.code, NAT), V("%s.m" % v.code, NAT), V("%s.n" % v.code, NAT)]
            if v.ty == STK:
                items = [items[2], items[0], items[1]]
            return V(None, SHAPE, items=items)
        if v.ty == ARR3 and a == "dtype":
            return V("()", OPAQUE)
        if v.ty == MAT and a == "shape":
            return V(None, SHAPE, items=[V("%s.r" % v.code, NAT), V("%s.c" % v.code, NAT)])
        if v.ty == VEC:
            if a == "shape":
                return V(None, SHAPE, items=[V("%s.n" % v.code, NAT)])
            if a == "imag":
                return V("(FVec.imag %s)" % v.code, VEC)
        raise Unsupported("attribute .%s of %s" % (a, v.ty))

    def is_full(self, e):
        return isinstance(e, ast.Slice) and e.lower is None and e.upper is None and e.step is None

    def is_newaxis(self, e):
        if ast.unparse(e) == "np.newaxis":
            self.need("np")
            return True
        return False

    def subscript(self, node, env, pre):
        sl = node.slice
        elts = list(sl.elts) if isinstance(sl, ast.Tuple) else [sl]
        if ast.unparse(node.value) == "config.defaults" and isinstance(sl, ast.Constant) and isinstance(sl.value, str):
            self.need("config")
            return V("()", OPAQUE)
        v = self.expr(node.value, env, pre)
        if v.ty == SHAPE:
            k = None
            if isinstance(sl, ast.UnaryOp) and isinstance(sl.op, ast.USub) and isinstance(sl.operand, ast.Constant):
                k = -sl.operand.value
            elif isinstance(sl, ast.Constant) and type(sl.value) is int:
                k = sl.value
            if k is None or not (-len(v.items) <= k < len(v.items)):
                raise Unsupported("shape index %s" % ast.unparse(sl))
            return v.items[k]
        if v.ty == MAT:
            # M[:, :, np.newaxis] / M[np.newaxis, :, :] / M[i, j]
            if len(elts) == 3 and self.is_full(elts[0]) and self.is_full(elts[1]) and self.is_newaxis(elts[2]):
                return V("(PArr3.ofMat %s)" % v.code, ARR3)
            if len(elts) == 3 and self.is_newaxis(elts[0]) and self.is_full(elts[1]) and self.is_full(elts[2]):
                return V("(PStk.ofMat %s)" % v.code, STK)
            if len(elts) == 2 and not any(isinstance(e, ast.Slice) for e in elts):
                i = self.expr(elts[0], env, pre)
                j = self.expr(elts[1], env, pre)
                if self.nat_ok(i) and self.nat_ok(j):
                    return self.bind(pre, "PMat.get %s %s %s" % (v.code, self.as_nat(i), self.as_nat(j)), NUM)
            raise Unsupported("index %s of a 2-D array" % ast.unparse(sl))
        if v.ty == ARR3:
            if len(elts) == 3 and self.is_full(elts[0]) and self.is_full(elts[1]):
                k = self.expr(elts[2], env, pre)
                if self.nat_ok(k):
                    return self.bind(pre, "PArr3.getFreq %s %s" % (v.code, self.as_nat(k)), MAT)
                if k.ty == LNAT:
                    return self.bind(pre, "PArr3.takeFreq %s %s" % (v.code, k.code), ARR3)
            if len(elts) == 2 and self.is_full(elts[1]) and not isinstance(elts[0], ast.Slice):
                r = self.expr(elts[0], env, pre)
                if r.ty == LNAT:
                    return self.bind(pre, "PArr3.takeRows %s %s" % (v.code, r.code), ARR3)
            if len(elts) == 2 and self.is_full(elts[0]) and not isinstance(elts[1], ast.Slice):
                c = self.expr(elts[1], env, pre)
                if c.ty == LNAT:
                    return self.bind(pre, "PArr3.takeCols %s %s" % (v.code, c.code), ARR3)
            raise Unsupported("index %s of a 3-D array" % ast.unparse(sl))
        if v.ty == KEY and isinstance(sl, ast.Constant) and sl.value in (0, 1):
            return V("%s.%d" % (v.code, sl.value + 1), LNAT)
        if v.ty == LNAT and isinstance(sl, ast.Constant) and sl.value == 0:
            return self.bind(pre, "PyList.get0 %s" % v.code, NAT)
        raise Unsupported("subscript of %s" % v.ty)

    def binop(self, node, env, pre):
        op = node.op
        # `1j * omega`
        if isinstance(op, ast.Mult) and isinstance(node.left, ast.Constant) and node.left.value == 1j:
            b = self.expr(node.right, env, pre)
            if b.ty == VEC:
                return V("(FVec.jw E %s)" % b.code, KVEC)
            raise Unsupported("1j * %s" % b.ty)
        a = self.expr(node.left, env, pre)
        b = self.expr(node.right, env, pre)
        ints = lambda v: v.ty in (INT, NAT)
        num = lambda v: v.ty == NUM or ints(v)
        sysl = lambda v: v.ty in (FRD,)
        other = lambda v: v.ty in (NUM, MAT, INT, NAT, LTI)
        if isinstance(op, ast.MatMult):
            if a.ty == MAT and b.ty == MAT:
                return self.bind(pre, "PMat.matmul %s %s" % (a.code, b.code), MAT)
            if a.ty == STK and b.ty == STK:
                return self.bind(pre, "PStk.matmul %s %s" % (a.code, b.code), STK)
            raise Unsupported("%s @ %s" % (a.ty, b.ty))
        if isinstance(op, (ast.Add, ast.Sub)):
            plus = isinstance(op, ast.Add)
            if a.ty == OPAQUE and b.ty == OPAQUE and plus:
                return V("()", OPAQUE)
            if a.ty == ARR3 and b.ty == ARR3 and plus:
                return self.bind(pre, "PArr3.add %s %s" % (a.code, b.code), ARR3)
            if a.ty == STK and b.ty == STK and not plus:
                return self.bind(pre, "PStk.sub %s %s" % (a.code, b.code), STK)
            if a.ty == VEC and b.ty == VEC and not plus:
                return self.bind(pre, "FVec.sub %s %s" % (a.code, b.code), VEC)
            if ints(a) and ints(b):
                if a.lit is not None and b.lit is not None:
                    k = a.lit + b.lit if plus else a.lit - b.lit
                    return V("(%d : Int)" % k, INT, lit=k)
                if plus and a.ty == NAT and b.ty == NAT and a.lit is None and b.lit is None:
                    return V("(%s + %s)" % (a.code, b.code), NAT)
                return V("(%s %s %s)" % (self.as_int(a), "+" if plus else "-", self.as_int(b)), INT)
            if sysl(a):
                return self.call_method("__add__" if plus else "__sub__", a, [b], pre)
            if sysl(b) and other(a):
                return self.call_method("__radd__" if plus else "__rsub__", b, [a], pre)
            raise Unsupported("%s %s %s" % (a.ty, "+" if plus else "-", b.ty))
        if isinstance(op, ast.Mult):
            if a.ty == ARR3 and num(b):
                return V("(PArr3.mulNum %s %s)" % (a.code, self.as_num(b)), ARR3)
            if a.ty == ARR3 and b.ty == KVEC:
                return self.bind(pre, "PArr3.mulKVec %s %s" % (a.code, b.code), ARR3)
            if num(a) and b.ty == STK:
                return V("(PStk.smul %s %s)" % (self.as_num(a), b.code), STK)
            if sysl(a):
                return self.call_method("__mul__", a, [b], pre)
            if sysl(b) and other(a):
                return self.call_method("__rmul__", b, [a], pre)
            raise Unsupported("%s * %s" % (a.ty, b.ty))
        if isinstance(op, ast.Div):
            if num(a) and num(b):
                return self.bind(pre, "PyNum.div %s %s" % (self.as_num(a), self.as_num(b)), NUM)
            if a.ty == ARR3 and b.ty == ARR3:
                return self.bind(pre, "PArr3.div %s %s" % (a.code, b.code), ARR3)
            if num(a) and b.ty == ARR3:
                return self.bind(pre, "PArr3.rdivNum %s %s" % (self.as_num(a), b.code), ARR3)
            if sysl(a):
                return self.call_method("__truediv__", a, [b], pre)
            if sysl(b) and other(a):
                return self.call_method("__rtruediv__", b, [a], pre)
            raise Unsupported("%s / %s" % (a.ty, b.ty))
        if isinstance(op, ast.Pow):
            if a.ty == FRD and ints(b):
                return self.call_method("__pow__", a, [b], pre, raw=[self.as_int(b)])
            raise Unsupported("%s ** %s" % (a.ty, b.ty))
        raise Unsupported("operator %s" % type(op).__name__)

    def call_method(self, name, recv, args, pre, raw=None):
        if name == self.job["func"]:
            if not self.job.get("recursive"):
                raise Unsupported("recursive call of %s" % name)
            lean, envarg = self.job["lean"], self.job.get("env", True)
        elif name in self.available:
            lean, envarg = self.available[name]
        else:
            raise Unsupported("call of %s, which has no generated counterpart (yet)" % name)
        if raw is None:
            raw = [self.as_operand(x) for x in args]
        return self.bind(pre, " ".join([lean] + (["E"] if envarg else []) + [recv.code] + raw), FRD)

    def shape3(self, node, env, pre):
        """a shape argument `(a, b, c)` or `X.shape` of a 3-D array -> three size codes"""
        v = self.expr(node, env, pre)
        if v.ty != SHAPE or len(v.items) != 3 or not all(self.nat_ok(x) for x in v.items):
            raise Unsupported("shape %s" % ast.unparse(node))
        return [self.as_nat(x) for x in v.items]

    def call(self, node, env, pre):
        f = self.dotted(node.func)
        args, kws = node.args, {k.arg: k.value for k in node.keywords}
        # methods on values
        if isinstance(node.func, ast.Attribute) and not kws:
            m = node.func.attr
            if m in ("issiso", "isctime", "all", "any") and not args:
                v = self.expr(node.func.value, env, pre)
                if v.ty == FRD and m == "issiso":
                    return V("(PyFRD.issiso %s = true)" % v.code, PROP)
                if v.ty == LTI and m == "isctime":
                    return V("(PyLTI.isctime %s = true)" % v.code, PROP)
                if v.ty == BVEC and m in ("all", "any"):
                    return V("(PBVec.%s %s)" % (m, v.code), BOOL)
                raise Unsupported("call %s" % ast.unparse(node)[:80])
        if isinstance(node.func, ast.Name) and node.func.id in env and env[node.func.id].ty == LTI \
                and len(args) == 1 and not kws:
            # sys(x): evaluation of an LTI system on a vector of points
            x = self.expr(args[0], env, pre)
            if x.ty == KVEC:
                return self.bind(pre, "PyLTI.call %s %s" % (env[node.func.id].code, x.code), ARR3)
            raise Unsupported("call of a system on %s" % x.ty)
        if f == "len" and len(args) == 1 and not kws:
            v = self.expr(args[0], env, pre)
            if v.ty == VEC:
                return V("%s.n" % v.code, NAT)
            if v.ty == SHAPE:
                return V("(%d : Int)" % len(v.items), INT, lit=len(v.items))
            if v.ty == KEY:
                return V("(2 : Int)", INT, lit=2)
            if v.ty == LNAT:
                return V("%s.length" % v.code, NAT)
            raise Unsupported("len of %s" % v.ty)
        if f == "abs" and len(args) == 1 and not kws:
            v = self.expr(args[0], env, pre)
            if v.ty == VEC:
                return V("(FVec.abs %s)" % v.code, VEC)
        if f == "any" and len(args) == 1 and not kws:
            if isinstance(args[0], ast.GeneratorExp):
                g = args[0]
                if len(g.generators) == 1 and not g.generators[0].ifs and isinstance(g.generators[0].target, ast.Name):
                    it = self.expr(g.generators[0].iter, env, pre)
                    if it.ty == LLNAT:
                        x = lean_name(g.generators[0].target.id)
                        benv = dict(env)
                        benv[g.generators[0].target.id] = V(x, LNAT)
                        bpre = []
                        s, c = self.test(g.elt, benv, bpre)
                        if bpre or s is not None:
                            raise Unsupported("generator body %s" % ast.unparse(g.elt))
                        return V("(List.any %s (fun (%s : List Nat) => decide %s))" % (it.code, x, c), BOOL)
                raise Unsupported("any(%s)" % ast.unparse(args[0])[:60])
            v = self.expr(args[0], env, pre)
            if v.ty == BVEC:
                return V("(PBVec.any %s)" % v.code, BOOL)
        if self.is_call(f, "ones") and len(args) == 1:
            if set(kws) - {"dtype"}:
                raise Unsupported("call %s" % ast.unparse(node)[:80])
            probe = self.expr(args[0], env, [])
            if probe.ty == SHAPE and len(probe.items) == 3:
                p, m, n = self.shape3(args[0], env, pre)
                return V("(PArr3.ones %s %s %s)" % (p, m, n), ARR3)
            if probe.ty == SHAPE and len(probe.items) == 2 and all(self.nat_ok(x) for x in probe.items):
                return V("(PMat.ones %s %s)" % (self.as_nat(probe.items[0]), self.as_nat(probe.items[1])), MAT)
            if self.nat_ok(probe):
                return V("(PKVec.ones %s)" % self.as_nat(probe), KVEC)
            raise Unsupported("call %s" % ast.unparse(node)[:80])
        if (self.is_call(f, "empty") or f == "np.zeros") and len(args) == 1 and not (set(kws) - {"dtype"}):
            if f == "np.zeros":
                self.need("np")
            p, m, n = self.shape3(args[0], env, pre)
            return V("(PArr3.%s %s %s %s)" % ("zeros" if f == "np.zeros" else "empty", p, m, n), ARR3)
        if self.is_call(f, "eye") and not kws and len(args) in (1, 2):
            vs = [self.expr(x, env, pre) for x in args]
            if all(self.nat_ok(x) for x in vs):
                if len(vs) == 1:
                    return V("(PMat.eye %s)" % self.as_nat(vs[0]), MAT)
                return V("(PMat.eyeRect %s %s)" % (self.as_nat(vs[0]), self.as_nat(vs[1])), MAT)
        if self.is_call(f, "array") and len(args) == 1:
            v = self.expr(args[0], env, pre)
            if v.ty == MAT and not kws:
                return v
            if v.ty == VEC and list(kws) == ["ndmin"] and ast.unparse(kws["ndmin"]) == "1":
                return V("(FVec.array1 %s)" % v.code, VEC)
        if self.is_call(f, "sort") and len(args) == 1 and not kws:
            v = self.expr(args[0], env, pre)
            if v.ty == VEC:
                return V("(FVec.sort %s)" % v.code, VEC)
        if f == "np.exp" and len(args) == 1 and not kws:
            # np.exp(1j * omega * sys.dt)
            self.need("np")
            e = args[0]
            if isinstance(e, ast.BinOp) and isinstance(e.op, ast.Mult) and isinstance(e.left, ast.BinOp) \
                    and isinstance(e.left.op, ast.Mult) and isinstance(e.left.left, ast.Constant) \
                    and e.left.left.value == 1j:
                w = self.expr(e.left.right, env, pre)
                d = self.expr(e.right, env, pre)
                if w.ty == VEC and d.ty == DT:
                    return self.bind(pre, "FVec.expj E %s %s" % (w.code, d.code), KVEC)
            raise Unsupported("call %s" % ast.unparse(node)[:80])
        if f == "np.moveaxis" and len(args) == 3 and not kws:
            self.need("np")
            v = self.expr(args[0], env, pre)
            ax = (ast.unparse(args[1]), ast.unparse(args[2]))
            if v.ty == ARR3 and ax == ("2", "0"):
                return V("(PArr3.toStack %s)" % v.code, STK)
            if v.ty == STK and ax == ("0", "2"):
                return V("(PArr3.ofStack %s)" % v.code, ARR3)
        if f in ("linalg.inv", "np.linalg.inv") and len(args) == 1 and not kws:
            self.need("linalg" if f == "linalg.inv" else "np")
            v = self.expr(args[0], env, pre)
            if v.ty == STK:
                return self.bind(pre, "PStk.inv %s" % v.code, STK)
        if f == "np.reshape" and len(args) == 2 and not kws and isinstance(args[1], ast.Tuple) \
                and len(args[1].elts) == 3 and ast.unparse(args[1].elts[2]) == "-1":
            self.need("np")
            v = self.expr(args[0], env, pre)
            p = self.expr(args[1].elts[0], env, pre)
            m = self.expr(args[1].elts[1], env, pre)
            if v.ty == ARR3 and self.nat_ok(p) and self.nat_ok(m):
                return self.bind(pre, "PArr3.reshape %s %s %s" % (v.code, self.as_nat(p), self.as_nat(m)), ARR3)
        if f == "np.flatnonzero" and len(args) == 1 and not kws:
            self.need("np")
            v = self.expr(args[0], env, pre)
            if v.ty == BVEC:
                return V("(PBVec.flatnonzero %s)" % v.code, LNAT)
        if f == "common_timebase" and len(args) == 2 and not kws:
            self.need("common_timebase")
            a = self.expr(args[0], env, pre)
            b = self.expr(args[1], env, pre)
            if a.ty == DT and b.ty == DT:
                return self.bind(pre, "common %s %s" % (a.code, b.code), DT)
        if f == "_convert_to_frd" and len(args) == 1 and set(kws) <= {"omega", "inputs", "outputs"} and "omega" in kws:
            self.need("_convert_to_frd")
            if "_convert_to_frd" not in self.available:
                raise Unsupported("_convert_to_frd has no generated counterpart")
            a = self.expr(args[0], env, pre)
            w = self.expr(kws["omega"], env, pre)
            i = self.expr(kws["inputs"], env, pre) if "inputs" in kws else V("(1 : Nat)", NAT)
            o = self.expr(kws["outputs"], env, pre) if "outputs" in kws else V("(1 : Nat)", NAT)
            if w.ty == VEC and self.nat_ok(i) and self.nat_ok(o):
                return self.bind(pre, "%s E %s %s %s %s" % (self.available["_convert_to_frd"][0], self.as_operand(a),
                                                            w.code, self.as_nat(i), self.as_nat(o)), FRD)
        if f in ("FRD", "FrequencyResponseData") and 2 <= len(args) <= 3:
            self.need(f)
            if set(kws) - {"dt", "smooth", "inputs", "outputs", "name"} or (len(args) == 3 and "dt" in kws):
                raise Unsupported("constructor call %s" % ast.unparse(node)[:80])
            d = self.expr(args[0], env, pre)
            w = self.expr(args[1], env, pre)
            dt = self.expr(args[2], env, pre) if len(args) == 3 else \
                (self.expr(kws["dt"], env, pre) if "dt" in kws else None)
            if dt is None:
                raise Unsupported("constructor call without dt (the configured default is not modelled)")
            sm = self.expr(kws["smooth"], env, pre) if "smooth" in kws else V("false", BOOL)
            for k in ("inputs", "outputs", "name"):
                if k in kws and self.expr(kws[k], env, pre).ty != OPAQUE:
                    raise Unsupported("constructor keyword %s" % k)
            if d.ty == ARR3 and w.ty == VEC and dt.ty in (DT, NONE) and sm.ty in (BOOL, PROP):
                return self.bind(pre, "PyFRD.ctor %s %s %s %s" % (d.code, w.code, dt.code, self.as_bool(sm)), FRD)
            raise Unsupported("constructor call FRD(%s, %s, dt=%s, smooth=%s)" % (d.ty, w.ty, dt.ty, sm.ty))
        if f == "bdalg.append" and len(args) == 1 and isinstance(args[0], ast.Starred) and not kws:
            self.need("bdalg")
            inner = args[0].value
            if isinstance(inner, ast.BinOp) and isinstance(inner.op, ast.Mult) and isinstance(inner.left, ast.List) \
                    and len(inner.left.elts) == 1:
                x = self.expr(inner.left.elts[0], env, pre)
                k = self.expr(inner.right, env, pre)
                if x.ty == FRD and self.nat_ok(k):
                    if "append" not in self.available:
                        raise Unsupported("bdalg.append before FrequencyResponseData.append has been generated")
                    return self.bind(pre, "PyFRD.appendCopies (%s E) %s %s" % (self.available["append"][0], x.code,
                                                                             self.as_nat(k)), FRD)
        if f == "NamedSignal" and len(args) == 3 and not kws:
            self.need("NamedSignal")
            vs = [self.expr(x, env, pre) for x in args]
            if vs[0].ty == MAT and vs[1].ty == OPAQUE and vs[2].ty == OPAQUE:
                self.notes.append("`NamedSignal(...)._parse_key(key, level=1)` and `_process_subsys_index` are read as "
                                  "the identity on index lists that are already resolved (their own source tie: C17Gen)")
                return V("()", "IOMAP")
        if isinstance(node.func, ast.Attribute) and node.func.attr == "_parse_key" and len(args) == 1 \
                and list(kws) == ["level"] and ast.unparse(kws["level"]) == "1":
            o = self.expr(node.func.value, env, pre)
            k = self.expr(args[0], env, pre)
            if o.ty == "IOMAP" and k.ty == KEY:
                return k
        if f == "_process_subsys_index" and len(args) == 2 and not kws:
            self.need("_process_subsys_index")
            i = self.expr(args[0], env, pre)
            l = self.expr(args[1], env, pre)
            if i.ty == LNAT and l.ty == OPAQUE:
                return V(None, "PAIR", items=[i, V("()", OPAQUE)])
        if f == "_process_frequency_response" and len(args) == 3 and list(kws) == ["squeeze"]:
            self.need("_process_frequency_response")
            vs = [self.expr(x, env, pre) for x in args]
            if vs[0].ty == FRD and vs[2].ty == ARR3:
                self.notes.append("`_process_frequency_response(self, omega, out, squeeze=squeeze)` is read as `out` "
                                  "(the squeeze processing is property C18's, with its own source tie)")
                return vs[2]
        raise Unsupported("call %s" % ast.unparse(node)[:80])

    def is_call(self, f, bare):
        return self.np_or_bare(f, bare) if f in (bare, "np." + bare) else False

    # -- statements ---------------------------------------------------------------------------
    def value_stmt(self, v, pre):
        want = self.job.get("returns", FRD)
        if v.ty != want:
            raise Unsupported("returns a %s" % v.ty)
        if pre and pre[-1].startswith("let %s ← " % v.code) and not pre[-1].endswith("(do"):
            last = pre.pop()
            return pre + [last[len("let %s ← " % v.code):]]
        return pre + ["pure %s" % v.code]

    def let(self, name, v, env, pre):
        if v.ty in (SHAPE, PROP, "PAIR"):
            raise Unsupported("assignment of a %s" % v.ty)
        self.locals.add(name)
        ln = lean_name(name)
        if v.ty in (OPAQUE, "IOMAP"):
            env[name] = V("()", v.ty)
            return pre
        if v.ty == NONE:
            v = V("Dt.none", DT)
        import re
        if pre and pre[-1].startswith("let %s ← " % v.code) and re.fullmatch(r"t\d+", v.code) \
                and not pre[-1].endswith("(do"):
            last = pre.pop()
            self.ntmp -= 1
            lines = pre + ["let %s ← %s" % (ln, last[len("let %s ← " % v.code):])]
        else:
            code = v.code
            if v.lit is not None:
                code = "(%d : Int)" % v.lit
            lines = pre + ["let %s : %s := %s" % (ln, LEAN_TY[v.ty], code)]
        env[name] = V(ln, v.ty)
        return lines

    def effect_free_test(self, node):
        """a test that cannot raise and has no effect: attribute reads, len, comparisons, .any()/.all()"""
        for n in ast.walk(node):
            if isinstance(n, (ast.BoolOp, ast.Compare, ast.Attribute, ast.Name, ast.Load, ast.And, ast.Or, ast.Not,
                              ast.UnaryOp, ast.Eq, ast.NotEq, ast.Lt, ast.Gt, ast.LtE, ast.GtE, ast.Tuple,
                              ast.Constant)):
                continue
            if isinstance(n, ast.Call):
                f = ast.unparse(n.func)
                if f in ("len", "isinstance") or f.endswith(".any") or f.endswith(".all"):
                    continue
            return False
        return True

    def is_warn_only(self, stmts):
        for s in stmts:
            if isinstance(s, ast.If):
                if not (self.effect_free_test(s.test) and self.is_warn_only(s.body) and self.is_warn_only(s.orelse)):
                    return False
                continue
            if not (isinstance(s, ast.Expr) and isinstance(s.value, ast.Call) and ast.unparse(s.value.func) == "warn"):
                return False
            self.need("warn")
        return True

    def external_branches(self, s):
        """a branch of an `if` that calls the spline routines (`splev`) is not translated: it becomes
        `raise NotImplementedError` (the interpolation between grid points is external to the model)"""
        def ext(stmts):
            return any(isinstance(n, ast.Call) and ast.unparse(n.func) in ("splev", "splprep")
                       for st in stmts for n in ast.walk(st))
        if not (ext(s.body) or ext(s.orelse)):
            return s
        stub = ast.parse("raise NotImplementedError('spline evaluation is external')").body
        self.notes.append("a branch that evaluates the interpolating spline (`splev`) is external: `throw Err.notImplemented`")
        return ast.If(test=s.test, body=stub if ext(s.body) else s.body, orelse=stub if ext(s.orelse) else s.orelse)

    def raise_stmt(self, s):
        e = s.exc
        if isinstance(e, ast.Call) and isinstance(e.func, ast.Name) and len(e.args) == 1 and not e.keywords:
            msg = e.args[0]
            if isinstance(msg, ast.BinOp) and isinstance(msg.op, ast.Mod):
                for n in ast.walk(msg.right):
                    if isinstance(n, ast.Call) and ast.unparse(n.func) not in ("len",):
                        raise Unsupported("raise %s" % ast.unparse(s)[:60])
                msg = msg.left
            if isinstance(msg, ast.Constant) and isinstance(msg.value, str):
                return ["throw Err.%s" % classify_raise(e.func.id, msg.value)]
        raise Unsupported("raise %s" % ast.unparse(s)[:60])

    def for_stmt(self, s, env):
        if s.orelse or not isinstance(s.target, ast.Name):
            raise Unsupported("for statement %s" % ast.unparse(s)[:60])
        it = s.iter
        if not (isinstance(it, ast.Call) and ast.unparse(it.func) == "range" and len(it.args) == 1 and not it.keywords):
            raise Unsupported("for ... in %s" % ast.unparse(it)[:40])
        pre = []
        n = self.expr(it.args[0], env, pre)
        if not self.nat_ok(n):
            raise Unsupported("range(%s)" % n.ty)
        # variables that exist before the loop and are assigned in it are the loop state; names first
        # assigned inside the body are temporaries of one round (a later use is an unknown name)
        names = sorted(n for n in self.assigned(s.body) - {s.target.id} if n in env)
        if len(names) != 1:
            raise Unsupported("a for loop must update exactly one existing variable, got %s" % names)
        x = names[0]
        ty = env[x].ty
        i = lean_name(s.target.id)
        benv = dict(env)
        benv[s.target.id] = V(i, NAT)
        benv[x] = V(lean_name(x), ty)
        self.locals.add(s.target.id)
        body, _ = self.seq(list(s.body), benv, [(x, ty)])
        if benv[x].ty != ty:
            raise Unsupported("the loop changes the type of %s" % x)
        lx = lean_name(x)
        lines = pre + ["let %s ← List.foldlM (fun (%s : %s) (%s : Nat) => (do" % (lx, lx, LEAN_TY[ty], i)] \
            + _ind(body, 4) + ["    : Except Err (%s))) %s (List.range %s)" % (LEAN_TY[ty], env[x].code, self.as_nat(n))]
        env[x] = V(lx, ty)
        return lines

    def setitem(self, t, value, env):
        """`A[...] = e` for a 3-D array"""
        x = self.expr(t.value, env, [])
        if x.ty != ARR3:
            raise Unsupported("item assignment on %s" % x.ty)
        sl = t.slice
        elts = list(sl.elts) if isinstance(sl, ast.Tuple) else [sl]
        if len(elts) != 3:
            raise Unsupported("item assignment %s" % ast.unparse(t))
        pre = []
        name = lean_name(t.value.id)
        if self.is_full(elts[0]) and self.is_full(elts[1]) and not isinstance(elts[2], ast.Slice):
            k = self.expr(elts[2], env, pre)
            v = self.expr(value, env, pre)
            if self.nat_ok(k) and v.ty == MAT:
                return pre + ["let %s ← PArr3.setFreq %s %s %s" % (name, x.code, self.as_nat(k), v.code)]
        elif self.is_full(elts[2]) and not isinstance(elts[0], ast.Slice) and not isinstance(elts[1], ast.Slice):
            i = self.expr(elts[0], env, pre)
            j = self.expr(elts[1], env, pre)
            v = self.expr(value, env, pre)
            if self.nat_ok(i) and self.nat_ok(j) and (v.ty == NUM or v.ty in (INT, NAT)):
                return pre + ["let %s ← PArr3.setFiber %s %s %s %s" % (name, x.code, self.as_nat(i), self.as_nat(j),
                                                                     self.as_num(v))]
        elif self.is_full(elts[2]) and isinstance(elts[0], ast.Slice) and isinstance(elts[1], ast.Slice) \
                and elts[0].step is None and elts[1].step is None:
            bounds = [self.slice_bound(elts[0].lower, env, pre), self.slice_bound(elts[0].upper, env, pre),
                      self.slice_bound(elts[1].lower, env, pre), self.slice_bound(elts[1].upper, env, pre)]
            v = self.expr(value, env, pre)
            if v.ty == ARR3:
                return pre + ["let %s ← PArr3.setBlock %s %s %s" % (name, x.code, " ".join(bounds), v.code)]
        raise Unsupported("item assignment %s" % ast.unparse(t)[:60])

    def seq(self, stmts, env, tail):
        lines = []
        stmts = [s for s in stmts if not self.is_doc(s) and not isinstance(s, (ast.ImportFrom, ast.Pass))]
        for idx, s in enumerate(stmts):
            rest = stmts[idx + 1:]
            if isinstance(s, ast.Return):
                if s.value is None:
                    raise Unsupported("bare return")
                if isinstance(s.value, ast.Name) and s.value.id == "NotImplemented":
                    return lines + ["throw Err.notImplemented"], True
                pre = []
                try:
                    v = self.expr(s.value, env, pre)
                except AttributeErrorInSource as e:
                    self.notes.append("AttributeError: %s" % e)
                    return lines + ["throw Err.badArg"], True
                return lines + self.value_stmt(v, pre), True
            if isinstance(s, ast.Raise):
                return lines + self.raise_stmt(s), True
            if isinstance(s, ast.Expr) and self.is_warn_only([s]):
                continue
            if isinstance(s, ast.For):
                lines += self.for_stmt(s, env)
                continue
            if isinstance(s, ast.Assign) and len(s.targets) == 1:
                t = s.targets[0]
                if isinstance(t, ast.Name):
                    pre = []
                    try:
                        v = self.expr(s.value, env, pre)
                    except AttributeErrorInSource as e:
                        self.notes.append("AttributeError: %s" % e)
                        return lines + ["throw Err.badArg"], True
                    lines += self.let(t.id, v, env, pre)
                    continue
                if isinstance(t, ast.Tuple) and all(isinstance(x, ast.Name) for x in t.elts):
                    names = [x.id for x in t.elts]
                    if isinstance(s.value, ast.Tuple) and len(t.elts) == len(s.value.elts):
                        used = {n.id for n in ast.walk(s.value) if isinstance(n, ast.Name)}
                        if used & set(names):
                            raise Unsupported("tuple assignment that reads its own targets")
                        for nm, val in zip(names, s.value.elts):
                            pre = []
                            v = self.expr(val, env, pre)
                            lines += self.let(nm, v, env, pre)
                        continue
                    pre = []
                    v = self.expr(s.value, env, pre)
                    if v.ty in (SHAPE, "PAIR") and len(v.items) == len(names):
                        lines += pre
                        for nm, item in zip(names, v.items):
                            lines += self.let(nm, item, env, [])
                        continue
                    raise Unsupported("assignment %s" % ast.unparse(s)[:60])
                if isinstance(t, ast.Subscript) and isinstance(t.value, ast.Name):
                    lines += self.setitem(t, s.value, env)
                    env[t.value.id] = V(lean_name(t.value.id), ARR3)
                    continue
                raise Unsupported("assignment %s" % ast.unparse(s)[:60])
            if isinstance(s, ast.Try):
                # try: <stmts that end in `return e`>  except Exception: pass   -- then the rest of the function
                if s.orelse or s.finalbody or len(s.handlers) != 1 or s.handlers[0].type is None \
                        or ast.unparse(s.handlers[0].type) != "Exception" \
                        or not (len(s.handlers[0].body) == 1 and isinstance(s.handlers[0].body[0], ast.Pass)) \
                        or not self.always_ends(s.body):
                    raise Unsupported("try statement %s" % ast.unparse(s)[:60])
                benv = dict(env)
                bl, _ = self.seq(list(s.body), benv, None)
                rl, ended = self.seq(rest, dict(env), tail)
                ty = LEAN_TY[self.job.get("returns", FRD)]
                return lines + ["match (do"] + _ind(bl, 4) + ["    : Except Err (%s)) with" % ty, "| .ok v => pure v",
                                                             "| .error _ => do"] + _ind(rl), ended
            if isinstance(s, ast.If):
                s = self.external_branches(s)
                if self.is_warn_only(s.body) and self.is_warn_only(s.orelse) and self.effect_free_test(s.test):
                    self.notes.append("`if %s: warn(...)` has no effect on values and is dropped" % ast.unparse(s.test)[:70]
                                      .replace("\n", " "))
                    continue
                pre = []
                st, cond = self.test(s.test, env, pre)
                if st is True:
                    sub, ended = self.seq(list(s.body) + rest, env, tail)
                    return lines + pre + sub, ended
                if st is False:
                    sub, ended = self.seq(list(s.orelse) + rest, env, tail)
                    return lines + pre + sub, ended
                hyp = ("h%d : " % self.next_hyp()) if self.job.get("recursive") else ""
                save, save_h, save_notes = self.ntmp, getattr(self, "nhyp", 0), list(self.notes)
                benv, eenv = dict(env), dict(env)
                bl, b_end = self.seq(list(s.body), benv, [])
                el, e_end = self.seq(list(s.orelse), eenv, [])
                self.ntmp, self.nhyp, self.notes = save, save_h, save_notes
                if b_end or e_end:
                    benv, eenv = dict(env), dict(env)
                    bl, b_end = self.seq(list(s.body) + ([] if b_end else rest), benv, tail)
                    el, e_end = self.seq(list(s.orelse) + ([] if e_end else rest), eenv, tail)
                    return (lines + pre + ["if %s%s then" % (hyp, cond)] + _ind(bl) + ["else"] + _ind(el)), \
                        (b_end and e_end)
                names = sorted(self.assigned(s.body) | self.assigned(s.orelse))
                live = []
                for nm in names:
                    tb, te = benv.get(nm), eenv.get(nm)
                    if tb is None or te is None:
                        continue
                    if tb.ty != te.ty:
                        raise Unsupported("`%s` has type %s / %s after the branches" % (nm, tb.ty, te.ty))
                    if tb.ty in (OPAQUE, "IOMAP"):
                        continue
                    live.append((nm, tb.ty))
                if not live:
                    raise Unsupported("an if statement without effect")
                benv, eenv = dict(env), dict(env)
                bl, _ = self.seq(list(s.body), benv, live)
                el, _ = self.seq(list(s.orelse), eenv, live)
                tys = [LEAN_TY[t] for _, t in live]
                pat = lean_name(live[0][0]) if len(live) == 1 else "(" + ", ".join(lean_name(nm) for nm, _ in live) + ")"
                ty = tys[0] if len(tys) == 1 else " × ".join(tys)
                lines += pre + ["let %s ← (do" % pat] + _ind(["if %s%s then" % (hyp, cond)] + _ind(bl) + ["else"] + _ind(el)) \
                    + ["  : Except Err (%s))" % ty]
                for nm, t in live:
                    env[nm] = V(lean_name(nm), t)
                    self.locals.add(nm)
                livenames = [nm for nm, _ in live]
                for nm in names:
                    if nm not in livenames:
                        env.pop(nm, None)
                continue
            raise Unsupported("statement %s" % ast.unparse(s)[:60])
        if tail is None:
            self.notes.append("a path falls off the end of the method (Python returns None): `throw Err.badArg`")
            return lines + ["throw Err.badArg"], True
        if tail == []:
            return lines, False
        vals = []
        for nm, t in tail:
            if nm not in env:
                raise Unsupported("internal: join variable undefined")
            vals.append(env[nm].code)
        return lines + ["pure %s" % (vals[0] if len(vals) == 1 else "(" + ", ".join(vals) + ")")], False


class AttributeErrorInSource(Exception):
    """the source reads an attribute that a value of this static type does not have: Python raises
    AttributeError at this point"""


# -------------------------------------------------------------------------------------------------
# jobs
#   kind 'unary'    : (self)
#        'dispatch' : (self, other, ...) translated once per kind of `other`
#        'int'      : (self, other) with an int `other` (`__pow__`)
#        'convert'  : module-level `_convert_to_frd(sys, omega, inputs, outputs)`, per kind of `sys`
#        'plain'    : (self, <typed extra parameters>)
# -------------------------------------------------------------------------------------------------
JOBS = [
    dict(func="_convert_to_frd", lean="convertToFrd", kind="convert", extra=[("omega", VEC), ("inputs", NAT), ("outputs", NAT)],
         defaults={"inputs": "1", "outputs": "1"}, out="FRDConvert.lean", env=True, cls=None),
    dict(func="__neg__", lean="frdNeg", kind="unary", extra=[], defaults={}, out="FRDBasic.lean", env=False),
    dict(func="append", lean="frdAppend", kind="dispatch", extra=[], defaults={}, out="FRDBasic.lean", env=True),
    dict(func="__mul__", lean="frdMul", kind="dispatch", extra=[], defaults={}, out="FRDMul.lean", env=True),
    dict(func="__rmul__", lean="frdRmul", kind="dispatch", extra=[], defaults={}, out="FRDMul.lean", env=True),
    dict(func="__add__", lean="frdAdd", kind="dispatch", extra=[], defaults={}, out="FRDAdd.lean", env=True),
    dict(func="__radd__", lean="frdRadd", kind="dispatch", extra=[], defaults={}, out="FRDAdd.lean", env=True),
    dict(func="__sub__", lean="frdSub", kind="dispatch", extra=[], defaults={}, out="FRDAdd.lean", env=True),
    dict(func="__rsub__", lean="frdRsub", kind="dispatch", extra=[], defaults={}, out="FRDAdd.lean", env=True),
    dict(func="__truediv__", lean="frdTruediv", kind="dispatch", extra=[], defaults={}, out="FRDDiv.lean", env=True),
    dict(func="__rtruediv__", lean="frdRtruediv", kind="dispatch", extra=[], defaults={}, out="FRDDiv.lean", env=True),
    dict(func="__pow__", lean="frdPow", kind="int", extra=[], defaults={}, out="FRDPow.lean", env=True, recursive=True,
         termination="termination_by other.natAbs\ndecreasing_by all_goals omega"),
    dict(func="feedback", lean="frdFeedback", kind="dispatch", extra=[("sign", NUM)],
         defaults={"other": "1", "sign": "-1"}, out="FRDFeedback.lean", env=True),
    dict(func="__getitem__", lean="frdGetitemData", kind="plain", params=[("key", KEY)], defaults={},
         out="FRDIndex.lean", env=False),
    dict(func="eval", lean="frdEval", kind="plain", params=[("omega", VEC), ("squeeze", OPAQUE)],
         defaults={"squeeze": "None"}, out="FRDIndex.lean", env=False, returns=ARR3),
]
FILES = [("FRDConvert.lean", []), ("FRDBasic.lean", ["FRDConvert"]), ("FRDMul.lean", ["FRDBasic"]),
         ("FRDAdd.lean", ["FRDMul"]), ("FRDDiv.lean", ["FRDConvert"]), ("FRDPow.lean", ["FRDMul", "FRDDiv"]),
         ("FRDFeedback.lean", ["FRDConvert"]), ("FRDIndex.lean", [])]
REL = "control/frdata.py"
CLS = "FrequencyResponseData"
KINDS = [("frd", FRD, "| .frd %s =>", []),
         ("scalar", NUM, "| .scalar %s =>", []),
         ("array", MAT, "| .array %s_r %s_c %s_M =>", ["let %s : PMat K := ⟨%s_r, %s_c, %s_M⟩"]),
         ("lti", LTI, "| .lti %s =>", [])]


def find_function(module, job):
    if job.get("cls", CLS) is None:
        found = [n for n in module.body if isinstance(n, ast.FunctionDef) and n.name == job["func"]]
        if len(found) == 1:
            return found[0]
        raise Unsupported("function %s %s" % (job["func"], "not found" if not found else "defined twice"))
    return S.find_method(module, CLS, job["func"])


def class_consts(module):
    """numeric class attributes of FrequencyResponseData, read from the literal text (`_epsw = 1e-8`), and the
    check that `FRD` is the class"""
    out = {}
    for node in module.body:
        if isinstance(node, ast.ClassDef) and node.name == CLS:
            for s in node.body:
                if isinstance(s, ast.Assign) and len(s.targets) == 1 and isinstance(s.targets[0], ast.Name) \
                        and isinstance(s.value, ast.Constant) and type(s.value.value) in (int, float):
                    try:
                        out[s.targets[0].id] = Fraction(ast.unparse(s.value))
                    except ValueError:
                        pass
    alias = [n for n in module.body if isinstance(n, ast.Assign) and len(n.targets) == 1
             and isinstance(n.targets[0], ast.Name) and n.targets[0].id == "FRD"]
    out["__alias_ok__"] = len(alias) == 1 and ast.unparse(alias[0].value) == CLS
    return out


def signature(job):
    ret = LEAN_TY[job.get("returns", FRD)]
    e = "(E : Env K) " if job.get("env", True) else ""
    if job["kind"] == "unary":
        return e + "(self : PyFRD K)", ret
    if job["kind"] == "int":
        return e + "(self : PyFRD K) (other : Int)", ret
    if job["kind"] == "convert":
        return e + "(sys : PyOpd K)" + "".join(" (%s : %s)" % (n, LEAN_TY[t]) for n, t in job["extra"]), ret
    if job["kind"] == "plain":
        return e + "(self : PyFRD K)" + "".join(" (%s : %s)" % (n, LEAN_TY[t]) for n, t in job["params"]
                                               if t != OPAQUE), ret
    return e + "(self : PyFRD K) (other : PyOpd K)" + "".join(" (%s : %s)" % (n, LEAN_TY[t]) for n, t in job["extra"]), ret


def translate(src, module, bindings, job, available, consts):
    fn = find_function(module, job)
    a = fn.args
    if a.vararg or a.kwarg or a.kwonlyargs or a.posonlyargs:
        raise Unsupported("signature")
    got = [x.arg for x in a.args]
    if job["kind"] == "convert":
        want = ["sys"] + [n for n, _ in job["extra"]]
    elif job["kind"] == "plain":
        want = ["self"] + [n for n, _ in job["params"]]
    else:
        want = ["self"] + ([] if job["kind"] == "unary" else ["other"]) + [n for n, _ in job.get("extra", [])]
    if got != want:
        raise Unsupported("parameters %s, expected %s" % (got, want))
    defaults = dict(zip(got[len(got) - len(a.defaults):], [ast.unparse(d) for d in a.defaults]))
    if defaults != job["defaults"]:
        raise Unsupported("default values %s, expected %s" % (defaults, job["defaults"]))
    if not consts.get("__alias_ok__"):
        raise Unsupported("`FRD = FrequencyResponseData` not found at module level")
    text = ast.get_source_segment(src, fn)
    sha = hashlib.sha256(text.encode()).hexdigest()
    notes = []
    base_env = {}
    if job["kind"] != "convert":
        base_env["self"] = V("self", FRD)
    for n, t in job.get("extra", []) + job.get("params", []):
        base_env[n] = V("()" if t == OPAQUE else n, t)
    ntmp = 0
    if job["kind"] in ("unary", "int", "plain"):
        tr = FrdTranslator(job, bindings, available, consts)
        env = dict(base_env)
        if job["kind"] == "int":
            env["other"] = V("other", INT)
        lines, _ = tr.seq(fn.body, env, None)
        body = ["do"] + _ind(lines)
        notes += tr.notes
        ntmp = tr.ntmp
    else:
        var = "sys" if job["kind"] == "convert" else "other"
        body = ["match %s with" % var]
        arms = []
        kind_notes = []
        for kname, kty, arm, intro in KINDS:
            tr = FrdTranslator(job, bindings, available, consts)
            env = dict(base_env)
            env[var] = V(var, kty)
            lines, _ = tr.seq(fn.body, env, None)
            arms.append((kname, arm, intro, lines))
            for n in tr.notes:
                if (kname, n) not in kind_notes:
                    kind_notes.append((kname, n))
            ntmp = max(ntmp, tr.ntmp)
        for kname, n in kind_notes:
            ks = [k for k, n2 in kind_notes if n2 == n]
            line = ("every kind: " if len(ks) == len(KINDS) else "kind %s: " % ", ".join(ks)) + n
            if line not in notes:
                notes.append(line)
        # the part of the body after `other = _convert_to_frd(other, ...)` is the same text for several
        # kinds of operand: it is emitted once, as `<name>Core`, and called from those arms
        HEAD = "let other ← convertToFrd E "
        groups = {}
        for kname, arm, intro, lines in arms:
            if job["kind"] == "dispatch" and len(lines) >= 4 and lines[0].startswith(HEAD) \
                    and not any(l.lstrip().startswith(HEAD) for l in lines[1:]):
                groups.setdefault("\n".join(lines[1:]), []).append(kname)
        shared = [(txt, ks) for txt, ks in groups.items() if len(ks) >= 2]
        core_name = None
        if len(shared) == 1:
            core_txt, core_kinds = shared[0]
            core_name = job["lean"] + "Core"
            extras = "".join(" (%s : %s)" % (n, LEAN_TY[t]) for n, t in job.get("extra", []))
            core_def = ("/-- the part of `%s` after `other = _convert_to_frd(other, ...)` (the same text for the operand "
                        "kinds %s). -/\ndef %s (E : Env K) (self : PyFRD K) (other : PyFRD K)%s : Except Err (PyFRD K) :=\n  do\n"
                        % (job["func"], ", ".join(core_kinds), core_name, extras)
                        + "\n".join(_ind(core_txt.split("\n"), 4)) + "\n\n")
        for kname, arm, intro, lines in arms:
            if core_name and kname in core_kinds:
                lines = [lines[0], " ".join([core_name, "E", "self", "other"] + [n for n, _ in job.get("extra", [])])]
            nvar = arm.count("%s")
            body += [arm % ((var,) * nvar) + " do"] + _ind([l % ((var,) * l.count("%s")) for l in intro] + lines)
    where = REL + ":" + ("" if job.get("cls", CLS) is None else CLS + ".") + job["func"]
    doc = ("/-- `%s` as the source text says it (sha256 of the function text\n%s).\nDefaults: %s.%s -/\n" % (
        where, sha, ", ".join("%s=%s" % kv for kv in sorted(defaults.items())) or "none",
        "".join("\n  note: " + n.replace("-/", "- /") for n in notes)))
    sig, ret = signature(job)
    lean = doc + "def %s %s : Except Err (%s) :=\n" % (job["lean"], sig, ret) + "\n".join(_ind(body)) + "\n"
    if job["kind"] in ("dispatch", "convert") and core_name:
        lean = core_def + lean
    if job.get("termination"):
        lean += job["termination"] + "\n"
    return lean, {"sha": sha, "lines": fn.end_lineno - fn.lineno + 1, "temporaries": ntmp, "notes": notes}


def regenerate(repo, lean_dir, only=None):
    """Rewrite Generated/FRD*.lean; returns (list of problems, info dict).  The files are deterministic
    functions of the source text (no timestamps) and rewritten only when changed."""
    problems, info = [], {}
    gen_dir = os.path.join(lean_dir, "CtrlVerif", "Generated")
    os.makedirs(gen_dir, exist_ok=True)
    path = os.path.join(repo, REL)
    try:
        src = open(path).read()
        module = ast.parse(src)
        bindings = module_bindings(module)
        consts = class_consts(module)
        load_error = None
    except (OSError, SyntaxError) as e:
        src = module = bindings = consts = None
        load_error = str(e)
    available = {}
    texts = {out: [] for out, _ in FILES}
    for job in JOBS:
        where = REL + ":" + ("" if job.get("cls", CLS) is None else CLS + ".") + job["func"]
        sig, ret = signature(job)
        try:
            if load_error:
                raise Unsupported(load_error)
            lean, inf = translate(src, module, bindings, job, available, consts)
            info[job["func"]] = inf
        except Unsupported as e:
            msg = str(e).replace("\n", " ").replace("-/", "- /")[:300]
            problems.append("py2lean_frd: %s cannot be translated: %s" % (where, msg))
            # a definition that cannot be equal to the model, so the obligation visibly fails
            hidden = sig
            for nm in ["E", "self", "other", "sys"] + [n for n, _ in job.get("extra", []) + job.get("params", [])]:
                hidden = hidden.replace("(%s :" % nm, "(_%s :" % nm)
            lean = "/-- translation of `%s` FAILED: %s -/\ndef %s %s : Except Err (%s) :=\n  .error Err.notImplemented\n" % (
                where, msg, job["lean"], hidden, ret)
        available[job["func"]] = (job["lean"], job.get("env", True))
        texts[job["out"]].append(lean)
    for out, deps in FILES:
        if only and out not in only:
            continue
        shas = ", ".join("%s %s" % (j["func"], info[j["func"]]["sha"][:16] if j["func"] in info else "FAILED")
                         for j in JOBS if j["out"] == out)
        text = ("-- GENERATED on every run by harness/core/py2lean_frd.py from %s (%s).  Do not edit.\n" % (REL, shas)
                + "import CtrlVerif.Model.PyFRD\n"
                + "".join("import CtrlVerif.Generated.%s\n" % d for d in deps)
                + "\nnamespace CtrlVerif.Generated\n\nopen CtrlVerif\n\nnoncomputable section\n\n"
                + "variable {K : Type} [Field K] [DecidableEq K]\n\n"
                + "\n".join(texts[out]) + "\nend\n\nend CtrlVerif.Generated\n")
        p = os.path.join(gen_dir, out)
        old = open(p).read() if os.path.exists(p) else None
        if old != text:
            with open(p, "w") as f:
                f.write(text)
    return problems, info


if __name__ == "__main__":
    import sys
    probs, inf = regenerate(sys.argv[1], sys.argv[2])
    for p in probs:
        print("PROBLEM", p)
    for k, v in inf.items():
        print(k, v["sha"][:16], v["lines"], "lines,", v["temporaries"], "temporaries", v["notes"])
