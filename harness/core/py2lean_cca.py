"""Translator Python `ast` -> Lean 4 for `control/timeresp.py:_check_convert_array` (DESIGN §10.3).

Rewrites `lean/CtrlVerif/Generated/CheckConvertArray.lean` from the function's source text on every
run of the C06 check; `Props/C06GenCCA.lean` proves the generated function equal to the hand-written
specification `CheckConvert.checkConvert`, `Props/C06GenCCAUses.lean` shows the validation primitive
of the C20 model to be an instance of it.

Supported subset (anything else raises `Unsupported` -> a definition that cannot equal the model):
  * top level: assignments `x = e`; `if c: <assignments / nested if>` re-binding one variable;
    `if c: …; raise E(...)` (string building before the raise is skipped); a nested `def` whose
    body is `if c: return False`, one `for` loop and `return True`; `for … in <list>:` loops
    (with `continue`, `break`, `else: raise`), each emitted as a structurally recursive function
    over the list whose state is the one variable the loop re-binds; `return x`.
  * expressions: the NumPy calls listed in `Model/PyCCA.lean` (their meaning is fixed there),
    `len`, `zip`, `in` / `not in`, `==`, `!=`, `not`, names, string constants `'any'`, `'i'`, `'f'`, `'c'`.
The parameter `err_msg_start` only feeds exception messages and is dropped.  `TypeError` and
`ValueError` both map to `Err.badArg`."""
import ast
import hashlib
import os
import textwrap

REL = "control/timeresp.py"
FUNC = "_check_convert_array"
OUT = "CheckConvertArray.lean"
KINDS = {"i": "PyCCA.Kind.i", "f": "PyCCA.Kind.f", "c": "PyCCA.Kind.c"}
MONADIC = ("PyCCA.item", "PyCCA.full", "PyCCA.reshape")


class Unsupported(Exception):
    pass


def _u(node, what="construct"):
    raise Unsupported("%s: %s" % (what, ast.dump(node)[:120]))


def _is_np(f, name):
    return isinstance(f, ast.Attribute) and f.attr == name and isinstance(f.value, ast.Name) and f.value.id == "np"


def _const_str(n):
    return isinstance(n, ast.Constant) and isinstance(n.value, str)


def expr(n):
    """pure expression -> Lean text; monadic primitives are returned with their head in MONADIC"""
    if isinstance(n, ast.Name):
        return n.id
    if isinstance(n, ast.Constant) and type(n.value) is int:
        return str(n.value)
    if isinstance(n, ast.Attribute):
        if n.attr == "kind" and isinstance(n.value, ast.Attribute) and n.value.attr == "dtype":
            return "%s.kind" % expr(n.value.value)
        if n.attr == "ndim":
            return "PyCCA.ndim %s" % expr(n.value)
        if n.attr == "shape":
            return "%s.shape" % expr(n.value)
        _u(n, "attribute")
    if isinstance(n, ast.Subscript):
        if isinstance(n.slice, ast.Tuple) and not n.slice.elts:
            return "PyCCA.item %s" % expr(n.value)
        _u(n, "subscript")
    if isinstance(n, ast.UnaryOp) and isinstance(n.op, ast.Not):
        return "!(%s)" % expr(n.operand)
    if isinstance(n, ast.Compare) and len(n.ops) == 1:
        op, a, b = n.ops[0], n.left, n.comparators[0]
        if isinstance(op, ast.In) and _const_str(a) and a.value == "any":
            return "PyCCA.anyIn %s" % expr(b)
        if isinstance(op, ast.NotIn):
            return "!(%s.contains %s)" % (expr(b), expr(a))
        if isinstance(op, ast.In):
            return "%s.contains %s" % (expr(b), expr(a))
        if isinstance(op, ast.Eq) and _const_str(b) and b.value == "any":
            return "PyCCA.isAny %s" % expr(a)
        if isinstance(op, ast.Eq) and isinstance(b, ast.Call) and isinstance(b.func, ast.Name) \
                and b.func.id == "tuple" and not b.args:
            return "%s == []" % expr(a)
        if isinstance(op, ast.Eq) and isinstance(b, ast.Constant) and type(b.value) is int:
            return "%s == %d" % (expr(a), b.value)
        if isinstance(op, ast.NotEq) and all(isinstance(x, ast.Call) and isinstance(x.func, ast.Name)
                                             and x.func.id == "len" for x in (a, b)):
            return "%s != %s" % (expr(a), expr(b))
        if isinstance(op, ast.NotEq) and isinstance(a, ast.Name) and isinstance(b, ast.Name):
            return "PyCCA.dimNe %s %s" % (a.id, b.id)
        _u(n, "comparison")
    if isinstance(n, ast.Call):
        f = n.func
        if n.keywords:
            _u(n, "keyword arguments")
        if _is_np(f, "asarray") and len(n.args) == 1:
            return "PyCCA.asarray %s" % expr(n.args[0])
        if _is_np(f, "transpose") and len(n.args) == 1:
            return "PyCCA.transpose %s" % expr(n.args[0])
        if _is_np(f, "squeeze") and len(n.args) == 1:
            return "PyCCA.squeeze %s" % expr(n.args[0])
        if isinstance(f, ast.Name) and f.id == "len" and len(n.args) == 1:
            return "%s.length" % expr(n.args[0])
        if isinstance(f, ast.Name) and f.id == "zip" and len(n.args) == 2:
            return "List.zip %s %s" % (expr(n.args[0]), expr(n.args[1]))
        if isinstance(f, ast.Name) and f.id == "shape_matches" and len(n.args) == 2:
            return "shapeMatches %s %s" % (expr(n.args[0]), expr(n.args[1]))
        if isinstance(f, ast.Name) and f.id == "set" and len(n.args) == 1 and isinstance(n.args[0], ast.Tuple):
            items = []
            for e in n.args[0].elts:
                if not (_const_str(e) and e.value in KINDS):
                    _u(e, "dtype kind")
                items.append(KINDS[e.value])
            return "[%s]" % ", ".join(items)
        if isinstance(f, ast.Attribute) and f.attr == "reshape" and len(n.args) == 1 \
                and isinstance(n.args[0], ast.Tuple) \
                and all(isinstance(e, ast.Constant) and type(e.value) is int for e in n.args[0].elts):
            return "PyCCA.reshape %s [%s]" % (expr(f.value), ", ".join(str(e.value) for e in n.args[0].elts))
        _u(n, "call")
    _u(n, "expression")


def _strip(stmts):
    return [s for s in stmts if not (isinstance(s, ast.Expr) and _const_str(s.value))]


def _assign(s):
    if isinstance(s, ast.Assign) and len(s.targets) == 1 and isinstance(s.targets[0], ast.Name):
        return s.targets[0].id, s.value
    return None


def _fuse_empty_fill(stmts):
    """`x = np.empty(s, 'd'); x.fill(v)` -> pseudo assignment x <- PyCCA.full s v"""
    out, i = [], 0
    while i < len(stmts):
        s = stmts[i]
        a = _assign(s)
        if a and isinstance(a[1], ast.Call) and _is_np(a[1].func, "empty"):
            c = a[1]
            if not (len(c.args) == 2 and not c.keywords and _const_str(c.args[1]) and c.args[1].value == "d"):
                _u(c, "np.empty form")
            if i + 1 >= len(stmts):
                _u(s, "np.empty without fill")
            t = stmts[i + 1]
            if not (isinstance(t, ast.Expr) and isinstance(t.value, ast.Call)
                    and isinstance(t.value.func, ast.Attribute) and t.value.func.attr == "fill"
                    and isinstance(t.value.func.value, ast.Name) and t.value.func.value.id == a[0]
                    and len(t.value.args) == 1 and not t.value.keywords):
                _u(t, "np.empty must be followed by .fill on the same name")
            out.append(("bind", a[0], "PyCCA.full %s %s" % (expr(c.args[0]), expr(t.value.args[0]))))
            i += 2
            continue
        out.append(s)
        i += 1
    return out


def _simple(s):
    """a simple statement -> ('let'|'bind', name, text)"""
    if isinstance(s, tuple):
        return s
    a = _assign(s)
    if not a:
        _u(s, "statement")
    e = expr(a[1])
    return ("bind" if e.startswith(MONADIC) else "let", a[0], e)


def _emit_simple(kind, name, text, pad):
    return pad + ("let %s ← %s" % (name, text) if kind == "bind" else "let %s := %s" % (name, text))


def _is_raise_block(stmts):
    """string building followed by `raise TypeError/ValueError(...)`"""
    if not stmts or not isinstance(stmts[-1], ast.Raise):
        return False
    e = stmts[-1].exc
    if not (isinstance(e, ast.Call) and isinstance(e.func, ast.Name) and e.func.id in ("TypeError", "ValueError")):
        _u(stmts[-1], "raise")
    for s in stmts[:-1]:
        a = _assign(s)
        if not a or not a[0].endswith("_str") and a[0] != "err_msg":
            _u(s, "statement before raise")
    return True


class Tr:
    def __init__(self):
        self.defs = []          # auxiliary definitions (text), in order
        self.nloops = 0

    # --- loops ------------------------------------------------------------------------------
    def for_state_loop(self, loop, state):
        """`for v in xs:` re-binding `state`, body = [`if c: continue`]* simple* `break`; no else"""
        if loop.orelse or not isinstance(loop.target, ast.Name):
            _u(loop, "loop form")
        v = loop.target.id
        body = _fuse_empty_fill(_strip(loop.body))
        self.nloops += 1
        name = "loop%d" % self.nloops
        lines = ["/-- loop `for %s in %s:` re-binding `%s`. -/" % (v, expr(loop.iter), state),
                 "def %s : List PyCCA.LegalShape → PyCCA.Arr α → Except Err (PyCCA.Arr α)" % name,
                 "  | [], %s => pure %s" % (state, state),
                 "  | %s :: rest, %s =>" % (v, state)]
        pad = "    "
        closes = 0
        i = 0
        while i < len(body) and isinstance(body[i], ast.If) and not body[i].orelse \
                and len(body[i].body) == 1 and isinstance(body[i].body[0], ast.Continue):
            lines.append(pad + "if %s then" % expr(body[i].test))
            lines.append(pad + "  %s rest %s" % (name, state))
            lines.append(pad + "else")
            pad += "  "
            i += 1
        rest = body[i:]
        if not rest or not isinstance(rest[-1], ast.Break):
            _u(loop, "loop body must end in break")
        lines[-1] = lines[-1] + " do" if lines[-1].endswith("else") else lines[-1]
        if not lines[-1].endswith(" do"):
            lines.append(pad + "do")
            pad += "  "
        for s in rest[:-1]:
            k, n, t = _simple(s)
            lines.append(_emit_simple(k, n, t, pad))
        lines.append(pad + "pure %s" % state)
        self.defs.append("\n".join(lines))
        return "%s %s %s" % (name, expr(loop.iter), state)

    def for_else_raise(self, loop, state):
        """`for v in xs: if c: break` `else: …raise`"""
        body = _strip(loop.body)
        if not (isinstance(loop.target, ast.Name) and len(body) == 1 and isinstance(body[0], ast.If)
                and not body[0].orelse and len(body[0].body) == 1 and isinstance(body[0].body[0], ast.Break)
                and _is_raise_block(_strip(loop.orelse))):
            _u(loop, "for/else form")
        v = loop.target.id
        self.nloops += 1
        name = "loop%d" % self.nloops
        self.defs.append("\n".join([
            "/-- loop `for %s in %s: … else: raise`. -/" % (v, expr(loop.iter)),
            "def %s : List PyCCA.LegalShape → PyCCA.Arr α → Except Err Unit" % name,
            "  | [], _ => .error Err.badArg",
            "  | %s :: rest, %s =>" % (v, state),
            "    if %s then" % expr(body[0].test),
            "      pure ()",
            "    else",
            "      %s rest %s" % (name, state)]))
        return "%s %s %s" % (name, expr(loop.iter), state)

    def nested_def(self, fn):
        """def shape_matches(a, b): if c: return False; for x, y in zip(a, b): …; return True"""
        if fn.name != "shape_matches" or len(fn.args.args) != 2:
            _u(fn, "nested function")
        a, b = (x.arg for x in fn.args.args)
        body = _strip(fn.body)
        if not (len(body) == 3 and isinstance(body[0], ast.If) and not body[0].orelse
                and self._ret_const(body[0].body) is False and isinstance(body[1], ast.For)
                and self._ret_const([body[2]]) is True):
            _u(fn, "shape_matches form")
        loop = body[1]
        if loop.orelse or not (isinstance(loop.target, ast.Tuple) and len(loop.target.elts) == 2):
            _u(loop, "loop target")
        x, y = (_name(e) for e in loop.target.elts)
        lines = ["/-- loop `for %s, %s in %s:` of `shape_matches`. -/" % (x, y, expr(loop.iter).replace("List.zip", "zip")),
                 "def shapeMatchesLoop : List (PyCCA.Dim × Nat) → Bool",
                 "  | [] => true",
                 "  | (%s, %s) :: rest =>" % (x, y)]
        pad = "    "
        for s in _strip(loop.body):
            if not (isinstance(s, ast.If) and not s.orelse and len(s.body) == 1):
                _u(s, "statement in shape_matches loop")
            lines.append(pad + "if %s then" % expr(s.test))
            if isinstance(s.body[0], ast.Continue):
                lines.append(pad + "  shapeMatchesLoop rest")
            elif self._ret_const(s.body) is False:
                lines.append(pad + "  false")
            elif self._ret_const(s.body) is True:
                lines.append(pad + "  true")
            else:
                _u(s, "branch in shape_matches loop")
            lines.append(pad + "else")
            pad += "  "
        lines.append(pad + "shapeMatchesLoop rest")
        self.defs.append("\n".join(lines))
        self.defs.append("\n".join([
            "/-- nested function `shape_matches`. -/",
            "def shapeMatches (%s : PyCCA.LegalShape) (%s : List Nat) : Bool :=" % (a, b),
            "  if %s then" % expr(body[0].test),
            "    false",
            "  else",
            "    shapeMatchesLoop (%s)" % expr(loop.iter)]))

    @staticmethod
    def _ret_const(stmts):
        if len(stmts) == 1 and isinstance(stmts[0], ast.Return) and isinstance(stmts[0].value, ast.Constant) \
                and type(stmts[0].value.value) is bool:
            return stmts[0].value.value
        return None

    # --- statement lists re-binding one variable -------------------------------------------
    def rebind_block(self, stmts, state, pad):
        """statements of an `if` body that only re-bind `state` -> lines of a do block ending in pure"""
        lines = []
        for s in _fuse_empty_fill(_strip(stmts)):
            if isinstance(s, ast.If):
                lines += self.rebind_if(s, state, pad)
            elif isinstance(s, ast.For):
                lines.append(pad + "let %s ← %s" % (state, self.for_state_loop(s, state)))
            else:
                k, n, t = _simple(s)
                if n != state:
                    _u(s, "assignment to another variable inside a conditional")
                lines.append(_emit_simple(k, n, t, pad))
        lines.append(pad + "pure %s" % state)
        return lines

    def rebind_if(self, s, state, pad):
        if s.orelse:
            _u(s, "else branch")
        inner = self.rebind_block(s.body, state, pad + "    ")
        # a body that is a single pure re-binding is written as an expression
        if len(inner) == 2 and inner[0].strip().startswith("let %s := " % state):
            e = inner[0].strip()[len("let %s := " % state):]
            return [pad + "let %s := if %s then %s else %s" % (state, expr(s.test), e, state)]
        if len(inner) == 2 and inner[0].strip().startswith("let %s ← " % state):
            e = inner[0].strip()[len("let %s ← " % state):]
            return [pad + "let %s ← (if %s then %s else pure %s)" % (state, expr(s.test), e, state)]
        return ([pad + "let %s ← (if %s then do" % (state, expr(s.test))] + inner
                + [pad + "  else pure %s)" % state])

    # --- the function ------------------------------------------------------------------------
    def function(self, fn):
        params = [a.arg for a in fn.args.args]
        if params != ["in_obj", "legal_shapes", "err_msg_start", "squeeze", "transpose"]:
            raise Unsupported("parameters %s" % params)
        defaults = [d.value if isinstance(d, ast.Constant) else _u(d, "default") for d in fn.args.defaults]
        if defaults != [False, False]:
            raise Unsupported("defaults %s" % defaults)
        return self.seq(_strip(fn.body), "  ")

    def seq(self, stmts, pad):
        lines = []
        for i, s in enumerate(stmts):
            rest = stmts[i + 1:]
            if isinstance(s, ast.Return):
                if rest or not isinstance(s.value, ast.Name):
                    _u(s, "return")
                lines.append(pad + "pure %s" % s.value.id)
                return lines
            if isinstance(s, ast.FunctionDef):
                self.nested_def(s)
                continue
            if isinstance(s, ast.For):
                lines.append(pad + self.for_else_raise(s, "out_array"))
                continue
            if isinstance(s, ast.If):
                if _is_raise_block(_strip(s.body)) and not s.orelse:
                    lines.append(pad + "if %s then" % expr(s.test))
                    lines.append(pad + "  .error Err.badArg")
                    lines.append(pad + "else do")
                    return lines + self.seq(rest, pad + "  ")
                lines += self.rebind_if(s, "out_array", pad)
                continue
            k, n, t = _simple(s)
            lines.append(_emit_simple(k, n, t, pad))
        raise Unsupported("a path falls off the end of the function")


def _name(n):
    if isinstance(n, ast.Name):
        return n.id
    _u(n, "expected a name")


def find_function(module, name):
    for n in module.body:
        if isinstance(n, ast.FunctionDef) and n.name == name:
            return n
    raise Unsupported("function %s not found" % name)


def translate(src):
    module = ast.parse(src)
    fn = find_function(module, FUNC)
    text = ast.get_source_segment(src, fn)
    tr = Tr()
    body = tr.function(fn)
    main = ("/-- `%s:%s` as the source text says it (sha256 of the function text\n%s).\n"
            "Defaults: squeeze=False, transpose=False; `err_msg_start` (message text only) dropped. -/\n"
            "def checkConvertArray (in_obj : PyCCA.Arr α) (legal_shapes : List PyCCA.LegalShape)\n"
            "    (squeeze : Bool) (transpose : Bool) : Except Err (PyCCA.Arr α) := do\n"
            % (REL, FUNC, hashlib.sha256(text.encode()).hexdigest())) + "\n".join(body) + "\n"
    return tr.defs, main, hashlib.sha256(text.encode()).hexdigest()


def regenerate(repo, lean_dir):
    """Rewrite Generated/CheckConvertArray.lean; returns (problems, info)."""
    problems, info = [], {}
    gen_dir = os.path.join(lean_dir, "CtrlVerif", "Generated")
    try:
        src = open(os.path.join(repo, REL)).read()
        defs, main, sha = translate(src)
        info[FUNC] = {"sha": sha, "auxiliary_definitions": len(defs)}
        head = "%s %s" % (FUNC, sha[:16])
        body = "\n\n".join(defs + [main])
    except (OSError, SyntaxError, Unsupported, AttributeError, IndexError) as e:
        msg = str(e).replace("\n", " ").replace("-/", "- /")[:300]
        problems.append("py2lean_cca: %s:%s cannot be translated: %s" % (REL, FUNC, msg))
        head = "%s FAILED" % FUNC
        body = textwrap.dedent("""\
            /-- translation FAILED: %s -/
            def shapeMatchesLoop : List (PyCCA.Dim × Nat) → Bool := fun _ => false
            def shapeMatches (_ : PyCCA.LegalShape) (_ : List Nat) : Bool := false
            def loop1 : List PyCCA.LegalShape → PyCCA.Arr α → Except Err (PyCCA.Arr α) := fun _ _ => .error Err.notImplemented
            def loop2 : List PyCCA.LegalShape → PyCCA.Arr α → Except Err Unit := fun _ _ => .error Err.notImplemented
            def checkConvertArray (_ : PyCCA.Arr α) (_ : List PyCCA.LegalShape) (_ _ : Bool) :
                Except Err (PyCCA.Arr α) := .error Err.notImplemented
            """) % msg
    text_out = ("-- GENERATED on every run by harness/core/py2lean_cca.py from %s (%s).  Do not edit.\n" % (REL, head)
                + "import CtrlVerif.Model.PyCCA\n\nnamespace CtrlVerif.Generated.CCA\n\nopen CtrlVerif\n\n"
                + "variable {α : Type}\n\n" + body + "\nend CtrlVerif.Generated.CCA\n")
    p = os.path.join(gen_dir, OUT)
    old = open(p).read() if os.path.exists(p) else None
    if old != text_out:
        with open(p, "w") as f:
            f.write(text_out)
    return problems, info


if __name__ == "__main__":
    import sys
    probs, inf = regenerate(sys.argv[1], sys.argv[2])
    for p in probs:
        print("PROBLEM", p)
    print(inf)
